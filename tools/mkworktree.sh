#!/bin/sh
# tools/mkworktree.sh DIR — scratch git worktree of /repo at HEAD that builds on its own (no writes into /repo):
# adds the worktree, copies the untracked configure/build products, rewrites the absolute paths recorded by configure.
set -e
D=$1; [ -n "$D" ] || { echo "usage: $0 DIR" >&2; exit 2; }
git -C /repo worktree add -q --detach "$D" HEAD
rsync -a --exclude .git --ignore-existing /repo/ "$D"/
for f in Makefile src/Makefile test/Makefile build-aux/Makefile libltdl/Makefile info/Makefile config.status; do
	[ -f "$D/$f" ] && sed -i "s#/repo#$D#g" "$D/$f"
done
# make sure make does not think the generated sources are stale relative to the checkout
find "$D" -name '*.o' -o -name '*.lo' | xargs -r touch
echo "$D ready: make -C $D/src && make -C $D/test check"
