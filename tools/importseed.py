#!/usr/bin/env python3
"""tools/importseed.py SRC_DIR ID PROPERTY "one-line what" "needs ..." — copy a confirmed seeded change into /verif/seeded/ID/ and write meta.json."""
import json, os, shutil, sys, subprocess
src, sid, pid, what, needs = sys.argv[1:6]
dst = os.path.join("/verif/seeded", sid)
if os.path.exists(dst):
    shutil.rmtree(dst)
shutil.copytree(src, dst, ignore=shutil.ignore_patterns("*.o", "a.out", "core*"))
# drop bulky outputs
for fn in os.listdir(dst):
    p = os.path.join(dst, fn)
    if os.path.isfile(p) and os.path.getsize(p) > 300000:
        os.remove(p)
files = sorted({l.split()[-1][2:] for l in open(os.path.join(dst, "patch.diff")) if l.startswith("+++ b/")})
meta = {"id": sid, "property": pid, "breaks": what, "needs_to_manifest": needs, "files_touched": files,
        "origin": "independent sub-agent given only the property text and a scratch worktree",
        "confirmed_by": "tools/seedtest.sh: fresh scratch worktree of /repo HEAD; demo.sh PASS on the clean tree; patch applied, make -C src ok, "
                        "make -C test check 84/84 PASS, demo.sh FAIL",
        "checks_run": "ECHSE_REPO=<patched worktree> ./check %s --tier quick" % pid}
json.dump(meta, open(os.path.join(dst, "meta.json"), "w"), indent=1)
print(dst)
