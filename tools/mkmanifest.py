#!/usr/bin/env python3
"""Regenerate /verif/MANIFEST.json from the property modules in sa/props."""
import importlib
import json
import os
import sys

HERE = os.path.dirname(os.path.dirname(os.path.abspath(__file__)))
sys.path.insert(0, HERE)

NOT_APPLICABLE = {
    # (C07 was listed here after the design round; it is now claimed for narrow structural clauses, see DESIGN.md sections 3 and 4)
}

props = [json.loads(l)["id"] for l in open(os.path.join(HERE, "properties.jsonl"))]
checks = []
na = []
for pid in props:
    try:
        mod = importlib.import_module("sa.props." + pid.lower())
    except ImportError:
        mod = None
    if pid in NOT_APPLICABLE or mod is None or not getattr(mod, "READY", False):
        reason = NOT_APPLICABLE.get(pid) or (getattr(mod, "NA_REASON", None) if mod else None) or \
            "No sound static rule built for this property yet (see DESIGN.md); not claimed."
        na.append({"property_id": pid, "reason": reason})
        continue
    checks.append({
        "property_id": pid,
        "quick_cmd": "./check %s --tier quick" % pid,
        "thorough_cmd": "./check %s --tier thorough" % pid,
        "evidence_file": "/verif/evidence/%s.json" % pid,
        "replay_cmd_template": "./check --replay {path}",
        "engine": "echse-sa",
        "level_claimed": {
            "category": "other",
            "text": mod.LEVEL_TEXT,
            "design_ref": "DESIGN.md section 3, %s" % pid,
        },
        "level_note": mod.LEVEL_NOTE,
        "technique": mod.TECHNIQUE,
    })

manifest = {
    "version": 1,
    "setup_cmd": "./setup.sh",
    "hooks": {
        "guard": "ECHSE_VERIF",
        "enable": "none needed: every rule reads the unmodified source of /repo (no hook commits)",
        "baseline_off_cmd": "make -C /repo/src && make -C /repo/test check",
        "source_commits": [],
        "add_only": True,
    },
    "engines": [{
        "name": "echse-sa",
        "path": "/verif/check",
        "serves_properties": [c["property_id"] for c in checks],
        "kind_free_text": "static analysis: libTooling fact extractor (clang CFG + typed expression trees, constant tables, macros) "
                          "over a snapshot of /repo's working tree with regenerated gperf/yuck sources; repository-specific rule "
                          "engines in python (must-facts dataflow, dominance, influence closure, table agreement, order-type and "
                          "configuration enumeration over extracted branch conditions, fruitless-cycle loop analysis, nominal/width typing)",
    }],
    "checks": checks,
    "not_applicable": na,
    "notes": "Every check decides necessary structural clauses of its property from source (stated in level_claimed.text); none decides the "
             "behaviour itself. Exit 2 + ANALYSIS-BROKEN means the verdict cannot be trusted (anchor vanished, parse error, instance count below "
             "the confirmed minimum). Genuine defects found on the pinned tree are in /verif/known_findings.jsonl (fixed: entries name the fix: commit).",
}
with open(os.path.join(HERE, "MANIFEST.json"), "w") as f:
    json.dump(manifest, f, indent=1)
print("MANIFEST.json: %d checks, %d not applicable" % (len(checks), len(na)))
