#!/usr/bin/env python3
"""tools/scratch.py DIFF  — scratch copy of /repo's sources with DIFF applied; prints the directory (use as ECHSE_REPO=...; remove it afterwards)."""
import os, subprocess, sys
sys.path.insert(0, os.path.dirname(os.path.abspath(__file__)))
from witness import scratch_copy
d = scratch_copy()
r = subprocess.run(["patch", "-p1", "-s", "--no-backup-if-mismatch", "-i", os.path.abspath(sys.argv[1])], cwd=d)
print(d)
sys.exit(r.returncode)
