#!/bin/sh
# tools/seedtest.sh OUTDIR-N PID — confirm a seeded change independently and run the property's check against it.
#  1. fresh scratch worktree, demo on the clean tree must PASS
#  2. apply patch, rebuild, 84 tests must pass, demo must FAIL
#  3. ./check PID (quick) with ECHSE_REPO pointing at the patched worktree: report whether it fires
# Prints a one-line summary; leaves nothing behind.
S=$1; PID=$2
W=/tmp/seedchk-$(basename "$S")
/verif/tools/rmworktree.sh "$W" >/dev/null 2>&1
/verif/tools/mkworktree.sh "$W" >/dev/null || { echo "$S: cannot create worktree"; exit 2; }
make -C "$W/src" >/dev/null 2>&1
clean=$(sh "$S/demo.sh" "$W" 2>&1 | tail -1); crc=$?
( cd "$W" && git apply "$S/patch.diff" ) || { echo "$S: patch does not apply"; /verif/tools/rmworktree.sh "$W"; exit 2; }
touch "$W"/src/*.c; build=ok; make -j4 -C "$W/src" >/dev/null 2>&1 || build=FAILED
# the bitint_test_09..12 programs link libechse through *_LDFLAGS, so make does not relink them when the library changes: force it
rm -f "$W"/test/bitint_test_?? "$W"/test/evical_prnt "$W"/test/evical_prntdesc 2>/dev/null
tests=$(make -C "$W/test" check 2>&1 | grep -E "^# (PASS|FAIL)" | tr -d ' \n#')
mut=$(sh "$S/demo.sh" "$W" 2>&1 | tail -1); mrc=$?
chk=$(cd /verif && ECHSE_REPO="$W" ECHSE_NO_EVIDENCE=1 ./check "$PID" --tier quick 2>&1)
crc2=$?
fired=$(printf '%s\n' "$chk" | grep -c "^VIOLATION")
first=$(printf '%s\n' "$chk" | grep " instance " | grep -v "KNOWN" | head -2 | cut -c1-220)
echo "== $S [$PID] build=$build tests=$tests demo(clean)=$clean demo(mutant)=$mut check-rc=$crc2 violations=$fired"
[ -n "$first" ] && printf '%s\n' "$first" | sed 's/^/     /'
/verif/tools/rmworktree.sh "$W" >/dev/null 2>&1
