#!/bin/sh
# tools/seed2wit.sh SEED PID RULE KEYSUBSTR "note" — keep a seeded change as a must-fire witness of the rule that catches it
S=$1; P=$2; R=$3; K=$4; N=$5
mkdir -p /verif/witnesses/$R
{ echo "# expect: $P $R $K"; echo "# note: from seeded change $S (independent sub-agent): $N"; cat /verif/seeded/$S/patch.diff; } > /verif/witnesses/$R/from-$S.diff
echo /verif/witnesses/$R/from-$S.diff
