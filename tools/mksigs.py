#!/usr/bin/env python3
"""tools/mksigs.py — (re)generate sa/known_signatures.json: file, linkage, return and parameter types of every function named in
sa/known_functions.txt, taken from the current tree (the tree the rules were confirmed against).  Used by sa/rename.py."""
import json, os, sys
sys.path.insert(0, os.path.dirname(os.path.dirname(os.path.abspath(__file__))))
os.environ["ECHSE_NO_INLINE"] = "1"
from sa.snapshot import Snapshot
from sa.facts import Program
from sa.inline import known_functions
from sa.rename import fingerprint, SIG_FILE
snap = Snapshot(keep=False).take()
units = snap.extract()
prog = Program.load([u["out"] for u in units])
snap.close()
kn = known_functions()
out = {}
for name in sorted(prog.functions):
    if name not in kn:
        continue
    seen = set()
    for f in prog.functions[name]:
        fp = fingerprint(f.raw)
        if fp in seen:
            continue
        seen.add(fp)
        out.setdefault(name, []).append({"file": fp[0], "static": fp[1], "ret": fp[2], "params": list(fp[3]), "line": f.line})
with open(SIG_FILE, "w") as fh:
    json.dump(out, fh, indent=0, sort_keys=True)
print(SIG_FILE, len(out))
