#!/usr/bin/env python3
"""tools/mkwit.py PID RULE NAME KEYSUBSTR FILE OLD NEW [NOTE]  — write witnesses/RULE/NAME.diff replacing the unique
occurrence of OLD by NEW in /repo/src/FILE (OLD may use \\n, \\t escapes)."""
import difflib, os, sys
HERE = os.path.dirname(os.path.dirname(os.path.abspath(__file__)))
pid, rule, name, key, file, old, new = sys.argv[1:8]
note = sys.argv[8] if len(sys.argv) > 8 else ""
if not os.environ.get("MKWIT_RE"):
    old = old.encode().decode("unicode_escape"); new = new.encode().decode("unicode_escape")
src = open("/repo/src/" + file).read()
if not os.environ.get("MKWIT_RE") and src.count(old) != 1 and not (os.environ.get("MKWIT_ALL") and src.count(old) > 1):
    sys.exit("OLD occurs %d times in %s" % (src.count(old), file))
if os.environ.get("MKWIT_RE"):
    import re
    mod, nsub = re.subn(old, new, src)
    if not nsub:
        sys.exit("regex matches nothing in %s" % file)
else:
    mod = src.replace(old, new)
def _lines(t):
    out = t.split("\n")
    return [l + "\n" for l in out[:-1]] + ([out[-1]] if out[-1] else [])
d = "".join(difflib.unified_diff(_lines(src), _lines(mod), "a/src/" + file, "b/src/" + file))
os.makedirs(os.path.join(HERE, "witnesses", rule), exist_ok=True)
p = os.path.join(HERE, "witnesses", rule, name + ".diff")
open(p, "w").write("# expect: %s %s %s\n# note: %s\n%s" % (pid, rule, key, note, d))
print(p)
