#!/usr/bin/env python3
"""tools/neutralmatrix.py [-j N] DIFF...  — apply each behaviour-preserving diff to a scratch copy of /repo's sources and run
EVERY property's quick check on it (`./check ALL`).  Any VIOLATION or ANALYSIS-BROKEN that the unchanged tree does not show is a
false alarm of the machinery.  Known-finding lines are expected (they are genuine defects of the tree) as long as they stay known."""
import argparse
import concurrent.futures
import os
import re
import shutil
import subprocess
import sys

sys.path.insert(0, os.path.dirname(os.path.abspath(__file__)))
from witness import scratch_copy, HERE  # noqa


def run(path):
    sc = scratch_copy()
    try:
        r = subprocess.run(["patch", "-p1", "-s", "--no-backup-if-mismatch", "-i", os.path.abspath(path)], cwd=sc,
                           stdout=subprocess.PIPE, stderr=subprocess.STDOUT, text=True)
        if r.returncode != 0:
            return path, "does-not-apply", [r.stdout.strip()[-160:]]
        env = dict(os.environ, ECHSE_REPO=sc, ECHSE_NO_EVIDENCE="1")
        r = subprocess.run([os.path.join(HERE, "check"), "ALL"], cwd=HERE, env=env, stdout=subprocess.PIPE, stderr=subprocess.STDOUT, text=True)
        bad = []
        lines = r.stdout.splitlines()
        for i, line in enumerate(lines):
            if line.startswith("VIOLATION") or line.startswith("ANALYSIS-BROKEN"):
                ctx = lines[i - 1][:260] if i and " instance " in lines[i - 1] else ""
                bad.append((line[:200] + (" <- " + ctx if ctx else "")))
        return path, ("alarm" if bad else "silent"), bad
    finally:
        shutil.rmtree(sc, ignore_errors=True)


def main():
    ap = argparse.ArgumentParser()
    ap.add_argument("-j", type=int, default=8)
    ap.add_argument("files", nargs="+")
    a = ap.parse_args()
    with concurrent.futures.ThreadPoolExecutor(a.j) as ex:
        res = list(ex.map(run, a.files))
    nbad = 0
    for path, st, bad in res:
        print("%-8s %s" % (st, path))
        for b in bad:
            print("      " + b)
        if st != "silent":
            nbad += 1
    print("neutral edits: %d, silent %d, alarms/other %d" % (len(res), len(res) - nbad, nbad))
    return 1 if nbad else 0


if __name__ == "__main__":
    sys.exit(main())
