// echse-facts: resolved-program fact extractor (E1 of /verif/DESIGN.md).
//
// For one translation unit it emits a JSON document with records, enums,
// constant tables, macros and, for every function definition, its
// clang::CFG with a compact expression tree per CFG element.  It contains
// no rules.  Exit status 2 if the unit has a clang error.
//
// Build:  clang++ $(llvm-config-14 --cxxflags) -fno-rtti echse-facts.cc -o echse-facts \
//           /usr/lib/llvm-14/lib/libclang-cpp.so.14 /usr/lib/llvm-14/lib/libLLVM-14.so
// Run:    echse-facts --root=/path/to/snapshot -o out.json file.c -- <cflags>

#include "clang/AST/ASTConsumer.h"
#include "clang/AST/ASTContext.h"
#include "clang/AST/Decl.h"
#include "clang/AST/Expr.h"
#include "clang/AST/RecursiveASTVisitor.h"
#include "clang/AST/Stmt.h"
#include "clang/AST/ParentMap.h"
#include "clang/Analysis/CFG.h"
#include "clang/Basic/SourceManager.h"
#include "clang/Frontend/CompilerInstance.h"
#include "clang/Frontend/FrontendAction.h"
#include "clang/Lex/Lexer.h"
#include "clang/Lex/PPCallbacks.h"
#include "clang/Lex/Preprocessor.h"
#include "clang/Tooling/CommonOptionsParser.h"
#include "clang/Tooling/Tooling.h"
#include "llvm/Support/CommandLine.h"
#include "llvm/Support/JSON.h"
#include "llvm/Support/raw_ostream.h"

#include <map>
#include <set>
#include <string>
#include <vector>

using namespace clang;
using namespace clang::tooling;
namespace json = llvm::json;

static llvm::cl::OptionCategory Cat("echse-facts options");
static llvm::cl::opt<std::string> OutFile("o", llvm::cl::desc("output JSON"),
                                          llvm::cl::cat(Cat), llvm::cl::init("-"));
static llvm::cl::opt<std::string> Root("root", llvm::cl::desc("only emit decls located under this directory"),
                                       llvm::cl::cat(Cat), llvm::cl::init(""));

namespace {

struct MacroRec {
  std::string name, text, file;
  unsigned line;
  bool fnlike;
};

struct Ctx {
  ASTContext *AC = nullptr;
  SourceManager *SM = nullptr;
  Preprocessor *PP = nullptr;
  std::map<const Decl *, int> ids;
  std::vector<MacroRec> macros;
  int nextid = 1;

  int id(const Decl *D) {
    if (!D) return 0;
    D = D->getCanonicalDecl();
    auto it = ids.find(D);
    if (it != ids.end()) return it->second;
    return ids[D] = nextid++;
  }
  std::string fileOf(SourceLocation L) {
    L = SM->getExpansionLoc(L);
    if (L.isInvalid()) return "";
    return SM->getFilename(L).str();
  }
  std::string relFile(SourceLocation L) {
    std::string f = fileOf(L);
    if (!Root.empty() && f.compare(0, Root.size(), Root) == 0) {
      f = f.substr(Root.size());
      while (!f.empty() && f[0] == '/') f = f.substr(1);
    }
    // normalise a/./b and a/../b lightly
    size_t p;
    while ((p = f.find("/./")) != std::string::npos) f.erase(p, 2);
    if (f.compare(0, 2, "./") == 0) f = f.substr(2);
    return f;
  }
  unsigned lineOf(SourceLocation L) {
    L = SM->getExpansionLoc(L);
    if (L.isInvalid()) return 0;
    return SM->getSpellingLineNumber(L);
  }
  unsigned colOf(SourceLocation L) {
    L = SM->getExpansionLoc(L);
    if (L.isInvalid()) return 0;
    return SM->getSpellingColumnNumber(L);
  }
  json::Array rangeOf(SourceRange R) {
    json::Array a;
    a.push_back((int64_t)lineOf(R.getBegin()));
    a.push_back((int64_t)colOf(R.getBegin()));
    a.push_back((int64_t)lineOf(R.getEnd()));
    a.push_back((int64_t)colOf(R.getEnd()));
    return a;
  }
  bool inRoot(SourceLocation L) {
    if (Root.empty()) return true;
    std::string f = fileOf(L);
    return f.compare(0, Root.size(), Root) == 0;
  }
  // names of the macros whose expansion produced the token at L (outermost last)
  json::Array macroStack(SourceLocation L) {
    json::Array a;
    int guard = 0;
    while (L.isMacroID() && guard++ < 16) {
      StringRef n = Lexer::getImmediateMacroName(L, *SM, AC->getLangOpts());
      if (!n.empty()) a.push_back(n.str());
      if (SM->isMacroArgExpansion(L))
        L = SM->getImmediateExpansionRange(L).getBegin();
      else
        L = SM->getImmediateExpansionRange(L).getBegin();
    }
    return a;
  }
};

static json::Object typeInfo(Ctx &C, QualType T) {
  json::Object o;
  if (T.isNull()) return o;
  o["t"] = T.getAsString();
  QualType CT = T.getCanonicalType();
  std::string cs = CT.getAsString();
  if (cs != T.getAsString()) o["c"] = cs;
  if (CT->isIntegralOrEnumerationType() && !CT->isIncompleteType()) {
    o["w"] = (int64_t)C.AC->getTypeSize(CT);
    o["s"] = CT->isSignedIntegerOrEnumerationType();
  } else if (CT->isPointerType()) {
    o["p"] = true;
  }
  return o;
}

static std::string typeStr(QualType T) { return T.isNull() ? "" : T.getAsString(); }

struct ExprDumper {
  Ctx &C;
  // map of statements that are CFG elements of the current function
  const std::map<const Stmt *, std::pair<int, int>> *elems = nullptr;
  const Stmt *self = nullptr; // the element being dumped (never replaced by a ref)
  const Stmt *whole = nullptr; // when set: dump the complete tree without element refs

  json::Value ref(const Stmt *S) {
    if (elems && S != self && !whole) {
      auto it = elems->find(S);
      if (it != elems->end()) {
        json::Object o;
        o["k"] = "elem";
        o["b"] = it->second.first;
        o["i"] = it->second.second;
        return std::move(o);
      }
    }
    return nullptr;
  }

  json::Value dumpDeclRef(const ValueDecl *D, QualType T, SourceLocation L) {
    json::Object o;
    o["k"] = "ref";
    o["n"] = D->getNameAsString();
    o["id"] = C.id(D);
    if (isa<ParmVarDecl>(D))
      o["dk"] = "param";
    else if (auto *V = dyn_cast<VarDecl>(D)) {
      if (V->isLocalVarDecl())
        o["dk"] = V->isStaticLocal() ? "slocal" : "local";
      else
        o["dk"] = "global";
    } else if (auto *E = dyn_cast<EnumConstantDecl>(D)) {
      o["dk"] = "enum";
      o["v"] = E->getInitVal().getExtValue();
    } else if (isa<FunctionDecl>(D))
      o["dk"] = "fn";
    else
      o["dk"] = "other";
    o["t"] = typeStr(T);
    return std::move(o);
  }

  json::Value callee(const CallExpr *CE) {
    if (const FunctionDecl *FD = CE->getDirectCallee()) return FD->getNameAsString();
    return nullptr;
  }

  json::Value dump(const Stmt *S) {
    if (!S) return nullptr;
    if (S != self) {
      json::Value r = ref(S);
      if (r.kind() != json::Value::Null) return r;
    }
    json::Object o;
    const Expr *E = dyn_cast<Expr>(S);
    // constant folding for integer constant expressions that are not plain literals
    switch (S->getStmtClass()) {
    case Stmt::ParenExprClass:
      return dump(cast<ParenExpr>(S)->getSubExpr());
    case Stmt::ConstantExprClass:
      return dump(cast<ConstantExpr>(S)->getSubExpr());
    case Stmt::IntegerLiteralClass: {
      auto *IL = cast<IntegerLiteral>(S);
      o["k"] = "int";
      llvm::APInt v = IL->getValue();
      if (IL->getType()->isSignedIntegerType())
        o["v"] = v.getSExtValue();
      else if (v.getActiveBits() <= 63)
        o["v"] = (int64_t)v.getZExtValue();
      else
        o["v"] = llvm::toString(v, 10, false);
      o["t"] = typeStr(IL->getType());
      SourceLocation L = IL->getBeginLoc();
      if (L.isMacroID()) o["m"] = C.macroStack(L);
      return std::move(o);
    }
    case Stmt::CharacterLiteralClass: {
      o["k"] = "int";
      o["v"] = (int64_t)cast<CharacterLiteral>(S)->getValue();
      o["ch"] = true;
      o["t"] = "int";
      return std::move(o);
    }
    case Stmt::FloatingLiteralClass: {
      o["k"] = "float";
      o["v"] = cast<FloatingLiteral>(S)->getValueAsApproximateDouble();
      return std::move(o);
    }
    case Stmt::StringLiteralClass: {
      auto *SL = cast<StringLiteral>(S);
      o["k"] = "str";
      if (SL->getCharByteWidth() == 1)
        o["v"] = SL->getBytes().str();
      else
        o["v"] = "<wide>";
      return std::move(o);
    }
    case Stmt::PredefinedExprClass: {
      o["k"] = "str";
      o["v"] = cast<PredefinedExpr>(S)->getFunctionName()
                   ? cast<PredefinedExpr>(S)->getFunctionName()->getBytes().str()
                   : std::string("");
      o["predef"] = true;
      return std::move(o);
    }
    case Stmt::DeclRefExprClass: {
      auto *DR = cast<DeclRefExpr>(S);
      return dumpDeclRef(DR->getDecl(), DR->getType(), DR->getBeginLoc());
    }
    case Stmt::MemberExprClass: {
      auto *ME = cast<MemberExpr>(S);
      o["k"] = "mem";
      o["b"] = dump(ME->getBase());
      o["f"] = ME->getMemberDecl()->getNameAsString();
      o["arrow"] = ME->isArrow();
      if (auto *FD = dyn_cast<FieldDecl>(ME->getMemberDecl())) {
        if (const RecordDecl *RD = FD->getParent()) {
          std::string rn = RD->getNameAsString();
          if (rn.empty())
            if (const TypedefNameDecl *TD = RD->getTypedefNameForAnonDecl()) rn = TD->getNameAsString();
          o["rec"] = rn;
        }
        if (FD->isBitField()) o["bits"] = (int64_t)FD->getBitWidthValue(*C.AC);
      }
      o["t"] = typeStr(ME->getType());
      return std::move(o);
    }
    case Stmt::UnaryOperatorClass: {
      auto *UO = cast<UnaryOperator>(S);
      o["k"] = "un";
      std::string op = UnaryOperator::getOpcodeStr(UO->getOpcode()).str();
      if (UO->isPostfix()) op = "post" + op;
      else if (UO->isIncrementDecrementOp()) op = "pre" + op;
      o["op"] = op;
      o["e"] = dump(UO->getSubExpr());
      o["t"] = typeStr(UO->getType());
      return std::move(o);
    }
    case Stmt::BinaryOperatorClass:
    case Stmt::CompoundAssignOperatorClass: {
      auto *BO = cast<BinaryOperator>(S);
      o["k"] = "bin";
      o["op"] = BO->getOpcodeStr().str();
      o["l"] = dump(BO->getLHS());
      o["r"] = dump(BO->getRHS());
      json::Object ti = typeInfo(C, BO->getType());
      o["t"] = typeStr(BO->getType());
      if (ti.get("w")) { o["w"] = *ti.get("w"); o["s"] = *ti.get("s"); }
      if (auto *CAO = dyn_cast<CompoundAssignOperator>(S)) {
        json::Object ci = typeInfo(C, CAO->getComputationResultType());
        o["ct"] = typeStr(CAO->getComputationResultType());
        if (ci.get("w")) { o["cw"] = *ci.get("w"); o["cs"] = *ci.get("s"); }
      }
      o["line"] = (int64_t)C.lineOf(BO->getOperatorLoc());
      return std::move(o);
    }
    case Stmt::ArraySubscriptExprClass: {
      auto *AS = cast<ArraySubscriptExpr>(S);
      o["k"] = "idx";
      o["b"] = dump(AS->getBase());
      o["i"] = dump(AS->getIdx());
      o["t"] = typeStr(AS->getType());
      o["line"] = (int64_t)C.lineOf(AS->getBeginLoc());
      return std::move(o);
    }
    case Stmt::CallExprClass: {
      auto *CE = cast<CallExpr>(S);
      o["k"] = "call";
      if (const FunctionDecl *FD = CE->getDirectCallee()) {
        o["fn"] = FD->getNameAsString();
        o["fid"] = C.id(FD);
      } else {
        o["fn"] = nullptr;
        o["ce"] = dump(CE->getCallee());
      }
      json::Array args;
      for (const Expr *A : CE->arguments()) args.push_back(dump(A));
      o["a"] = std::move(args);
      o["t"] = typeStr(CE->getType());
      o["line"] = (int64_t)C.lineOf(CE->getBeginLoc());
      SourceLocation L = CE->getBeginLoc();
      if (L.isMacroID()) o["m"] = C.macroStack(L);
      return std::move(o);
    }
    case Stmt::ImplicitCastExprClass:
    case Stmt::CStyleCastExprClass: {
      auto *CE = cast<CastExpr>(S);
      CastKind ck = CE->getCastKind();
      bool implicit = isa<ImplicitCastExpr>(CE);
      if (implicit && (ck == CK_LValueToRValue || ck == CK_NoOp || ck == CK_FunctionToPointerDecay ||
                       ck == CK_ArrayToPointerDecay || ck == CK_BuiltinFnToFnPtr))
        return dump(CE->getSubExpr());
      o["k"] = "cast";
      o["impl"] = implicit;
      o["ck"] = CE->getCastKindName();
      json::Object f = typeInfo(C, CE->getSubExpr()->getType());
      json::Object t = typeInfo(C, CE->getType());
      o["from"] = std::move(f);
      o["to"] = std::move(t);
      o["e"] = dump(CE->getSubExpr());
      return std::move(o);
    }
    case Stmt::ConditionalOperatorClass: {
      auto *CO = cast<ConditionalOperator>(S);
      o["k"] = "cond";
      o["c"] = dump(CO->getCond());
      o["T"] = dump(CO->getTrueExpr());
      o["F"] = dump(CO->getFalseExpr());
      o["t"] = typeStr(CO->getType());
      return std::move(o);
    }
    case Stmt::BinaryConditionalOperatorClass: {
      auto *CO = cast<BinaryConditionalOperator>(S);
      o["k"] = "cond";
      o["gnu"] = true;
      o["c"] = dump(CO->getCommon());
      o["T"] = nullptr;
      o["F"] = dump(CO->getFalseExpr());
      o["t"] = typeStr(CO->getType());
      return std::move(o);
    }
    case Stmt::OpaqueValueExprClass: {
      auto *OV = cast<OpaqueValueExpr>(S);
      if (OV->getSourceExpr()) return dump(OV->getSourceExpr());
      o["k"] = "opaque";
      return std::move(o);
    }
    case Stmt::InitListExprClass: {
      auto *IL = cast<InitListExpr>(S);
      if (IL->isSemanticForm() && IL->getSyntacticForm()) {
        // keep semantic form: it has one init per field
      }
      o["k"] = "init";
      o["t"] = typeStr(IL->getType());
      json::Array fs;
      const RecordDecl *RD = nullptr;
      if (const RecordType *RT = IL->getType()->getAsStructureType()) RD = RT->getDecl();
      else if (const RecordType *UT = IL->getType()->getAsUnionType()) RD = UT->getDecl();
      std::vector<const FieldDecl *> fields;
      if (RD && !RD->isUnion())
        for (const FieldDecl *F : RD->fields())
          if (!F->isUnnamedBitfield()) fields.push_back(F);
      unsigned i = 0;
      for (const Expr *I : IL->inits()) {
        json::Array pr;
        if (RD && RD->isUnion() && IL->getInitializedFieldInUnion())
          pr.push_back(IL->getInitializedFieldInUnion()->getNameAsString());
        else if (i < fields.size())
          pr.push_back(fields[i]->getNameAsString());
        else
          pr.push_back((int64_t)i);
        if (isa<ImplicitValueInitExpr>(I))
          pr.push_back(nullptr);
        else
          pr.push_back(dump(I));
        fs.push_back(std::move(pr));
        i++;
      }
      o["fs"] = std::move(fs);
      return std::move(o);
    }
    case Stmt::CompoundLiteralExprClass: {
      auto *CL = cast<CompoundLiteralExpr>(S);
      return dump(CL->getInitializer());
    }
    case Stmt::ImplicitValueInitExprClass: {
      o["k"] = "zero";
      return std::move(o);
    }
    case Stmt::UnaryExprOrTypeTraitExprClass: {
      auto *UE = cast<UnaryExprOrTypeTraitExpr>(S);
      Expr::EvalResult R;
      o["k"] = "sizeof";
      if (UE->EvaluateAsInt(R, *C.AC)) o["v"] = R.Val.getInt().getExtValue();
      if (UE->isArgumentType())
        o["of"] = typeStr(UE->getArgumentType());
      else {
        ExprDumper sub{C};
        o["ofe"] = sub.dump(UE->getArgumentExpr());
        o["of"] = typeStr(UE->getArgumentExpr()->getType());
      }
      return std::move(o);
    }
    case Stmt::StmtExprClass: {
      o["k"] = "stmtexpr";
      // body statements are visited in place by the CFG builder
      auto *SE = cast<StmtExpr>(S);
      const CompoundStmt *CS = SE->getSubStmt();
      if (CS && !CS->body_empty()) {
        if (const Expr *Last = dyn_cast<Expr>(CS->body_back())) o["val"] = dump(Last);
      }
      return std::move(o);
    }
    case Stmt::DeclStmtClass: {
      auto *DS = cast<DeclStmt>(S);
      o["k"] = "decl";
      json::Array ds;
      for (const Decl *D : DS->decls()) {
        json::Object d;
        if (auto *V = dyn_cast<VarDecl>(D)) {
          d["n"] = V->getNameAsString();
          d["id"] = C.id(V);
          d["t"] = typeStr(V->getType());
          d["static"] = V->isStaticLocal();
          if (V->hasInit() && !V->isStaticLocal()) d["init"] = dump(V->getInit());
          else if (V->hasInit()) { ExprDumper sub{C}; d["init"] = sub.dump(V->getInit()); }
        } else {
          d["n"] = "";
          d["other"] = D->getDeclKindName();
        }
        ds.push_back(std::move(d));
      }
      o["ds"] = std::move(ds);
      o["line"] = (int64_t)C.lineOf(DS->getBeginLoc());
      return std::move(o);
    }
    case Stmt::ReturnStmtClass: {
      auto *RS = cast<ReturnStmt>(S);
      o["k"] = "ret";
      o["e"] = dump(RS->getRetValue());
      o["line"] = (int64_t)C.lineOf(RS->getBeginLoc());
      return std::move(o);
    }
    case Stmt::VAArgExprClass: {
      o["k"] = "vaarg";
      o["e"] = dump(cast<VAArgExpr>(S)->getSubExpr());
      return std::move(o);
    }
    case Stmt::DesignatedInitExprClass: {
      return dump(cast<DesignatedInitExpr>(S)->getInit());
    }
    case Stmt::GCCAsmStmtClass: {
      o["k"] = "asm";
      return std::move(o);
    }
    case Stmt::AddrLabelExprClass: {
      o["k"] = "addrlabel";
      o["n"] = cast<AddrLabelExpr>(S)->getLabel()->getNameAsString();
      return std::move(o);
    }
    case Stmt::OffsetOfExprClass: {
      o["k"] = "sizeof";
      Expr::EvalResult R;
      if (E && E->EvaluateAsInt(R, *C.AC)) o["v"] = R.Val.getInt().getExtValue();
      o["of"] = "offsetof";
      return std::move(o);
    }
    default:
      break;
    }
    // generic fallback
    if (E) {
      Expr::EvalResult R;
      if (!E->isValueDependent() && E->EvaluateAsInt(R, *C.AC, Expr::SE_NoSideEffects)) {
        o["k"] = "int";
        o["v"] = R.Val.getInt().getExtValue();
        o["folded"] = S->getStmtClassName();
        return std::move(o);
      }
    }
    o["k"] = "opaque";
    o["cls"] = S->getStmtClassName();
    o["line"] = (int64_t)C.lineOf(S->getBeginLoc());
    json::Array ch;
    for (const Stmt *Ch : S->children())
      if (Ch) ch.push_back(dump(Ch));
    o["ch"] = std::move(ch);
    return std::move(o);
  }
};

static json::Value apvalueToJson(Ctx &C, const APValue &V, QualType T, int depth = 0) {
  if (depth > 6) return nullptr;
  switch (V.getKind()) {
  case APValue::Int:
    if (V.getInt().isSigned() || V.getInt().getActiveBits() <= 63) return V.getInt().getExtValue();
    return llvm::toString(V.getInt(), 10);
  case APValue::Float:
    return V.getFloat().convertToDouble();
  case APValue::Array: {
    json::Array a;
    QualType ET;
    if (const ArrayType *AT = C.AC->getAsArrayType(T)) ET = AT->getElementType();
    unsigned n = V.getArrayInitializedElts();
    unsigned size = V.getArraySize();
    for (unsigned i = 0; i < n; i++) a.push_back(apvalueToJson(C, V.getArrayInitializedElt(i), ET, depth + 1));
    if (V.hasArrayFiller() && size > n) {
      json::Value fill = apvalueToJson(C, V.getArrayFiller(), ET, depth + 1);
      // cap huge fillers
      unsigned lim = size - n;
      if (lim > 100000) lim = 100000;
      for (unsigned i = 0; i < lim; i++) a.push_back(fill);
    }
    return std::move(a);
  }
  case APValue::Struct: {
    json::Object o;
    const RecordDecl *RD = nullptr;
    if (const RecordType *RT = T->getAs<RecordType>()) RD = RT->getDecl();
    unsigned i = 0;
    if (RD)
      for (const FieldDecl *F : RD->fields()) {
        if (i >= V.getStructNumFields()) break;
        std::string n = F->getNameAsString();
        if (n.empty()) n = "_" + std::to_string(i);
        o[n] = apvalueToJson(C, V.getStructField(i), F->getType(), depth + 1);
        i++;
      }
    return std::move(o);
  }
  case APValue::Union: {
    json::Object o;
    if (const FieldDecl *F = V.getUnionField())
      o[F->getNameAsString()] = apvalueToJson(C, V.getUnionValue(), F->getType(), depth + 1);
    return std::move(o);
  }
  case APValue::LValue: {
    if (V.isNullPointer()) return nullptr;
    APValue::LValueBase B = V.getLValueBase();
    if (const Expr *E = B.dyn_cast<const Expr *>()) {
      if (auto *SL = dyn_cast<StringLiteral>(E->IgnoreParenCasts())) {
        json::Object o;
        o["str"] = SL->getCharByteWidth() == 1 ? SL->getBytes().str() : std::string("<wide>");
        return std::move(o);
      }
      json::Object o;
      o["lv"] = "expr";
      return std::move(o);
    }
    if (const ValueDecl *D = B.dyn_cast<const ValueDecl *>()) {
      json::Object o;
      o[isa<FunctionDecl>(D) ? "fn" : "var"] = D->getNameAsString();
      return std::move(o);
    }
    if (B.isNull()) {
      return (int64_t)V.getLValueOffset().getQuantity();
    }
    return nullptr;
  }
  default:
    return nullptr;
  }
}

class Extractor : public ASTConsumer {
  Ctx &C;
  json::Array functions, records, enums, tables, typedefs, gvars;
  std::set<const Decl *> seenRec;

public:
  explicit Extractor(Ctx &c) : C(c) {}

  void handleRecord(const RecordDecl *RD) {
    if (!RD->isCompleteDefinition()) return;
    if (!C.inRoot(RD->getLocation())) return;
    if (!seenRec.insert(RD->getCanonicalDecl()).second) return;
    json::Object o;
    std::string n = RD->getNameAsString();
    if (n.empty())
      if (const TypedefNameDecl *TD = RD->getTypedefNameForAnonDecl()) n = TD->getNameAsString();
    o["name"] = n;
    o["kind"] = RD->isUnion() ? "union" : "struct";
    o["file"] = C.relFile(RD->getLocation());
    o["line"] = (int64_t)C.lineOf(RD->getLocation());
    if (!RD->isInvalidDecl() && !RD->isDependentType())
      o["size"] = (int64_t)C.AC->getTypeSizeInChars(C.AC->getRecordType(RD)).getQuantity();
    json::Array fs;
    for (const FieldDecl *F : RD->fields()) {
      json::Object f;
      f["n"] = F->getNameAsString();
      f["t"] = typeStr(F->getType());
      f["c"] = F->getType().getCanonicalType().getAsString();
      if (F->isBitField()) f["bits"] = (int64_t)F->getBitWidthValue(*C.AC);
      if (const ConstantArrayType *AT = C.AC->getAsConstantArrayType(F->getType()))
        f["extent"] = (int64_t)AT->getSize().getZExtValue();
      else if (C.AC->getAsIncompleteArrayType(F->getType()))
        f["extent"] = "flex";
      if (!F->getType()->isIncompleteType() && !F->isBitField())
        f["size"] = (int64_t)C.AC->getTypeSizeInChars(F->getType()).getQuantity();
      f["line"] = (int64_t)C.lineOf(F->getLocation());
      if (const RecordType *RT = F->getType()->getAs<RecordType>())
        if (RT->getDecl()->getNameAsString().empty() || F->getNameAsString().empty()) {
          // anonymous nested record: describe inline
          handleRecordInline(RT->getDecl(), f);
        }
      fs.push_back(std::move(f));
    }
    o["fields"] = std::move(fs);
    records.push_back(std::move(o));
  }
  void handleRecordInline(const RecordDecl *RD, json::Object &into) {
    json::Array fs;
    for (const FieldDecl *F : RD->fields()) {
      json::Object f;
      f["n"] = F->getNameAsString();
      f["t"] = typeStr(F->getType());
      if (F->isBitField()) f["bits"] = (int64_t)F->getBitWidthValue(*C.AC);
      if (const ConstantArrayType *AT = C.AC->getAsConstantArrayType(F->getType()))
        f["extent"] = (int64_t)AT->getSize().getZExtValue();
      if (const RecordType *RT = F->getType()->getAs<RecordType>())
        if (RT->getDecl()->getNameAsString().empty()) handleRecordInline(RT->getDecl(), f);
      fs.push_back(std::move(f));
    }
    into["kind"] = RD->isUnion() ? "union" : "struct";
    into["fields"] = std::move(fs);
  }

  void handleEnum(const EnumDecl *ED) {
    if (!ED->isCompleteDefinition()) return;
    if (!C.inRoot(ED->getLocation())) return;
    json::Object o;
    std::string n = ED->getNameAsString();
    if (n.empty())
      if (const TypedefNameDecl *TD = ED->getTypedefNameForAnonDecl()) n = TD->getNameAsString();
    o["name"] = n;
    o["file"] = C.relFile(ED->getLocation());
    o["line"] = (int64_t)C.lineOf(ED->getLocation());
    json::Array es;
    for (const EnumConstantDecl *E : ED->enumerators()) {
      json::Array pr;
      pr.push_back(E->getNameAsString());
      pr.push_back(E->getInitVal().getExtValue());
      es.push_back(std::move(pr));
    }
    o["enumerators"] = std::move(es);
    enums.push_back(std::move(o));
  }

  void handleVar(const VarDecl *VD, const std::string &scope) {
    if (!C.inRoot(VD->getLocation())) return;
    if (!VD->hasInit() && !VD->isThisDeclarationADefinition()) return;
    json::Object o;
    o["name"] = VD->getNameAsString();
    o["id"] = C.id(VD);
    o["scope"] = scope;
    o["file"] = C.relFile(VD->getLocation());
    o["line"] = (int64_t)C.lineOf(VD->getLocation());
    o["t"] = typeStr(VD->getType());
    o["const"] = VD->getType().isConstQualified() ||
                 (C.AC->getAsArrayType(VD->getType()) &&
                  C.AC->getAsArrayType(VD->getType())->getElementType().isConstQualified());
    o["static"] = VD->getStorageClass() == SC_Static;
    if (const ConstantArrayType *AT = C.AC->getAsConstantArrayType(VD->getType())) {
      o["extent"] = (int64_t)AT->getSize().getZExtValue();
      o["elemtype"] = typeStr(AT->getElementType());
      if (!AT->getElementType()->isIncompleteType())
        o["elemsize"] = (int64_t)C.AC->getTypeSizeInChars(AT->getElementType()).getQuantity();
    }
    if (VD->hasInit()) {
      const Expr *Init = VD->getInit();
      if (!Init->isValueDependent()) {
        if (const APValue *V = VD->evaluateValue()) {
          o["values"] = apvalueToJson(C, *V, VD->getType());
        } else {
          // not a constant initialiser; dump the expression
          ExprDumper D{C};
          o["init"] = D.dump(Init);
        }
      }
    }
    tables.push_back(std::move(o));
  }

  void handleFunction(const FunctionDecl *FD) {
    if (!FD->doesThisDeclarationHaveABody()) return;
    if (!C.inRoot(FD->getLocation())) return;
    json::Object fo;
    fo["name"] = FD->getNameAsString();
    fo["id"] = C.id(FD);
    fo["file"] = C.relFile(FD->getLocation());
    fo["line"] = (int64_t)C.lineOf(FD->getBeginLoc());
    fo["nameline"] = (int64_t)C.lineOf(FD->getLocation());
    fo["endline"] = (int64_t)C.lineOf(FD->getEndLoc());
    fo["static"] = FD->getStorageClass() == SC_Static;
    fo["inline"] = FD->isInlineSpecified();
    fo["ret"] = typeInfo(C, FD->getReturnType());
    json::Array ps;
    for (const ParmVarDecl *P : FD->parameters()) {
      json::Object p = typeInfo(C, P->getType());
      p["n"] = P->getNameAsString();
      p["id"] = C.id(P);
      ps.push_back(std::move(p));
    }
    fo["params"] = std::move(ps);

    // locals
    struct LocalCollector : RecursiveASTVisitor<LocalCollector> {
      std::vector<const VarDecl *> vars;
      bool VisitVarDecl(VarDecl *V) {
        if (!isa<ParmVarDecl>(V)) vars.push_back(V);
        return true;
      }
    } LC;
    LC.TraverseStmt(FD->getBody());
    json::Array ls;
    for (const VarDecl *V : LC.vars) {
      json::Object l = typeInfo(C, V->getType());
      l["n"] = V->getNameAsString();
      l["id"] = C.id(V);
      l["static"] = V->isStaticLocal();
      l["line"] = (int64_t)C.lineOf(V->getLocation());
      if (const ConstantArrayType *AT = C.AC->getAsConstantArrayType(V->getType())) {
        l["extent"] = (int64_t)AT->getSize().getZExtValue();
        if (!AT->getElementType()->isIncompleteType())
          l["elemsize"] = (int64_t)C.AC->getTypeSizeInChars(AT->getElementType()).getQuantity();
      }
      ls.push_back(std::move(l));
      if (V->isStaticLocal()) handleVar(V, "function:" + FD->getNameAsString());
    }
    fo["locals"] = std::move(ls);

    // source ranges of the loop statements (init / increment / body), so that rules can tell a for-loop's step from its body
    struct LoopCollector : RecursiveASTVisitor<LoopCollector> {
      Ctx *C;
      json::Array out;
      bool VisitForStmt(ForStmt *F) {
        json::Object o;
        o["kind"] = "for";
        o["line"] = (int64_t)C->lineOf(F->getBeginLoc());
        if (F->getInit()) o["init"] = C->rangeOf(F->getInit()->getSourceRange());
        if (F->getCond()) o["cond"] = C->rangeOf(F->getCond()->getSourceRange());
        if (F->getInc()) o["inc"] = C->rangeOf(F->getInc()->getSourceRange());
        if (F->getBody()) o["body"] = C->rangeOf(F->getBody()->getSourceRange());
        out.push_back(std::move(o));
        return true;
      }
      bool VisitWhileStmt(WhileStmt *W) {
        json::Object o;
        o["kind"] = "while";
        o["line"] = (int64_t)C->lineOf(W->getBeginLoc());
        if (W->getCond()) o["cond"] = C->rangeOf(W->getCond()->getSourceRange());
        if (W->getBody()) o["body"] = C->rangeOf(W->getBody()->getSourceRange());
        out.push_back(std::move(o));
        return true;
      }
      bool VisitDoStmt(DoStmt *D) {
        json::Object o;
        o["kind"] = "do";
        o["line"] = (int64_t)C->lineOf(D->getBeginLoc());
        if (D->getCond()) o["cond"] = C->rangeOf(D->getCond()->getSourceRange());
        if (D->getBody()) o["body"] = C->rangeOf(D->getBody()->getSourceRange());
        out.push_back(std::move(o));
        return true;
      }
    } LPC;
    LPC.C = &C;
    LPC.TraverseStmt(FD->getBody());
    fo["loops"] = std::move(LPC.out);

    CFG::BuildOptions BO;
    BO.PruneTriviallyFalseEdges = true;
    BO.AddEHEdges = false;
    BO.AddImplicitDtors = false;
    BO.AddInitializers = false;
    std::unique_ptr<CFG> cfg = CFG::buildCFG(FD, FD->getBody(), C.AC, BO);
    if (!cfg) {
      fo["cfg"] = nullptr;
      functions.push_back(std::move(fo));
      return;
    }
    // pass 1: element map
    std::map<const Stmt *, std::pair<int, int>> emap;
    for (const CFGBlock *B : *cfg) {
      int i = 0;
      for (const CFGElement &El : *B) {
        if (auto CS = El.getAs<CFGStmt>()) emap[CS->getStmt()] = {(int)B->getBlockID(), i};
        i++;
      }
    }
    json::Array blocks;
    for (const CFGBlock *B : *cfg) {
      json::Object bo;
      bo["id"] = (int64_t)B->getBlockID();
      json::Array succs, dead, preds;
      int si = 0;
      for (auto I = B->succ_begin(); I != B->succ_end(); ++I, ++si) {
        const CFGBlock *Sx = I->getReachableBlock();
        if (!Sx) {
          Sx = I->getPossiblyUnreachableBlock();
          if (Sx) dead.push_back(si);
        }
        if (Sx) succs.push_back((int64_t)Sx->getBlockID());
        else succs.push_back(nullptr);
      }
      for (auto I = B->pred_begin(); I != B->pred_end(); ++I) {
        const CFGBlock *P = I->getReachableBlock();
        if (!P) P = I->getPossiblyUnreachableBlock();
        if (P) preds.push_back((int64_t)P->getBlockID());
      }
      bo["succs"] = std::move(succs);
      if (!dead.empty()) bo["dead"] = std::move(dead);
      bo["preds"] = std::move(preds);
      if (B->hasNoReturnElement()) bo["noreturn"] = true;
      // label
      if (const Stmt *L = B->getLabel()) {
        json::Object lo;
        if (auto *CS = dyn_cast<CaseStmt>(L)) {
          lo["k"] = "case";
          Expr::EvalResult R;
          if (CS->getLHS()->EvaluateAsInt(R, *C.AC)) lo["lo"] = R.Val.getInt().getExtValue();
          if (CS->getRHS()) {
            if (CS->getRHS()->EvaluateAsInt(R, *C.AC)) lo["hi"] = R.Val.getInt().getExtValue();
          }
          ExprDumper D{C};
          lo["e"] = D.dump(CS->getLHS());
          lo["line"] = (int64_t)C.lineOf(CS->getBeginLoc());
        } else if (isa<DefaultStmt>(L)) {
          lo["k"] = "default";
          lo["line"] = (int64_t)C.lineOf(L->getBeginLoc());
        } else if (auto *LS = dyn_cast<LabelStmt>(L)) {
          lo["k"] = "label";
          lo["n"] = LS->getName();
          lo["line"] = (int64_t)C.lineOf(L->getBeginLoc());
        } else {
          lo["k"] = L->getStmtClassName();
        }
        bo["label"] = std::move(lo);
      }
      // terminator
      if (const Stmt *T = B->getTerminatorStmt()) {
        json::Object to;
        std::string kind = T->getStmtClassName();
        if (isa<IfStmt>(T)) kind = "if";
        else if (isa<ForStmt>(T)) kind = "for";
        else if (isa<WhileStmt>(T)) kind = "while";
        else if (isa<DoStmt>(T)) kind = "do";
        else if (isa<SwitchStmt>(T)) kind = "switch";
        else if (isa<GotoStmt>(T)) kind = "goto";
        else if (isa<BreakStmt>(T)) kind = "break";
        else if (isa<ContinueStmt>(T)) kind = "continue";
        else if (isa<ConditionalOperator>(T)) kind = "?:";
        else if (isa<BinaryConditionalOperator>(T)) kind = "?:gnu";
        else if (auto *BOx = dyn_cast<BinaryOperator>(T)) kind = BOx->getOpcodeStr().str();
        to["kind"] = kind;
        to["line"] = (int64_t)C.lineOf(T->getBeginLoc());
        SourceLocation TL = T->getBeginLoc();
        if (TL.isMacroID()) to["m"] = C.macroStack(TL);
        if (auto *G = dyn_cast<GotoStmt>(T)) to["label"] = G->getLabel()->getNameAsString();
        if (auto *SW = dyn_cast<SwitchStmt>(T)) {
          ExprDumper D{C, &emap};
          to["on"] = D.dump(SW->getCond());
        }
        bo["term"] = std::move(to);
      }
      if (const Stmt *LT = B->getLoopTarget()) {
        json::Object lo;
        lo["line"] = (int64_t)C.lineOf(LT->getBeginLoc());
        lo["kind"] = isa<ForStmt>(LT) ? "for" : isa<WhileStmt>(LT) ? "while" : isa<DoStmt>(LT) ? "do" : "other";
        SourceLocation TL = LT->getBeginLoc();
        if (TL.isMacroID()) lo["m"] = C.macroStack(TL);
        bo["looptarget"] = std::move(lo);
      }
      json::Array els;
      for (const CFGElement &El : *B) {
        json::Object eo;
        if (auto CS = El.getAs<CFGStmt>()) {
          const Stmt *S = CS->getStmt();
          ExprDumper D{C, &emap, S};
          eo["x"] = D.dump(S);
          eo["line"] = (int64_t)C.lineOf(S->getBeginLoc());
          eo["col"] = (int64_t)C.colOf(S->getBeginLoc());
          SourceLocation L = S->getBeginLoc();
          if (L.isMacroID()) eo["m"] = C.macroStack(L);
        } else {
          eo["x"] = nullptr;
        }
        els.push_back(std::move(eo));
      }
      bo["elems"] = std::move(els);
      blocks.push_back(std::move(bo));
    }
    json::Object co;
    co["entry"] = (int64_t)cfg->getEntry().getBlockID();
    co["exit"] = (int64_t)cfg->getExit().getBlockID();
    co["blocks"] = std::move(blocks);
    fo["cfg"] = std::move(co);
    functions.push_back(std::move(fo));
  }

  void HandleTranslationUnit(ASTContext &AC) override {
    C.AC = &AC;
    C.SM = &AC.getSourceManager();
    struct V : RecursiveASTVisitor<V> {
      Extractor &X;
      explicit V(Extractor &x) : X(x) {}
      bool VisitRecordDecl(RecordDecl *RD) { X.handleRecord(RD); return true; }
      bool VisitEnumDecl(EnumDecl *ED) { X.handleEnum(ED); return true; }
      bool VisitFunctionDecl(FunctionDecl *FD) { X.handleFunction(FD); return true; }
      bool VisitVarDecl(VarDecl *VD) {
        if (VD->isFileVarDecl() && !isa<ParmVarDecl>(VD)) X.handleVar(VD, "file");
        return true;
      }
      bool VisitTypedefNameDecl(TypedefNameDecl *TD) {
        if (!X.C.inRoot(TD->getLocation())) return true;
        json::Object o;
        o["name"] = TD->getNameAsString();
        o["t"] = typeStr(TD->getUnderlyingType());
        o["c"] = TD->getUnderlyingType().getCanonicalType().getAsString();
        o["file"] = X.C.relFile(TD->getLocation());
        X.typedefs.push_back(std::move(o));
        return true;
      }
    } v(*this);
    v.TraverseDecl(AC.getTranslationUnitDecl());
  }

  json::Object take() {
    json::Object o;
    o["functions"] = std::move(functions);
    o["records"] = std::move(records);
    o["enums"] = std::move(enums);
    o["tables"] = std::move(tables);
    o["typedefs"] = std::move(typedefs);
    return o;
  }
};

class MacroCB : public PPCallbacks {
  Ctx &C;
  Preprocessor &PP;

public:
  MacroCB(Ctx &c, Preprocessor &pp) : C(c), PP(pp) {}
  void MacroDefined(const Token &Name, const MacroDirective *MD) override {
    const MacroInfo *MI = MD->getMacroInfo();
    SourceLocation L = MI->getDefinitionLoc();
    SourceManager &SM = PP.getSourceManager();
    if (L.isInvalid() || SM.isInSystemHeader(L)) return;
    std::string f = SM.getFilename(L).str();
    if (!Root.empty() && f.compare(0, Root.size(), Root) != 0) return;
    MacroRec r;
    r.name = Name.getIdentifierInfo()->getName().str();
    r.fnlike = MI->isFunctionLike();
    r.file = f;
    r.line = SM.getSpellingLineNumber(L);
    std::string text;
    for (const Token &T : MI->tokens()) {
      if (!text.empty() && T.hasLeadingSpace()) text += " ";
      text += PP.getSpelling(T);
    }
    r.text = text;
    C.macros.push_back(r);
  }
};

class Action : public ASTFrontendAction {
public:
  Ctx C;
  Extractor *X = nullptr;
  std::string unit;
  std::unique_ptr<ASTConsumer> CreateASTConsumer(CompilerInstance &CI, StringRef File) override {
    unit = File.str();
    C.PP = &CI.getPreprocessor();
    C.SM = &CI.getSourceManager();
    CI.getPreprocessor().addPPCallbacks(std::make_unique<MacroCB>(C, CI.getPreprocessor()));
    auto x = std::make_unique<Extractor>(C);
    X = x.get();
    return x;
  }
  void EndSourceFileAction() override {
    CompilerInstance &CI = getCompilerInstance();
    unsigned errs = CI.getDiagnostics().getClient()->getNumErrors();
    json::Object doc = X->take();
    doc["unit"] = unit;
    doc["errors"] = (int64_t)errs;
    doc["warnings"] = (int64_t)CI.getDiagnostics().getClient()->getNumWarnings();
    json::Array ms;
    for (auto &m : C.macros) {
      json::Object o;
      o["name"] = m.name;
      o["text"] = m.text;
      o["fnlike"] = m.fnlike;
      std::string f = m.file;
      if (!Root.empty() && f.compare(0, Root.size(), Root) == 0) {
        f = f.substr(Root.size());
        while (!f.empty() && f[0] == '/') f = f.substr(1);
      }
      o["file"] = f;
      o["line"] = (int64_t)m.line;
      ms.push_back(std::move(o));
    }
    doc["macros"] = std::move(ms);
    std::error_code EC;
    if (OutFile == "-") {
      llvm::outs() << json::Value(std::move(doc)) << "\n";
    } else {
      llvm::raw_fd_ostream OS(OutFile, EC);
      if (EC) {
        llvm::errs() << "cannot write " << OutFile << "\n";
        return;
      }
      OS << json::Value(std::move(doc)) << "\n";
    }
  }
};

} // namespace

int main(int argc, const char **argv) {
  auto Exp = CommonOptionsParser::create(argc, argv, Cat);
  if (!Exp) {
    llvm::errs() << llvm::toString(Exp.takeError()) << "\n";
    return 2;
  }
  CommonOptionsParser &OP = Exp.get();
  ClangTool Tool(OP.getCompilations(), OP.getSourcePathList());
  int rc = Tool.run(newFrontendActionFactory<Action>().get());
  return rc ? 2 : 0;
}
