#!/usr/bin/env python3
"""tools/seedmatrix.py [-j N] [--write]  — run every seeded change under /verif/seeded against its property's quick check.

Each patch is applied to a scratch copy of /repo's sources (never to /repo), `./check <property>` is run with ECHSE_REPO
pointing at the copy, and the rule instances that fire are collected.  With --write the result is recorded in the seed's
meta.json (`caught_by` / `missed`) and in seeded/MATRIX.md.  Seeds listed in EXPECT_MISSED are the value-level changes
no rule in this family decides; a seed that is expected to be caught and is not makes the tool exit 1."""
import argparse
import concurrent.futures
import glob
import json
import os
import re
import shutil
import subprocess
import sys

sys.path.insert(0, os.path.dirname(os.path.abspath(__file__)))
from witness import scratch_copy, HERE  # noqa

# seeds that stopped being a breaking change when a fix: commit removed the construct they broke (their own demonstration passes
# with the change applied): kept for the record, run as behaviour-preserving edits — they must leave the check silent
SUPERSEDED = {
    "C03-b": "the sibling rule streams were initialised member-wise and missed the proto offset `pof`; fix eb7167e removed that member "
             "(rule streams are expanded on the wall clock), the member-wise copy is complete now and the seed's demonstration passes",
}

EXPECT_MISSED = {
    "C09-a": "congruence bias of the INTERVAL alignment — a numerical result",
    "C09-b": "SHIFT clamp boundary — value-level",
    # second generation
    "C09-c": "congruence pre-check of INTERVAL against BYMONTH relaxed — number theory of which months a step reaches",
    # third generation
    "C01-h": "skip-ahead in the MINUTELY filler: `M = 59 - (59 - M) % inter` keeps the INTERVAL phase only when INTERVAL divides 60 — an arithmetic identity",
    "C09-g": "congruence pre-check taken modulo gcd(INTERVAL, 6) instead of 12 — number theory of which months a step reaches (same area as C09-c)",
    "C17-g": "bias constant 384 -> 34 in the business-day arithmetic (both are -1 mod 5 and 7; the bias also keeps the sum non-negative) — value arithmetic",
    # seventh generation: missed as delivered and not strengthened in the time that was left (2 of 24)
    "C05-p": "separator of the 32nd RDATE of a line (',' for a line end) — the writer's loop arithmetic over a list longer than one line; value-level",
    "C18-p": "dt_strp() bounds the second hour digit after a 2 by 3 instead of 4: the instant reader is not walked over its digit ranges (R18.8/R18.9 walk the duration forms)",
    "C01-k": "MLY_TRIES bail-out after a leap year of fruitless minutes in the minutely filler — whether a rule's next match lies beyond the bound is a numerical question (the yearly and monthly fillers have such bounds in the unchanged tree)",
}


KNOWN = {(k["rule"], k["key"]) for k in (json.loads(l) for l in open(os.path.join(HERE, "known_findings.jsonl")) if l.strip() and not l.startswith("#")) if k.get("status") == "known"}


def run_seed(d):
    sid = os.path.basename(d)
    meta = json.load(open(os.path.join(d, "meta.json")))
    pid = meta["property"]
    sc = scratch_copy()
    try:
        r = subprocess.run(["patch", "-p1", "-s", "--no-backup-if-mismatch", "-i", os.path.join(d, "patch.diff")], cwd=sc,
                           stdout=subprocess.PIPE, stderr=subprocess.STDOUT, text=True)
        if r.returncode != 0:
            return sid, pid, "does-not-apply", [], r.stdout.strip()[-200:]
        env = dict(os.environ, ECHSE_REPO=sc, ECHSE_NO_EVIDENCE="1")
        r = subprocess.run([os.path.join(HERE, "check"), pid, "--tier", "quick"], cwd=HERE, env=env,
                           stdout=subprocess.PIPE, stderr=subprocess.STDOUT, text=True)
        hits = []
        for line in r.stdout.splitlines():
            m = re.match(r"(\S+): (R\d+\.\d+\w?) instance (.*?): (.*)$", line)
            if m and (m.group(2), m.group(3)) not in KNOWN:
                hits.append({"rule": m.group(2), "instance": m.group(3), "where": m.group(1), "message": m.group(4)[:240]})
        st = {0: "missed", 1: "caught", 2: "analysis-broken"}.get(r.returncode, "rc=%d" % r.returncode)
        if st == "caught" and not hits:
            st = "rc1-without-instance"
        return sid, pid, st, hits, ""
    finally:
        shutil.rmtree(sc, ignore_errors=True)


def main():
    ap = argparse.ArgumentParser()
    ap.add_argument("-j", type=int, default=8)
    ap.add_argument("--write", action="store_true")
    ap.add_argument("ids", nargs="*")
    a = ap.parse_args()
    dirs = sorted(d for d in glob.glob(os.path.join(HERE, "seeded", "*")) if os.path.isdir(d) and (not a.ids or os.path.basename(d) in a.ids))
    with concurrent.futures.ThreadPoolExecutor(a.j) as ex:
        res = list(ex.map(run_seed, dirs))
    bad = 0
    rows = []
    for sid, pid, st, hits, err in res:
        rules = sorted({h["rule"] for h in hits})
        exp = "missed" if (sid in EXPECT_MISSED or sid in SUPERSEDED) else "caught"
        if sid in SUPERSEDED and st == "missed":
            st = "superseded"
            exp = "superseded"
        flag = "" if st == exp else "   <-- UNEXPECTED (expected %s)" % exp
        if flag:
            bad += 1
        print("%-6s %-4s %-16s %s%s" % (sid, pid, st, ", ".join(rules) or ((SUPERSEDED.get(sid) or EXPECT_MISSED.get(sid, err))[:100]), flag))
        rows.append((sid, pid, st, rules, hits))
        if a.write:
            mp = os.path.join(HERE, "seeded", sid, "meta.json")
            meta = json.load(open(mp))
            meta.pop("caught_by", None)
            meta.pop("missed", None)
            if st == "caught":
                meta["caught_by"] = [{"rule": h["rule"], "instance": h["instance"], "where": h["where"]} for h in hits[:4]]
            else:
                meta["missed"] = SUPERSEDED.get(sid) or EXPECT_MISSED.get(sid, "not caught (%s)" % st)
            json.dump(meta, open(mp, "w"), indent=1)
    if a.write and not a.ids:
        with open(os.path.join(HERE, "seeded", "MATRIX.md"), "w") as f:
            f.write("# Seeded changes vs. checks\n\nGenerated by `tools/seedmatrix.py --write` (each patch applied to a scratch copy of /repo's sources, "
                    "`./check <property>` run on it).\n\n| seed | property | result | rule(s) | what the change breaks |\n|---|---|---|---|---|\n")
            for sid, pid, st, rules, hits in rows:
                meta = json.load(open(os.path.join(HERE, "seeded", sid, "meta.json")))
                f.write("| %s | %s | %s | %s | %s |\n" % (sid, pid, st, ", ".join(rules) or "—", meta["breaks"].replace("|", "/")))
            f.write("\n%d seeds: %d caught, %d missed (all value-level, see meta.json `missed`).\n" % (
                len(rows), sum(1 for r in rows if r[2] == "caught"), sum(1 for r in rows if r[2] != "caught")))
    print("seeds: %d, caught %d, missed %d, superseded %d, unexpected %d" % (len(rows), sum(1 for r in rows if r[2] == "caught"),
                                                                            sum(1 for r in rows if r[2] == "missed"),
                                                                            sum(1 for r in rows if r[2] == "superseded"), bad))
    return 1 if bad else 0


if __name__ == "__main__":
    sys.exit(main())
