#!/usr/bin/env python3
"""tools/mkknown.py — (re)generate sa/known_functions.txt: the names of all functions of the tree the rules were confirmed against.
Functions NOT in this list are spliced into their callers before analysis (sa/inline.py).  Run only after reading the new functions."""
import os, sys
sys.path.insert(0, os.path.dirname(os.path.dirname(os.path.abspath(__file__))))
os.environ["ECHSE_NO_INLINE"] = "1"
from sa.snapshot import Snapshot
from sa.facts import Program
snap = Snapshot(keep=False).take()
units = snap.extract()
prog = Program.load([u["out"] for u in units])
snap.close()
names = sorted(prog.functions)
p = os.path.join(os.path.dirname(os.path.dirname(os.path.abspath(__file__))), "sa", "known_functions.txt")
with open(p, "w") as f:
    f.write("# functions of hroptatyr/echse (pinned tree + fix: commits) known to the rule set; see sa/inline.py\n")
    for n in names:
        f.write(n + "\n")
print(p, len(names))
