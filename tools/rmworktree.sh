#!/bin/sh
# tools/rmworktree.sh DIR — remove a scratch worktree with its build output
git -C /repo worktree remove --force "$1" 2>/dev/null || rm -rf "$1"
git -C /repo worktree prune
