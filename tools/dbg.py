"""Debug helper: python3 -i tools/dbg.py  -> `prog` loaded from a fresh snapshot."""
import os, sys, glob
sys.path.insert(0, os.path.dirname(os.path.dirname(os.path.abspath(__file__))))
from sa.snapshot import Snapshot
from sa.facts import *
from sa.q import *
from sa.flow import *
snap = Snapshot(keep=False).take()
units = snap.extract()
prog = Program.load([u["out"] for u in units])
snap.close()
def dump(fn):
    f = prog.fn(fn) if isinstance(fn, str) else fn
    for b in sorted(f.cfg.blocks, reverse=True):
        blk = f.cfg.blocks[b]
        print("B%d succs=%s dead=%s label=%s term=%s" % (b, blk.succs, sorted(blk.dead), blk.label and (blk.label.get('k'), blk.label.get('lo'), blk.label.get('n')), blk.term and blk.term['kind']))
        for i, e in enumerate(blk.elems):
            print("   %d: [%s] %s" % (i, e.get('line'), show(e['x'])))
