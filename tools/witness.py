#!/usr/bin/env python3
"""Apply each witness diff (one broken rule instance) to a scratch copy of
/repo/src and require the named rule to fire on it.

  tools/witness.py [--property Cxx] [--rule Rxx.y] [-v]

A witness file is a unified diff against /repo (paths src/...) whose first lines are
  # expect: <property> <rule> <substring of the instance key>
  # note: free text
Witnesses that no longer apply to the current tree are listed as skipped."""
import argparse
import glob
import os
import re
import shutil
import subprocess
import sys
import tempfile

HERE = os.path.dirname(os.path.dirname(os.path.abspath(__file__)))
REPO = os.environ.get("ECHSE_REPO", "/repo")


def scratch_copy():
    d = tempfile.mkdtemp(prefix="echse-wit-")
    os.makedirs(os.path.join(d, "src"))
    for fn in os.listdir(os.path.join(REPO, "src")):
        if fn.endswith((".c", ".h", ".erf", ".yuck", ".yucc", ".am", ".in")):
            shutil.copy2(os.path.join(REPO, "src", fn), os.path.join(d, "src", fn))
    os.makedirs(os.path.join(d, "build-aux"))
    y = os.path.join(REPO, "build-aux", "yuck")
    if os.path.exists(y):
        shutil.copy2(y, os.path.join(d, "build-aux", "yuck"))
    for fn in ("README.md", "version.mk"):
        if os.path.exists(os.path.join(REPO, fn)):
            shutil.copy2(os.path.join(REPO, fn), os.path.join(d, fn))
    return d


def run_witness(path, verbose=False, pid=None):
    """pid: for a behaviour-preserving witness that lists several properties, the one to check (default: all listed, worst result)."""
    exp = None
    silent = None
    for line in open(path):
        m = re.match(r"#\s*expect:\s*(\S+)\s+(\S+)\s+(.*)$", line)
        if m:
            exp = (m.group(1), m.group(2), m.group(3).strip())
            break
        m = re.match(r"#\s*expect-silent:\s*(.+)$", line)
        if m:
            pids = m.group(1).split()
            if pid is None and len(pids) > 1:
                worst = ("silent", "(behaviour-preserving edit: no alarm on %s)" % " ".join(pids))
                for p_ in pids:
                    st, why = run_witness(path, verbose, p_)
                    if st != "silent":
                        worst = (st, "%s: %s" % (p_, why))
                return worst
            silent = pid if pid in pids else pids[0]
            exp = (silent, "-", "-")
            break
    if not exp:
        return "bad", "no expect line"
    d = scratch_copy()
    try:
        r = subprocess.run(["patch", "-p1", "-s", "--no-backup-if-mismatch", "-i", os.path.abspath(path)], cwd=d,
                           stdout=subprocess.PIPE, stderr=subprocess.STDOUT, text=True)
        if r.returncode != 0:
            return "skipped", "does not apply: " + r.stdout.strip().splitlines()[-1] if r.stdout.strip() else "does not apply"
        env = dict(os.environ, ECHSE_REPO=d, ECHSE_NO_EVIDENCE="1")
        r = subprocess.run([os.path.join(HERE, "check"), exp[0], "--tier", "quick"], cwd=HERE, env=env,
                           stdout=subprocess.PIPE, stderr=subprocess.STDOUT, text=True)
        out = r.stdout
        fired = False
        for line in out.splitlines():
            if (" %s instance " % exp[1]) in line and exp[2] in line:
                fired = True
        viol = "VIOLATION property=%s" % exp[0] in out
        if verbose:
            print(out)
        if silent:
            if r.returncode == 0 and not viol:
                return "silent", "(behaviour-preserving edit: no alarm)"
            return "missed", "behaviour-preserving edit raised an alarm: rc=%d" % r.returncode
        if fired and viol and r.returncode == 1:
            return "fired", ""
        return "missed", "rc=%d fired=%s violation=%s" % (r.returncode, fired, viol)
    finally:
        shutil.rmtree(d, ignore_errors=True)


def main():
    ap = argparse.ArgumentParser()
    ap.add_argument("--property")
    ap.add_argument("--rule")
    ap.add_argument("-v", action="store_true")
    ap.add_argument("files", nargs="*")
    a = ap.parse_args()
    files = a.files or sorted(glob.glob(os.path.join(HERE, "witnesses", "*", "*.diff")))
    bad = 0
    res = []
    for f in files:
        head = open(f).read(400)
        if a.property and ("expect: %s " % a.property) not in head and not re.search(r"expect-silent:[^\n]*\b%s\b" % a.property, head):
            continue
        if a.rule and (" %s " % a.rule) not in head:
            continue
        st, why = run_witness(f, a.v, a.property if re.search(r"expect-silent:", head) else None)
        res.append((f, st, why))
        print("%-8s %s %s" % (st, os.path.relpath(f, HERE), why))
        if st in ("missed", "bad"):
            bad += 1
    print("witnesses: %d fired, %d silent-as-required, %d skipped, %d missed" % (
        sum(1 for r in res if r[1] == "fired"), sum(1 for r in res if r[1] == "silent"), sum(1 for r in res if r[1] == "skipped"), bad))
    return 1 if bad else 0


if __name__ == "__main__":
    sys.exit(main())
