#!/bin/sh
# tools/regress.sh [--thorough] — the whole regression of the machinery on the current /repo tree:
#   1. every quick check exits 0 (only KNOWN-FINDING lines);  2. every witness fires;  3. every neutral edit is silent on all properties;
#   4. every seeded change gives the recorded result (caught / expected miss);  5. (--thorough) every thorough command exits 0.
cd "$(dirname "$0")/.." || exit 2
rc=0
echo "== quick checks"
for p in C01 C02 C03 C04 C05 C06 C07 C08 C09 C10 C11 C12 C13 C14 C15 C16 C17 C18 C19 C20; do ./check $p > /tmp/rg-$p.txt 2>&1 & done; wait
for p in C01 C02 C03 C04 C05 C06 C07 C08 C09 C10 C11 C12 C13 C14 C15 C16 C17 C18 C19 C20; do
	tail -n1 /tmp/rg-$p.txt | grep -q "violations=0 broken=0" || { echo "FAIL $p: $(tail -n1 /tmp/rg-$p.txt)"; rc=1; }
done; rm -f /tmp/rg-C*.txt
echo "== witnesses (must fire)"
# witness.py runs its files one after the other: hand it batches of six, fourteen at a time (3 min instead of 45)
ls witnesses/R*/*.diff | xargs -P 14 -n 6 python3 tools/witness.py 2>&1 | grep -v "^fired" | tee /tmp/rg-w.txt
grep "^witnesses:" /tmp/rg-w.txt | grep -qv " 0 skipped, 0 missed" && rc=1; grep -q "^witnesses:" /tmp/rg-w.txt || rc=1
echo "== neutral edits (must be silent on every property)"
python3 tools/neutralmatrix.py -j 14 witnesses/neutral/*.diff 2>&1 | grep -v "^silent" | tee /tmp/rg-n.txt; grep -q "alarms/other 0" /tmp/rg-n.txt || rc=1
echo "== seeded changes"
python3 tools/seedmatrix.py -j 14 2>&1 | tail -n1 | tee /tmp/rg-s.txt; grep -q "unexpected 0" /tmp/rg-s.txt || rc=1
if [ "$1" = "--thorough" ]; then
	echo "== thorough tier"
	for p in C01 C02 C03 C04 C05 C06 C07 C08 C09 C10 C11 C12 C13 C14 C15 C16 C17 C18 C19 C20; do ./check $p --tier thorough > /tmp/rg-$p.txt 2>&1 & done; wait
	for p in C01 C02 C03 C04 C05 C06 C07 C08 C09 C10 C11 C12 C13 C14 C15 C16 C17 C18 C19 C20; do
		tail -n1 /tmp/rg-$p.txt | grep -q "violations=0 broken=0" || { echo "FAIL thorough $p: $(tail -n1 /tmp/rg-$p.txt)"; rc=1; }
	done; rm -f /tmp/rg-C*.txt
fi
rm -f /tmp/rg-w.txt /tmp/rg-n.txt /tmp/rg-s.txt
[ $rc = 0 ] && echo "regression OK" || echo "regression FAILED"
exit $rc
