#!/bin/sh
# Build the fact extractor (offline; links libclang-cpp/libLLVM 14 by path).
set -e
cd "$(dirname "$0")"
mkdir -p build evidence
if [ ! -x build/echse-facts ] || [ tools/echse-facts.cc -nt build/echse-facts ]; then
    clang++ $(llvm-config-14 --cxxflags) -fno-rtti -O1 tools/echse-facts.cc -o build/echse-facts.tmp \
        /usr/lib/llvm-14/lib/libclang-cpp.so.14 /usr/lib/llvm-14/lib/libLLVM-14.so
    mv build/echse-facts.tmp build/echse-facts
fi
echo "setup ok: $(ls -la build/echse-facts)"
