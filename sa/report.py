"""Verdict bookkeeping: rule instances, known findings, evidence, exit codes."""
import json
import os
import re
import time

from .snapshot import VERIF, AnalysisBroken

KNOWN_FILE = os.path.join(VERIF, "known_findings.jsonl")


def load_known():
    out = []
    if os.path.exists(KNOWN_FILE):
        for line in open(KNOWN_FILE):
            line = line.strip()
            if not line or line.startswith("#"):
                continue
            out.append(json.loads(line))
    return out


def safe_key(k):
    return re.sub(r"[^A-Za-z0-9_.+-]+", "_", k)[:150]


class Report:
    def __init__(self, pid, tier, seed=0):
        self.pid = pid
        self.tier = tier
        self.seed = seed
        self.t0 = time.time()
        self.rules = {}          # rule -> dict(desc, expected_min, instances[], decides, not_decides)
        self.violations = []     # dicts
        self.known_hits = []
        self.broken = []
        self.lines = []
        self.assumptions = []
        self.extra = {}
        self.known = [k for k in load_known() if k.get("property") == pid]
        self.units = []
        self.nfunctions = 0

    # -- rule registration ------------------------------------------------
    def rule(self, rid, desc, expected_min=1):
        self.rules.setdefault(rid, {"desc": desc, "expected_min": expected_min, "instances": [], "fixtures": []})
        return rid

    def say(self, line):
        self.lines.append(line)
        print(line, flush=True)

    def ok(self, rid, key, loc, msg, nontrivial=True):
        self.rules[rid]["instances"].append({"key": key, "loc": loc, "verdict": "holds", "msg": msg, "nontrivial": nontrivial})

    def note(self, rid, key, loc, msg):
        """Accepted exception (listed with reason) or information."""
        self.rules[rid]["instances"].append({"key": key, "loc": loc, "verdict": "exception", "msg": msg, "nontrivial": False})
        self.say("  note %s %s %s: %s" % (rid, key, loc, msg))

    def fail(self, rid, key, loc, msg, detail=None):
        inst = {"key": key, "loc": loc, "verdict": "violated", "msg": msg, "nontrivial": True}
        if detail is not None:
            inst["detail"] = detail
        self.rules[rid]["instances"].append(inst)
        for k in self.known:
            if k.get("status", "known") == "known" and k["rule"] == rid and k["key"] == key:
                inst["verdict"] = "known-finding"
                self.known_hits.append((k, inst))
                self.say("%s: %s instance %s: %s" % (loc, rid, key, msg))
                self.say("KNOWN-FINDING: property=%s %s [%s %s]" % (self.pid, k["what_fails"], rid, key))
                return
        self.violations.append({"rule": rid, "key": key, "loc": loc, "msg": msg, "detail": detail})
        self.say("%s: %s instance %s: %s" % (loc, rid, key, msg))

    def call(self, fn, *args, **kw):
        """Run one rule; an engine that cannot interpret the code (AnalysisBroken) or crashes spoils this rule only: the other rules of the
        property still give their verdicts (a violation elsewhere is still a violation; the run ends as analysis-broken otherwise)."""
        from .snapshot import AnalysisBroken
        import traceback
        try:
            return fn(*args, **kw)
        except AnalysisBroken as e:
            self.broken_(str(e))
        except Exception as e:
            traceback.print_exc()
            self.broken_("engine error in %s: %r" % (getattr(fn, "__name__", "?"), e))
        return None

    def broken_(self, msg):
        self.broken.append(msg)
        self.say("ANALYSIS-BROKEN property=%s %s" % (self.pid, msg))

    def fixture(self, rid, name, fired, expected):
        self.rules[rid]["fixtures"].append({"name": name, "fired": fired, "expected": expected})
        if fired != expected:
            self.broken_("rule=%s fixture %s: fired=%s expected=%s" % (rid, name, fired, expected))

    # -- finish -----------------------------------------------------------
    def finish(self, explanation, not_decided, trusted):
        for rid, r in self.rules.items():
            n = len(r["instances"])
            if n < r["expected_min"]:
                self.broken_("rule=%s expected>=%d got=%d" % (rid, r["expected_min"], n))
        # stale known findings are reported as information, never hidden
        hit_keys = {(k["rule"], k["key"]) for k, _ in self.known_hits}
        stale = [k for k in self.known if k.get("status", "known") == "known" and (k["rule"], k["key"]) not in hit_keys]
        for k in stale:
            self.say("  info: listed known finding no longer reproduced: %s %s" % (k["rule"], k["key"]))

        noev = bool(os.environ.get("ECHSE_NO_EVIDENCE"))
        rc = 0
        replay_dir = os.path.join(VERIF, "evidence", "replay", self.pid)
        if self.violations and not noev:
            os.makedirs(replay_dir, exist_ok=True)
        for v in self.violations:
            path = os.path.join(replay_dir, safe_key(v["rule"] + "__" + v["key"]) + ".json")
            with open(os.devnull if noev else path, "w") as f:
                json.dump({"property": self.pid, "rule": v["rule"], "key": v["key"], "loc": v["loc"], "msg": v["msg"],
                           "detail": v["detail"],
                           "how_to_replay": "./check %s --tier %s  (re-analyses /repo; the same rule instance is reported while the construct is present)" % (self.pid, self.tier)},
                          f, indent=1, default=str)
            self.say("VIOLATION property=%s replay=%s" % (self.pid, path))
            rc = 1
        if self.broken and rc == 0:
            rc = 2

        obligations = sum(len(r["instances"]) for r in self.rules.values())
        discharged = sum(1 for r in self.rules.values() for i in r["instances"] if i["verdict"] in ("holds", "exception"))
        distinct = len({(rid, i["key"]) for rid, r in self.rules.items() for i in r["instances"] if i.get("nontrivial")})
        samples = []
        for rid, r in self.rules.items():
            for i in r["instances"][:3]:
                samples.append({"rule": rid, "key": i["key"], "loc": i["loc"], "verdict": i["verdict"], "msg": i["msg"]})
            for i in r["instances"]:
                if i["verdict"] in ("violated", "known-finding") and len(samples) < 200:
                    samples.append({"rule": rid, "key": i["key"], "loc": i["loc"], "verdict": i["verdict"], "msg": i["msg"]})
        ev = {
            "property_id": self.pid,
            "tier": self.tier,
            "seed": self.seed,
            "level": "other",
            "coverage": {
                "explanation": explanation,
                "not_decided": not_decided,
                "obligations": obligations,
                "discharged": discharged,
                "evaluations": max(obligations, 1),
                "distinct_nontrivial": distinct,
                "rule": "one evaluation per rule instance (a construct of /repo's current source matched by a repository-specific static rule); "
                        "distinct = distinct (rule, structural key) pairs; non-trivial = the rule had to inspect a path/table/site (accepted exceptions are not counted)",
                "samples": samples,
                "exhaustive": True,
                "rules": {rid: {"desc": r["desc"], "expected_min": r["expected_min"], "instances": len(r["instances"]),
                                "holds": sum(1 for i in r["instances"] if i["verdict"] == "holds"),
                                "exceptions": sum(1 for i in r["instances"] if i["verdict"] == "exception"),
                                "known_findings": sum(1 for i in r["instances"] if i["verdict"] == "known-finding"),
                                "violated": sum(1 for i in r["instances"] if i["verdict"] == "violated"),
                                "fixtures": r["fixtures"],
                                "all_instances": [{"key": i["key"], "loc": i["loc"], "verdict": i["verdict"], "msg": i["msg"]} for i in r["instances"]]}
                          for rid, r in self.rules.items()},
                "units_parsed": self.units,
                "functions_with_cfg": self.nfunctions,
                "known_findings_reported": [{"rule": k["rule"], "key": k["key"], "what_fails": k["what_fails"]} for k, _ in self.known_hits],
                "stale_known_findings": [{"rule": k["rule"], "key": k["key"]} for k in stale],
                "analysis_broken": self.broken,
                "trusted_base": trusted,
                "checker_cmd": "./check %s --tier %s" % (self.pid, self.tier),
            },
            "assumptions": self.assumptions,
            "wall_s": round(time.time() - self.t0, 3),
            "violations": len(self.violations),
        }
        ev["coverage"].update(self.extra)
        if not noev:
            os.makedirs(os.path.join(VERIF, "evidence"), exist_ok=True)
            with open(os.path.join(VERIF, "evidence", self.pid + ".json"), "w") as f:
                json.dump(ev, f, indent=1, default=str)
        self.say("%s tier=%s rules=%d instances=%d discharged=%d known-findings=%d violations=%d broken=%d wall=%.1fs" % (
            self.pid, self.tier, len(self.rules), obligations, discharged, len(self.known_hits), len(self.violations),
            len(self.broken), time.time() - self.t0))
        return rc
