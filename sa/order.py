"""E5: evaluation of the repository's *pure* comparison predicates over small
integer models that realise every order type of a handful of endpoints.

A predicate function is accepted only if its body is a single `return` of an
expression built from parameters' fields, boolean operators, compound
literals and calls to other accepted predicates or to the instant-level
primitives below (whose own bodies are checked by R20.1).  Anything else is
analysis-broken: the engine never guesses."""
import itertools

from .facts import strip, strip_casts, lv, show, walk, writes, calls, int_value
from .snapshot import AnalysisBroken

# instant-level primitives: modelled on integers (None/0 = the nul instant)
PRIMS = {
    "echs_instant_lt_p": lambda a, b: a < b,
    "echs_instant_le_p": lambda a, b: a <= b,
    "echs_instant_eq_p": lambda a, b: a == b,
    "echs_instant_0_p": lambda a: a == 0,
    "echs_nul_instant_p": lambda a: a == 0,
    "echs_instant_add": lambda a, d: (a + d) if a != 0 else 0,
    "echs_oid_eq_p": lambda a, b: a == b,
    "echs_nul_instant": lambda: 0,
    "echs_max_instant_p": lambda a: a >= 10 ** 9,
    "echs_min_instant_p": lambda a: a == -1,
}


class PureEval:
    def __init__(self, prog, files=("instant.h", "range.h", "event.h", "oid.h")):
        self.prog = prog
        self.files = files
        self.bodies = {}

    def body(self, name):
        if name in self.bodies:
            return self.bodies[name]
        cands = [f for f in self.prog.functions.get(name, []) if f.file in self.files]
        if not cands:
            raise AnalysisBroken("predicate %s not found in %s" % (name, self.files))
        f = cands[0]
        wc = wrapped_compare(f) if name not in PRIMS else None
        if wc is not None:
            # the instant comparison written out in place (copies wrapped, packed words compared): in the integer model that is the
            # comparison of the two sources
            self.bodies[name] = (f, {"k": "bin", "op": wc[0], "l": wc[1], "r": wc[2]})
            return self.bodies[name]
        rets = []
        temps = {}
        for b, i, x, line in f.cfg.all_elems():
            if isinstance(x, dict) and x.get("k") == "ret":
                rets.append(f.cfg.resolve(x["e"]))
                continue
            for l, kind, n in writes(x):
                # named intermediate results (`const bool r = lt(a, b); return r;`) are fine: one initialised declaration each
                if kind == "decl" and n.get("init") is not None and n["n"] not in temps:
                    temps[n["n"]] = f.cfg.resolve(n["init"])
                    continue
                raise AnalysisBroken("predicate %s has side effects (%s): not pure" % (name, show(x)))
        if len(rets) != 1:
            raise AnalysisBroken("predicate %s has %d return statements" % (name, len(rets)))

        def subst(n, d=0):
            if isinstance(n, dict):
                if n.get("k") == "ref" and n.get("dk") == "local" and n.get("n") in temps and d < 8:
                    return subst(temps[n["n"]], d + 1)
                return {k: subst(v, d) for k, v in n.items()}
            if isinstance(n, list):
                return [subst(v, d) for v in n]
            return n
        self.bodies[name] = (f, subst(rets[0]) if temps else rets[0])
        return self.bodies[name]

    def ev(self, x, env, depth=0):
        if depth > 40:
            raise AnalysisBroken("predicate evaluation too deep")
        x = strip(x) if isinstance(x, dict) and x.get("k") in ("call",) and x.get("fn") == "__builtin_expect" else x
        x = strip_casts(x)
        k = x.get("k")
        if k == "ref":
            if x["n"] in env:
                return env[x["n"]]
            v = int_value(x)
            if v is not None:
                return v
            raise AnalysisBroken("free variable %s in predicate" % x["n"])
        v = int_value(x)
        if v is not None:
            return v
        if k == "mem":
            base = self.ev(x["b"], env, depth + 1)
            if not x["f"]:
                return base
            if isinstance(base, dict):
                if x["f"] in base:
                    return base[x["f"]]
                if x["f"] == "u":  # union view of an instant
                    return base
                raise AnalysisBroken("model has no field %s" % x["f"])
            if x["f"] == "u":
                return base
            raise AnalysisBroken("field %s of a scalar model value" % x["f"])
        if k == "un" and x["op"] == "!":
            return not self.ev(x["e"], env, depth + 1)
        if k == "bin":
            op = x["op"]
            if op == "&&":
                return bool(self.ev(x["l"], env, depth + 1)) and bool(self.ev(x["r"], env, depth + 1))
            if op == "||":
                return bool(self.ev(x["l"], env, depth + 1)) or bool(self.ev(x["r"], env, depth + 1))
            l = self.ev(x["l"], env, depth + 1)
            r = self.ev(x["r"], env, depth + 1)
            if op in ("==", "!=", "<", "<=", ">", ">="):
                return {"==": l == r, "!=": l != r, "<": l < r, "<=": l <= r, ">": l > r, ">=": l >= r}[op]
            raise AnalysisBroken("arithmetic %s inside a comparison predicate" % op)
        if k == "init":
            out = {}
            for name, val in x["fs"]:
                out[name] = 0 if val is None else self.ev(val, env, depth + 1)
            return out
        if k == "call":
            return self.call(x["fn"], [self.ev(a, env, depth + 1) for a in x["a"]], depth + 1)
        if k == "cond":
            c = self.ev(x["c"], env, depth + 1)
            if x.get("T") is None:
                return c if c else self.ev(x["F"], env, depth + 1)
            return self.ev(x["T"] if c else x["F"], env, depth + 1)
        raise AnalysisBroken("unsupported node %s in predicate" % k)

    def call(self, name, args, depth=0):
        if name in PRIMS:
            return PRIMS[name](*args)
        f, body = self.body(name)
        if len(args) != len(f.params):
            raise AnalysisBroken("arity mismatch calling %s" % name)
        env = {p["n"]: a for p, a in zip(f.params, args)}
        return self.ev(body, env, depth + 1)


def order_type(vals):
    """Canonical order type of a tuple of numbers: ranks with ties."""
    s = sorted(set(vals))
    return tuple(s.index(v) for v in vals)


def wrapped_compare(f):
    """Is f the wrapped comparison of two instants written out — copies of two instants (parameters, or locals initialised once), each
    with its hour and millisecond fields stepped up by one so that the all-day / all-second markers wrap to the front, and one return of
    `a.u OP b.u`?  Returns (OP, source of a, source of b) with OP one of < <= > >= (a leading `!` folded in), else None."""
    if not f.cfg:
        return None
    inits, incs, rets = {}, {}, []
    for b, i, x, line in f.cfg.all_elems():
        if isinstance(x, dict) and x.get("k") == "ret":
            rets.append(f.cfg.resolve(x["e"]) if x.get("e") is not None else None)
            continue
        for l, kind, n in writes(x):
            t = lv(l)
            if kind == "decl":
                if n.get("init") is None or t in inits:
                    return None
                inits[t] = f.cfg.resolve(n["init"])
            elif kind == "incdec" and "++" in n.get("op", "") and "." in t:
                incs.setdefault(t.split(".", 1)[0], []).append(t.split(".", 1)[1])
            elif kind == "compound" and n.get("op") == "+=" and int_value(strip_casts(n["r"])) == 1 and "." in t:
                incs.setdefault(t.split(".", 1)[0], []).append(t.split(".", 1)[1])
            else:
                return None
    if len(rets) != 1 or rets[0] is None:
        return None
    c = strip(rets[0])
    neg = False
    while isinstance(c, dict) and c.get("k") == "un" and c["op"] == "!":
        neg = not neg
        c = strip(c["e"])
    if not (isinstance(c, dict) and c.get("k") == "bin" and c["op"] in ("<", "<=", ">", ">=")):
        return None
    sides = []
    for sd in (c["l"], c["r"]):
        sd = strip_casts(sd)
        if not (sd.get("k") == "mem" and sd.get("f") == "u" and strip_casts(sd["b"]).get("k") == "ref"):
            return None
        v = strip_casts(sd["b"])["n"]
        if sorted(incs.get(v, [])) != ["H", "ms"]:
            return None
        sides.append(inits.get(v, strip_casts(sd["b"])))
    if set(incs) != {strip_casts(strip_casts(c["l"])["b"])["n"], strip_casts(strip_casts(c["r"])["b"])["n"]}:
        return None
    op = c["op"]
    if neg:
        op = {"<": ">=", ">": "<=", "<=": ">", ">=": "<"}[op]
    return op, sides[0], sides[1]
