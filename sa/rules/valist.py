"""va_list typestate (shared by C05 and C06 through the fdprintf() writer primitive): once a va_list has been handed to a
v*printf-style callee its value is indeterminate (C11 7.16/3); it may be handed on again only after va_end + va_start (or when it
is a fresh va_copy).  fdprintf() formats into the 4 KiB write buffer, and when the text does not fit it flushes and formats again:
the second formatting must not re-use the consumed list — on x86-64 it reads the arguments from wherever the register save area
ends, i.e. garbage pointers for %s."""
from ..facts import lv, show, calls
from ..q import backward_scan


def _va_locals(f):
    return [l["n"] for l in f.locals if "va_list" in (l.get("t") or "")]


def r_valist(prog, rep, rid, only=None, minimum=1):
    n = 0
    for f in prog.all_fns():
        if not f.cfg or (only and f.name not in only):
            continue
        for v in _va_locals(f):
            cfg = f.cfg

            def consuming(c):
                fn = c.get("fn") or ""
                if fn.startswith("__builtin_va_"):
                    return False
                return any(lv(cfg.resolve(a)) == v for a in c["a"])
            k = 0
            for b, i, x, line in cfg.all_elems():
                if not isinstance(x, dict) or x.get("k") != "call" or not consuming(x):
                    continue
                k += 1
                n += 1
                key = "%s/%s-use#%d(%s)" % (f.name, v, k, x.get("fn"))

                def visit(b_, i_, x_):
                    if not isinstance(x_, dict) or x_.get("k") != "call":
                        return None
                    fn = x_.get("fn") or ""
                    if fn in ("__builtin_va_start", "__builtin_va_copy") and x_["a"] and lv(cfg.resolve(x_["a"][0])) == v:
                        return "stop"
                    if consuming(x_):
                        return "hit"
                    return None
                hits, entry = backward_scan(cfg, (b, i), visit)
                if hits:
                    hb, hi = hits[0]
                    rep.fail(rid, key, f.loc(line),
                             "%s is handed to %s() although %s() (line %s) has already consumed it on a path to here, with no va_end/va_start in between: "
                             "the second formatting reads indeterminate arguments (garbage or a crash for %%s) — in fdprintf() that is every record that "
                             "does not fit the rest of the 4096-byte buffer" % (v, x.get("fn"), cfg.blocks[hb].elems[hi]["x"].get("fn"), cfg.blocks[hb].elems[hi].get("line")))
                elif entry:
                    rep.fail(rid, key, f.loc(line), "%s is handed to %s() on a path without va_start" % (v, x.get("fn")))
                else:
                    rep.ok(rid, key, f.loc(line), "every path to %s(…, %s) starts the list afresh" % (x.get("fn"), v))
    if n < minimum:
        rep.broken_("rule=%s expected >=%d va_list hand-overs, found %d" % (rid, minimum, n))
