"""va_list typestate (shared by C05 and C06 through the fdprintf() writer primitive): once a va_list has been handed to a
v*printf-style callee its value is indeterminate (C11 7.16/3); it may be handed on again only after va_end + va_start (or when it
is a fresh va_copy).  fdprintf() formats into the 4 KiB write buffer, and when the text does not fit it flushes and formats again:
the second formatting must not re-use the consumed list — on x86-64 it reads the arguments from wherever the register save area
ends, i.e. garbage pointers for %s."""
from ..facts import lv, show, calls, walk, int_value, strip_casts
from ..q import backward_scan


def _va_locals(f):
    return [l["n"] for l in f.locals if "va_list" in (l.get("t") or "")]


def r_valist(prog, rep, rid, only=None, minimum=1):
    n = 0
    for f in prog.all_fns():
        if not f.cfg or (only and f.name not in only):
            continue
        for v in _va_locals(f):
            cfg = f.cfg

            def consuming(c):
                fn = c.get("fn") or ""
                if fn.startswith("__builtin_va_"):
                    return False
                return any(lv(cfg.resolve(a)) == v for a in c["a"])
            k = 0
            for b, i, x, line in cfg.all_elems():
                if not isinstance(x, dict) or x.get("k") != "call" or not consuming(x):
                    continue
                k += 1
                n += 1
                key = "%s/%s-use#%d(%s)" % (f.name, v, k, x.get("fn"))

                def visit(b_, i_, x_):
                    if not isinstance(x_, dict) or x_.get("k") != "call":
                        return None
                    fn = x_.get("fn") or ""
                    if fn in ("__builtin_va_start", "__builtin_va_copy") and x_["a"] and lv(cfg.resolve(x_["a"][0])) == v:
                        return "stop"
                    if consuming(x_):
                        return "hit"
                    return None
                hits, entry = backward_scan(cfg, (b, i), visit)
                if hits:
                    hb, hi = hits[0]
                    rep.fail(rid, key, f.loc(line),
                             "%s is handed to %s() although %s() (line %s) has already consumed it on a path to here, with no va_end/va_start in between: "
                             "the second formatting reads indeterminate arguments (garbage or a crash for %%s) — in fdprintf() that is every record that "
                             "does not fit the rest of the 4096-byte buffer" % (v, x.get("fn"), cfg.blocks[hb].elems[hi]["x"].get("fn"), cfg.blocks[hb].elems[hi].get("line")))
                elif entry:
                    rep.fail(rid, key, f.loc(line), "%s is handed to %s() on a path without va_start" % (v, x.get("fn")))
                else:
                    rep.ok(rid, key, f.loc(line), "every path to %s(…, %s) starts the list afresh" % (x.get("fn"), v))
    if n < minimum:
        rep.broken_("rule=%s expected >=%d va_list hand-overs, found %d" % (rid, minimum, n))


def r_stale_room(prog, rep, rid):
    """The buffered writer keeps its fill level in `fd_aux.bi`; fdflush() writes the buffer out and resets it.  A local that was
    computed from the fill level (the room that is left, a pointer to the free part) before a flush describes the buffer as it
    was: using it after the flush formats a record into the few bytes that *were* free and advances the fill level by the full length."""
    from ..facts import walk, strip_casts, lv, writes, calls
    n = 0
    fns = [f for f in prog.fns_in("fdprnt.h") if f.cfg]
    # who resets / moves the fill level
    movers = set()
    level = None
    for f in fns:
        for b, i, x, line in f.cfg.all_elems():
            if isinstance(x, dict):
                for l, kind, nn in writes(x):
                    if lv(l).endswith(".bi") and kind == "assign":
                        movers.add(f.name)
                        level = lv(l)
    if level is None:
        rep.broken_("rule=%s the fill level of the write buffer was not found in fdprnt.h" % rid)
        return
    for f in fns:
        cfg = f.cfg
        # locals defined from the fill level
        deps = {}
        for b, i, x, line in cfg.all_elems():
            if isinstance(x, dict):
                for l, kind, nn in writes(x):
                    tl = strip_casts(l)
                    rhs = nn.get("init") if kind == "decl" else (nn.get("r") if nn.get("k") == "bin" and nn["op"] == "=" else None)
                    if tl.get("k") == "ref" and tl.get("dk") == "local" and rhs is not None and \
                            any(q.get("k") == "mem" and lv(q) == level for q in walk(cfg.resolve(rhs))):
                        deps.setdefault(tl["n"], []).append((b, i, line))
        kills = [(b, i, line) for b, i, c, line in f.all_calls() if c.get("fn") in movers and c.get("fn") != f.name]
        for v, defs in sorted(deps.items()):
            n += 1
            key = "%s/%s-not-used-across-a-flush" % (f.name, v)
            bad = None
            for kb, ki, kl in kills:
                # is the kill after a definition, and a use after the kill, with no redefinition in between?
                after_def = any((db == kb and di < ki) or (db != kb and kb in cfg.reach_from(db)) for db, di, dl in defs)
                if not after_def:
                    continue
                for b, i, x, line in cfg.all_elems():
                    if not isinstance(x, dict):
                        continue
                    if not ((b == kb and i > ki) or (b != kb and b in cfg.reach_from(kb))):
                        continue
                    uses = any(q.get("k") == "ref" and q.get("n") == v and q.get("dk") == "local" for q in walk(x))
                    redefs = any(lv(l) == v and kind != "decl" for l, kind, nn in writes(x))
                    if uses and not redefs:
                        # a redefinition between the kill and this use saves it
                        saved = any(((db == kb and di > ki) or (db != kb and db in cfg.reach_from(kb))) and
                                    ((db == b and di < i) or (db != b and b in cfg.reach_from(db))) for db, di, dl in defs)
                        if not saved:
                            bad = (line, kl)
                            break
                if bad:
                    break
            if bad:
                rep.fail(rid, key, f.loc(bad[0]), "`%s` is computed from the fill level of the write buffer, the buffer is flushed at line %s, and `%s` is used again "
                         "afterwards: the retry formats into the room that was left *before* the flush — a record that straddles the 4096-byte "
                         "buffer is cut off and stale bytes are written" % (v, bad[1], v))
            else:
                rep.ok(rid, key, f.loc(defs[0][2]), "`%s` is not used after a flush has moved the fill level" % v, nontrivial=False)
    rep.ok(rid, "fdprnt/fill-level", "src/fdprnt.h", "%d locals derived from the fill level in %d functions; it is moved by %s" % (n, len(fns), ", ".join(sorted(movers))), nontrivial=False)


def r_fits(prog, rep, rid):
    """vsnprintf() returns the length the text *would* have and writes at most `room - 1` bytes of it: the text is whole only when that
    length is smaller than the room it was given.  fdprintf() is walked with the fill level of the write buffer and the length of the
    text fixed around the boundary (the text ends exactly at the last byte of the buffer, one short of it, one over): whenever it
    reports success and advances the fill level by the text's length, the last formatting had room for all of it — otherwise the last
    byte of a record (or more) is silently cut off in the queue file.  Texts are taken up to 1 100 bytes: the reader drops content
    lines beyond 1 023 bytes, so no longer field reaches the writer (a single text of exactly the buffer's 4 096 bytes would slip
    through the last test even on the unchanged tree; nothing the parser admits is that long)."""
    from ..absw import AbsWalk, eval_in
    from ..snapshot import AnalysisBroken
    fs = [f for f in prog.functions.get("fdprintf", []) if f.cfg]
    if not fs:
        raise AnalysisBroken("%s: fdprintf not found" % rid)
    f = fs[0]
    cfg = f.cfg
    size = None
    for b, i, x, line in cfg.all_elems():
        if isinstance(x, dict):
            for c in calls(x):
                if c.get("fn") == "vsnprintf" and len(c.get("a", ())) > 1:
                    for q in walk(cfg.resolve(c["a"][1])):
                        if q.get("k") == "bin" and q["op"] == "-" and int_value(q["l"]) is not None:
                            size = int_value(q["l"])
                            fill = lv(strip_casts(q["r"]))
    if size is None:
        raise AnalysisBroken("%s: the room handed to vsnprintf() is not `sizeof(buffer) - fill`" % rid)
    bad = []
    n = 0
    for bi, tp in ((0, 10), (size - 96, 94), (size - 96, 95), (size - 96, 96), (size - 96, 97), (size - 6, 5), (size - 6, 6), (size - 1, 1),
                   (size - 1, 0), (size - 1000, 999), (size - 1000, 1000), (size - 1000, 1001), (size - 1024, 1023), (size - 1024, 1024), (size - 1023, 1100)):
        res = []

        def call_eval(c, store):
            if c.get("fn") == "vsnprintf":
                return tp
            return None

        def effect(b, i, x, store):
            if not isinstance(x, dict):
                return None
            if x.get("k") == "call" and x.get("fn") == "vsnprintf":
                room = eval_in(store, cfg.resolve(x["a"][1]), f, call_eval)
                return {"$fit": None if room is None else int(tp < room)}
            if x.get("k") == "call" and x.get("fn") == "fdflush":
                return {fill: 0}
            if x.get("k") == "ret" and x.get("e") is not None:
                res.append((eval_in(store, cfg.resolve(x["e"]), f, call_eval), store.get("$fit"), store.get(fill)))
            return None
        AbsWalk(f, {l_["n"] for l_ in f.locals} | {fill}, init={fill: bi}, effect=effect, call_eval=call_eval, max_states=5000).run()
        n += 1
        if len(set(res)) != 1:
            raise AnalysisBroken("%s: fdprintf with fill %d and a text of %d bytes has no single outcome (%s)" % (rid, bi, tp, res[:3]))
        rv, fit, after = res[0]
        if rv == 0 and fit != 1:
            bad.append("with %d bytes in the buffer a text of %d bytes is reported written although the last formatting had room for %d of them only"
                       % (bi, tp, (size - (0 if after is not None and after == tp else bi)) - 1))
    key = "fdprintf/success-means-the-text-fitted"
    if bad:
        rep.fail(rid, key, f.loc(), "; ".join(bad[:2]) + ": vsnprintf() cuts the text to fit and the record goes into the queue file without its end",
                 {"cases": bad})
    else:
        rep.ok(rid, key, f.loc(), "%d fill-level/length pairs around the end of the %d-byte buffer: success only when the text fitted" % (n, size))
