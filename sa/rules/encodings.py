"""R05.4 / R12.4: sentinel encodings of the off-by-one fields `umsk` (10 bit)
and `max_simul` (6 bit): parser interval and +1, the `--` in make_task, the
bit-field width, and every writer's emission test and format.  All extracted
conditions are evaluated over the whole field domain (no echse code runs)."""
import re

from ..facts import walk, strip, strip_casts, lv, show, writes, calls, int_value
from ..q import call_sites, str_value, const_eval
from ..absw import AbsWalk, eval_in
from ..snapshot import AnalysisBroken

FIELDS = {
    # field: (keyword, property statement about the unset default applied by the daemon)
    "max_simul": "X-ECHS-MAX-SIMUL",
    "umsk": "X-ECHS-UMASK",
}


def field_width(prog, field):
    rec = prog.record("echs_task_s")
    for f in rec["fields"]:
        if f["n"] == field:
            if "bits" not in f:
                raise AnalysisBroken("field %s is not a bit-field any more" % field)
            return f["bits"]
    raise AnalysisBroken("field %s not found in echs_task_s" % field)


def field_unsigned(prog, field):
    rec = prog.record("echs_task_s")
    for f in rec["fields"]:
        if f["n"] == field:
            t = (f.get("t") or "")
            return f.get("s") is False or t.startswith("unsigned") or t.startswith("uint") or t in ("_Bool", "bool")
    return None


def parser_sites(prog, field):
    """[(function, block, elem, assignment-node)] where the parser stores the field from text."""
    out = []
    for f in prog.fns_in("evical.c"):
        if not f.cfg or f.name not in ("snarf_fld", "snarf_pro"):
            continue
        for b, i, x, line in f.cfg.all_elems():
            for l, kind, n in writes(x):
                if lv(l).endswith("t." + field) and n.get("k") == "bin" and n["op"] == "=":
                    out.append((f, b, i, n))
    return out


def parser_map(prog, f, b, i, n, lo, hi):
    """Evaluate the parser's guards for every integer text value v in [lo, hi]:
    returns ({v: stored field value}, base)."""
    cfg = f.cfg
    # nearest dominating block with a case label
    doms = cfg.dom()[b]
    start = None
    for d in sorted(doms, key=lambda q: len(cfg.dom()[q]), reverse=True):
        if cfg.blocks[d].label and cfg.blocks[d].label["k"] == "case":
            start = d
            break
    if start is None:
        raise AnalysisBroken("parser store of %s has no dominating case label" % lv(n["l"]))
    base = None
    for bb in cfg.reach_from(start):
        for e in cfg.blocks[bb].elems:
            for c in calls(e["x"]):
                if c.get("fn") == "strtol" and bb in doms | {b}:
                    base = const_eval(f, c["a"][2])
    res = {}
    target = lv(n["l"])
    for v in range(lo, hi + 1):
        got = []

        def effect(bb, ii, x, store, _got=got):
            for l, kind, nn in writes(x):
                if lv(l) == target and nn.get("k") == "bin" and nn["op"] == "=" and (bb, ii) == (b, i):
                    _got.append(eval_in(store, cfg.resolve(nn["r"]), f))
            return None

        def call_eval(c, store, _v=v):
            if c.get("fn") == "strtol":
                return _v
            return None
        tracked = {l_["n"] for l_ in f.locals if l_.get("t") in ("long", "long int", "int", "unsigned int")}
        w = AbsWalk(f, tracked, effect=effect, call_eval=call_eval)
        # stop at the end of the case: cut when reaching blocks not dominated by start
        w.run(start_block=start)
        vals = {g for g in got}
        if len(vals) > 1:
            raise AnalysisBroken("parser store of %s not a function of the text value (%s)" % (target, vals))
        if vals:
            val = vals.pop()
            if val is None:
                raise AnalysisBroken("parser store of %s: value not evaluable for text %d" % (target, v))
            res[v] = val
    return res, base


def make_task_adjust(prog, field):
    f = prog.fn("make_task", "evical.c")
    adj = 0
    for b, i, x, line in f.cfg.all_elems():
        for l, kind, n in writes(x):
            if lv(l).endswith("t." + field):
                if kind == "incdec":
                    adj += 1 if "++" in n["op"] else -1
                else:
                    raise AnalysisBroken("make_task writes %s other than by ++/--" % field)
    return adj


def writer_sites(prog, keyword):
    out = []
    for fname, file in (("send_task", "evical.c"), ("echs_icalify_init", "evical.c"), ("vtodoify", "echsd.c")):
        if not prog.has_fn(fname, file):
            continue
        f = prog.fn(fname, file)
        for S in call_sites(f, "fdprintf"):
            fmt = str_value(prog, f, S.node["a"][0]) or ""
            if fmt.startswith(keyword + ":"):
                out.append((f, S, fmt))
    return out


def writer_map(prog, f, S, fmt, field, width):
    """{task value v: printed text or None (not emitted)} by evaluating the
    extracted emission guards for every v of the field domain."""
    cfg = f.cfg
    flv = set()
    for b, i, x, line in cfg.all_elems():
        for n in walk(x):
            if n.get("k") == "mem" and n["f"] == field:
                flv.add(lv(f.expand(n)))
    if not flv:
        raise AnalysisBroken("%s prints %s but never reads the field %s" % (f.name, fmt.split(":")[0], field))
    conv = re.search(r"%[0-9]*([douxi])", fmt.split(":", 1)[1])
    if not conv:
        raise AnalysisBroken("writer format %r has no integer conversion" % fmt)
    res = {}
    for v in range(0, 1 << width):
        got = []

        def effect(bb, ii, x, store, _got=got):
            for c in calls(x):
                if c.get("fn") == "fdprintf" and c.get("line") == S.node.get("line") and (bb, ii) == (S.b, S.i):
                    _got.append(eval_in(store, cfg.resolve(c["a"][1]), f))
            return None
        tracked = set(flv) | {l_["n"] for l_ in f.locals if l_.get("t") in ("unsigned int", "int")}
        w = AbsWalk(f, tracked, init={t: v for t in flv}, effect=effect)
        w.run()
        vals = set(got)
        if len(vals) > 1:
            raise AnalysisBroken("%s: printed %s not a function of the field (%s)" % (f.name, field, vals))
        if not vals:
            res[v] = None
        else:
            val = vals.pop()
            if val is None:
                raise AnalysisBroken("%s: printed value of %s not evaluable for field value %d" % (f.name, field, v))
            prefix = fmt.split(":", 1)[1].split("%")[0]
            c = conv.group(1)
            val &= 0xffffffff
            if c in "di" and val >= 1 << 31:
                val -= 1 << 32
            body = {"d": "%d", "i": "%d", "u": "%d", "o": "%o", "x": "%x"}[c] % val
            res[v] = prefix + body
    return res


def c_strtol(text, base):
    """Value strtol(text, &on, base) yields when the whole text is consumed, else None."""
    s = text.strip()
    try:
        if base == 0:
            if re.fullmatch(r"[+-]?0[xX][0-9a-fA-F]+", s):
                return int(s, 16)
            if re.fullmatch(r"[+-]?0[0-7]*", s):
                return int(s, 8) if s.strip("+-") != "0" else 0
            if re.fullmatch(r"[+-]?[1-9][0-9]*", s):
                return int(s, 10)
            return None
        if base == 8 and re.fullmatch(r"[+-]?[0-7]+", s):
            return int(s, 8)
        if base == 10 and re.fullmatch(r"[+-]?[0-9]+", s):
            return int(s, 10)
        if base == 16 and re.fullmatch(r"[+-]?(0[xX])?[0-9a-fA-F]+", s):
            return int(s, 16)
    except ValueError:
        return None
    return None


def r05_4(prog, rep, which=("max_simul", "umsk"), rid="R05.4"):
    for field in which:
        kw = FIELDS[field]
        width = field_width(prog, field)
        mask = (1 << width) - 1
        unset = mask  # 0 - 1 in a width-bit field
        rec_ = [f_ for f_ in prog.record("echs_task_s")["fields"] if f_["n"] == field][0]
        if field_unsigned(prog, field):
            rep.ok(rid, "echs_task_s/%s-unsigned" % field, "src/task.h:%s" % rec_.get("line"), "%s is an unsigned %d-bit field: the stored codes 0..%d read back as written" % (field, width, mask),
                   nontrivial=False)
        else:
            rep.fail(rid, "echs_task_s/%s-unsigned" % field, "src/task.h:%s" % rec_.get("line"),
                     "%s is a signed %d-bit field (%s): the codes %d..%d the parser stores read back negative, so a limit of %d or more compares as "
                     "`no limit` in the daemon and is not written back by the serialiser" % (field, width, rec_.get("t"), 1 << (width - 1), mask, (1 << (width - 1)) - 1))
        ps = parser_sites(prog, field)
        if not ps:
            raise AnalysisBroken("no parser store for %s" % field)
        adj = make_task_adjust(prog, field)
        pmaps = []
        for f, b, i, n in ps:
            m, base = parser_map(prog, f, b, i, n, -2, (1 << width) + 2)
            pmaps.append((f, n, m, base))
        # the two parser copies (event level / calendar level) must agree
        ref = pmaps[0]
        for f, n, m, base in pmaps[1:]:
            if m != ref[2] or base != ref[3]:
                rep.fail(rid, "%s/parser-siblings" % field, f.loc(n.get("line")),
                         "%s and %s parse %s differently (accepted %s base %s vs %s base %s)" % (
                             ref[0].name, f.name, kw, _rng(ref[2]), ref[3], _rng(m), base))
        f0, n0, pm, base = ref
        if not pm:
            rep.fail(rid, "%s/parser-accepts" % field, f0.loc(n0.get("line")), "the parser accepts no value for %s" % kw)
            continue
        # stored value must fit the field and never collide with 0 (= unset before the adjustment)
        bad = {v: s for v, s in pm.items() if not (0 < s <= mask)}
        if bad:
            rep.fail(rid, "%s/parser-store-fits" % field, f0.loc(n0.get("line")),
                     "text values %s are stored as %s, outside 1..%d of the %d-bit field (0 is reserved for unset)" % (
                         _rng(bad), sorted(set(bad.values()))[:4], mask, width))
        else:
            rep.ok(rid, "%s/parser-store-fits" % field, f0.loc(n0.get("line")),
                   "text %s -> stored %s, inside the %d-bit field, 0 reserved for unset" % (_rng(pm), _rng({s: 1 for s in pm.values()}), width))
        # task-level value after make_task
        def task_value(text_v):
            if text_v in pm:
                return (pm[text_v] + adj) & mask
            return (0 + adj) & mask  # rejected -> unset
        valid = {task_value(v) for v in pm}
        if (0 + adj) & mask != unset or unset in valid:
            rep.fail(rid, "%s/unset-sentinel" % field, f0.loc(n0.get("line")),
                     "unset encodes as %d but %s" % ((0 + adj) & mask, "a valid value collides with it" if unset in valid else "the all-ones sentinel is %d" % unset))
        else:
            rep.ok(rid, "%s/unset-sentinel" % field, f0.loc(n0.get("line")), "unset <=> %d (all ones); valid task values %s" % (unset, _rng({v: 1 for v in valid})))
        # writers
        ws = writer_sites(prog, kw)
        if not any(w_[0].name == "send_task" for w_ in ws):
            raise AnalysisBroken("send_task no longer writes %s" % kw)
        hdr_emits = [w_ for w_ in ws if w_[0].name == "echs_icalify_init"]
        ws = [w_ for w_ in ws if w_[0].name != "echs_icalify_init"]
        if prog.has_fn("echs_icalify_init", "evical.c"):
            hf = prog.fn("echs_icalify_init", "evical.c")
            if hdr_emits:
                f, S, fmt = hdr_emits[0]
                wm = writer_map(prog, f, S, fmt, field, width)
                acc = [v for v in sorted(valid) if wm.get(v) is not None and c_strtol(wm[v], base) in pm]
                if acc:
                    rep.fail(rid, "%s/echs_icalify_init/header-default" % field, f.loc(S.line),
                             "the checkpoint header declares the first task's %s as calendar-level default (accepted by the reader for %d values, e.g. %s): "
                             "every other task of the file without an own line inherits it on reload" % (kw, len(acc), _fmtv(acc[0], base)))
                else:
                    rep.ok(rid, "%s/echs_icalify_init/header-default" % field, f.loc(S.line), "header line for %s is never accepted by the reader" % kw)
            else:
                rep.ok(rid, "%s/echs_icalify_init/header-default" % field, hf.loc(), "the checkpoint header declares no calendar-level default for %s" % kw)
        for f, S, fmt in ws:
            key = "%s/%s/read(write(v))=v" % (field, f.name)
            if f.name == "vtodoify":
                # the daemon hands the executor an effective value: set -> that value, unset -> its default
                wm = writer_map(prog, f, S, fmt, field, width)
                wrong = []
                for v in sorted(valid):
                    t = wm.get(v)
                    got = c_strtol(t, base) if t is not None else None
                    if got != v:
                        wrong.append((v, t))
                if wrong:
                    v, t = wrong[0]
                    rep.fail(rid, key, f.loc(S.line),
                             "the execution request prints %r for the set value %s=%s (%d value(s) wrong: %s); the daemon's `unset` test does not "
                             "use the sentinel %d" % (t, kw, _fmtv(v, base), len(wrong), ", ".join(_fmtv(w_[0], base) for w_ in wrong[:5]), unset),
                             {"wrong": wrong[:10]})
                else:
                    rep.ok(rid, key, f.loc(S.line), "every set value of %s is handed to the executor unchanged (%d values); unset gets the daemon default %r" % (
                        kw, len(valid), wm.get(unset)))
                continue
            wm = writer_map(prog, f, S, fmt, field, width)
            wrong = []
            for v in sorted(valid | {unset}):
                t = wm.get(v)
                if t is None:
                    back = unset
                else:
                    tv = c_strtol(t, base)
                    back = task_value(tv) if tv is not None else unset
                if back != v:
                    wrong.append((v, t, back))
            if wrong:
                v, t, back = wrong[0]
                rep.fail(rid, key, f.loc(S.line),
                         "%s: value %s of %s is written as %s and read back as %s (%d of %d domain values do not round-trip: %s)" % (
                             f.name, "unset" if v == unset else _fmtv(v, base), kw, "nothing" if t is None else repr(t),
                             "unset" if back == unset else _fmtv(back, base), len(wrong), len(valid) + 1,
                             ", ".join("unset" if w_[0] == unset else _fmtv(w_[0], base) for w_ in wrong[:6])),
                         {"wrong": wrong[:10]})
            else:
                rep.ok(rid, key, f.loc(S.line), "read(write(v)) = v for all %d values of the field domain incl. unset" % (len(valid) + 1))
        # other `unset` tests of the field (echsq massage, echsx) must use the same sentinel
        for fname, file in (("massage", "echsq.c"), ("echsx", "echsx.c")):
            if not prog.has_fn(fname, file):
                continue
            f = prog.fn(fname, file)
            for b in f.cfg.blocks:
                c = f.cfg.cond(b)
                if c is None:
                    continue
                texts = {lv(n) for n in walk(c) if n.get("k") == "mem" and n["f"] == field}
                if not texts:
                    continue
                t = sorted(texts)[0]
                cls_true = {v for v in range(0, mask + 1) if eval_in({t: v}, c, f)}
                key = "%s/%s/unset-test" % (field, fname)
                if cls_true == {unset} or cls_true == set(range(0, mask + 1)) - valid:
                    rep.ok(rid, key, f.loc(f.cfg.blocks[b].elems[-1].get("line")), "`%s` is true exactly for the non-valid values (unset)" % show(c))
                elif cls_true == valid:
                    rep.ok(rid, key, f.loc(f.cfg.blocks[b].elems[-1].get("line")), "`%s` is true exactly for the valid values" % show(c))
                else:
                    rep.fail(rid, key, f.loc(f.cfg.blocks[b].elems[-1].get("line")),
                             "`%s` classifies %s as unset/set differently from the encoding (valid %s, sentinel %d)" % (
                                 show(c), _rng({v: 1 for v in (cls_true ^ (set(range(0, mask + 1)) - valid))}), _rng({v: 1 for v in valid}), unset))


def _rng(m):
    ks = sorted(m)
    if not ks:
        return "{}"
    out = []
    s = p = ks[0]
    for k in ks[1:]:
        if k == p + 1:
            p = k
            continue
        out.append((s, p))
        s = p = k
    out.append((s, p))
    return ",".join("%d" % a if a == b else "%d..%d" % (a, b) for a, b in out)


def _fmtv(v, base):
    return "0%o" % v if base == 8 else "%d" % v


# ---------------------------------------------------------------------------
# scalar RRULE parts (COUNT, INTERVAL): what the reader makes of a given number

NUMPARSERS = ("atol", "atoi", "strtol", "strtoul", "strtoll")


def rrule_scalar_read(prog, part, value):
    """Outcomes of snarf_rrule() for a rule text whose every part is `<part>=<value>`: a list of (accepted, count, inter) over the
    abstract paths — the keyword discriminant is fixed to the part's enumerator and the number parser's result to `value`
    (value-fixed walk; nothing of echse runs)."""
    f = prog.fn("snarf_rrule", "evical.c")
    cfg = f.cfg
    kval = prog.enumerator({"COUNT": "KEY_COUNT", "INTERVAL": "KEY_INTER"}[part])
    if kval is None:
        raise AnalysisBroken("enumerator for %s not found" % part)
    rrv = None
    for b, i, x, line in cfg.all_elems():
        if isinstance(x, dict) and x.get("k") == "decl":
            for d in x["ds"]:
                if "rrulsp_s" in (d.get("t") or "") and d.get("init") is not None:
                    rrv = d["n"]
    if rrv is None:
        raise AnalysisBroken("snarf_rrule: result variable not found")
    keylv = set()
    for b, i, x, line in cfg.all_elems():
        for n in walk(cfg.resolve(x) if isinstance(x, dict) else {}):
            if n.get("k") == "mem" and n.get("f") == "key":
                keylv.add(lv(n))
    if len(keylv) != 1:
        raise AnalysisBroken("snarf_rrule: keyword discriminant not found (%s)" % sorted(keylv))
    keylv = keylv.pop()

    def effect(b, i, x, store):
        upd = {keylv: kval}     # re-asserted at every element: the lookup result always names this part
        if isinstance(x, dict) and any(c.get("fn") in NUMPARSERS for c in calls(x)):
            upd["$num"] = 1
        if isinstance(x, dict) and x.get("k") == "ret" and x.get("e") is not None:
            e = strip_casts(cfg.resolve(x["e"]))
            upd["$ret"] = 1 if (e.get("k") == "ref" and e.get("n") == rrv) else 0
        return upd

    def call_eval(c, store):
        if c.get("fn") in NUMPARSERS:
            return value
        if c.get("fn") == "__builtin_expect":
            return None
        return None
    ints = {l_["n"] for l_ in f.locals if (l_.get("t") or "") in ("long", "long int", "int", "unsigned int")}
    w = AbsWalk(f, ints | {keylv, rrv, rrv + ".count", rrv + ".inter", rrv + ".freq"}, init={keylv: kval}, effect=effect, call_eval=call_eval, max_states=100000)
    w.run()
    out = set()
    for st in w.exit_stores:
        if st.get("$num"):      # paths on which the part was actually read
            out.add((st.get("$ret"), st.get(rrv + ".count"), st.get(rrv + ".inter")))
    if not out:
        raise AnalysisBroken("snarf_rrule: no path reads the number of %s" % part)
    return sorted(out, key=str), f


def r05_4c(prog, rep, rid="R05.4"):
    """Reader side of the scalar parts: the values the serialiser writes come back as written.  COUNT=0 (an exhausted rule — see the
    writer clause) must come back as a rule without occurrences: rejected, or a stored count of 0 — never as the `unset` default,
    which means unlimited."""
    n = 0
    for part, idx, probe in (("COUNT", 1, (0, 1, 2, 64, 1000, 40000, 100000)), ("INTERVAL", 2, (2, 3, 7, 60, 86400))):
        for v in probe:
            outs, f = rrule_scalar_read(prog, part, v)
            n += 1
            key = "snarf_rrule/%s=%d reads back" % (part, v)
            acc = [o for o in outs if o[0] == 1]
            if part == "COUNT" and v == 0:
                bad = [o for o in acc if o[idx] != 0]
                if bad:
                    rep.fail(rid, key, f.loc(), "COUNT=0 — which the serialiser writes for a rule whose occurrences are used up — is accepted with count %s: "
                             "the exhausted rule reads back as a live (unlimited) one" % sorted({o[idx] for o in bad}, key=str), {"outcomes": [list(o) for o in outs]})
                else:
                    rep.ok(rid, key, f.loc(), "COUNT=0 is rejected or kept as 0 (no occurrences)")
                continue
            if not acc:
                rep.fail(rid, key, f.loc(), "%s=%d is rejected by the reader although the serialiser writes it" % (part, v))
            elif any(o[idx] != v for o in acc):
                rep.fail(rid, key, f.loc(), "%s=%d reads back as %s" % (part, v, sorted({o[idx] for o in acc}, key=str)), {"outcomes": [list(o) for o in outs]})
            else:
                rep.ok(rid, key, f.loc(), "%s=%d reads back as %d" % (part, v, v), nontrivial=(v == probe[-1]))
    if n < 12:
        rep.broken_("rule=%s expected 12 probes of the scalar parts, ran %d" % (rid, n))


def r09_8(prog, rep, rid="R09.8"):
    """INTERVAL is stored into an unsigned step that the fillers add to (and multiply into) their month/day/hour counters.  (a) only
    positive values may be admitted (a negative number becomes 2^32-k, the counters walk backwards below 1 and index the month-length
    tables at -1); (b) an admitted value is stored as read (2^32 must not come out as 0: a stream that never advances); (c) the largest
    admitted value survives the fillers' own arithmetic: `inter * K` stays within unsigned int, `signed counter += inter` stays
    positive.  The multipliers and the signed counters are read off the fillers."""
    for v in (0, -1, -7):
        outs, f = rrule_scalar_read(prog, "INTERVAL", v)
        acc = [o for o in outs if o[0] == 1]
        key = "snarf_rrule/INTERVAL=%d" % v
        bad = [o for o in acc if o[2] is None or o[2] > 0x7fffffff or o[2] <= 0]
        if bad and v == 0:
            rep.fail(rid, key, f.loc(), "INTERVAL=0 is accepted and stored as %s: the fillers without a tries counter step by nothing and never "
                     "return, the monthly one computes `%% rr->inter` — a division by zero" % sorted({o[2] for o in bad}, key=str),
                     {"outcomes": [list(o) for o in outs]})
        elif bad:
            rep.fail(rid, key, f.loc(), "INTERVAL=%d is accepted and stored as %s: the fillers then step their month/day counters backwards "
                     "(m += 4294967295 is m - 1) below 1 and read the month-length table out of bounds" % (v, sorted({o[2] for o in bad}, key=str)),
                     {"outcomes": [list(o) for o in outs]})
        else:
            rep.ok(rid, key, f.loc(), "INTERVAL=%d is rejected (or leaves the default step)" % v)
    # (c) what the fillers do with the step
    K = 1
    signed_add = []
    for g in prog.fns_in("evrrul.c"):
        if not g.cfg:
            continue
        for b, i, x, line in g.cfg.all_elems():
            if not isinstance(x, dict):
                continue
            for nn in walk(g.cfg.resolve(x)):
                if nn.get("k") == "bin" and nn["op"] == "*":
                    for side, other in (("l", "r"), ("r", "l")):
                        if lv(strip_casts(nn[side])).endswith("->inter") and int_value(nn[other]) is not None:
                            K = max(K, int_value(nn[other]))
            for l, kind, nn in writes(x):
                if kind == "compound" and nn.get("op") == "+=" and lv(strip_casts(g.cfg.resolve(nn["r"]))).endswith("->inter"):
                    tl = strip_casts(l)
                    ty = [l_ for l_ in g.locals if l_["n"] == lv(tl)]
                    if ty and ty[0].get("s") is True:
                        signed_add.append((g.name, lv(tl)))
    umax, imax = 0xffffffff, 0x7fffffff
    limit = (umax - 62) // K
    if signed_add:
        limit = min(limit, imax - 12)
    probes = sorted({1 << 33, (1 << 32) + 5, 1 << 32, (1 << 32) - 1, 1 << 31, imax, imax - 12, limit + 1, limit, imax // K + 1, imax // K, 1000000}, reverse=True)
    largest = None
    for v in probes:
        outs, f = rrule_scalar_read(prog, "INTERVAL", v)
        acc = [o for o in outs if o[0] == 1]
        key = "snarf_rrule/INTERVAL=%d" % v
        if not acc:
            rep.ok(rid, key, f.loc(), "INTERVAL=%d is rejected" % v, nontrivial=False)
            continue
        stored = {o[2] for o in acc}
        if stored != {v}:
            rep.fail(rid, key, f.loc(), "INTERVAL=%d is accepted but stored as %s: the number does not survive the conversion into the unsigned step "
                     "(2^32 becomes 0 and the stream emits one instant for ever)" % (v, sorted(stored, key=str)))
            continue
        if v > limit:
            rep.fail(rid, key, f.loc(), "INTERVAL=%d is accepted; the fillers multiply the step by %d and add it to the signed counter(s) %s: beyond %d that "
                     "arithmetic wraps (a negative month indexes the month-length table out of bounds, a wrapped day count steps by the wrong amount)" % (
                         v, K, sorted(set(signed_add)) or "-", limit))
            continue
        largest = v if largest is None else max(largest, v)
        rep.ok(rid, key, f.loc(), "INTERVAL=%d is stored as read and within the fillers' arithmetic (x%d, signed += : %s)" % (v, K, bool(signed_add)), nontrivial=False)
    if largest is None:
        rep.broken_("rule=%s no probe of INTERVAL is accepted any more" % rid)
