"""Rules over the small-integer set containers (bitint.h / bitint.c): shared by C19, C05, C01."""
import re

from ..facts import walk, strip, strip_casts, lv, show, writes, calls, int_value, root_var
from ..flow import MustFacts, cond_atoms, rel_facts
from ..q import call_sites, const_eval, Site
from ..absw import AbsWalk, eval_in
from ..snapshot import AnalysisBroken

FAMILY = ("bituint31_t", "bituint63_t", "bitint31_t", "bitint63_t", "bitint383_t", "bitint447_t")
ASS = {"ass_bui31": "bituint31_t", "ass_bui63": "bituint63_t", "ass_bi31": "bitint31_t", "ass_bi63": "bitint63_t",
       "ass_bi383": "bitint383_t", "ass_bi447": "bitint447_t"}
NEXT = {"bui31_next": "bituint31_t", "bui63_next": "bituint63_t", "bi31_next": "bitint31_t", "bi63_next": "bitint63_t",
        "bi383_next": "bitint383_t", "bi447_next": "bitint447_t"}


def base_typedef(t):
    t = (t or "").replace("const", "").replace("restrict", "").replace("*", "").replace("struct", "").strip()
    t = re.sub(r"\[.*\]", "", t).strip()
    return t


def container_domain(prog, assfn):
    """(lo, hi) of values a container accepts without shifting out of its word, derived from the assign function."""
    ty = ASS[assfn]
    if ty in ("bitint383_t", "bitint447_t"):
        rec = prog.record(ty)
        ext = [f for f in rec["fields"] if f["n"] == "pos"][0]["extent"]
        hi = ext * 32 - 1
        return -hi, hi
    f = prog.fn(assfn, "bitint.h")
    x = f.params[1]["n"]
    lo, hi = None, None
    for b, i, e, line in f.cfg.all_elems():
        for n in walk(f.cfg.resolve(e)):
            if n.get("k") == "bin" and n["op"] == "<<" and int_value(n["l"]) == 1:
                w = n.get("w")
                amt = strip_casts(n["r"])
                # forms: x + c ; x ; -x
                neg = False
                c = 0
                if amt.get("k") == "bin" and amt["op"] == "+" and int_value(amt["r"]) is not None:
                    c = int_value(amt["r"])
                    amt = strip_casts(amt["l"])
                if amt.get("k") == "un" and amt["op"] == "-":
                    neg = True
                    amt = strip_casts(amt["e"])
                if amt.get("k") == "ref" and amt["n"] == x and w:
                    bound = w - 1 - c
                    if neg:
                        lo = -bound if lo is None else max(lo, -bound)
                    else:
                        hi = bound if hi is None else min(hi, bound)
    if hi is None:
        raise AnalysisBroken("cannot derive the domain of %s" % assfn)
    if lo is None:
        lo = 0
    return lo, hi


def arg_interval(f, mf, b, i, arg):
    """Interval of the integer variable `arg` (text) at (b, i) from the relational must-facts."""
    facts = mf.at(b, i) or set()
    lo, hi = None, None
    nz = False
    for fx in facts:
        if fx[0] in ("lt", "le") and fx[1] == arg:
            try:
                v = int(fx[2])
            except ValueError:
                continue
            v = v - 1 if fx[0] == "lt" else v
            hi = v if hi is None else min(hi, v)
        elif fx[0] in ("lt", "le") and fx[2] == arg:
            try:
                v = int(fx[1])
            except ValueError:
                continue
            v = v + 1 if fx[0] == "lt" else v
            lo = v if lo is None else max(lo, v)
        elif fx[0] == "true" and fx[1] == arg:
            nz = True
        elif fx[0] == "ne" and fx[1] == arg and fx[2] == "0":
            nz = True
    return lo, hi, nz


def r19_1(prog, rep, rid="R19.1"):
    """Parser guards lie inside the containers' domains."""
    f = prog.fn("snarf_rrule", "evical.c")
    cfg = f.cfg
    mf = MustFacts(cfg)
    n = 0
    for b, i, c, line in f.all_calls():
        fn = c.get("fn")
        if fn not in ASS:
            continue
        n += 1
        lo_d, hi_d = container_domain(prog, fn)
        val = strip_casts(cfg.resolve(c["a"][1]))
        tgt = lv(strip_casts(cfg.resolve(c["a"][0]))).lstrip("&")
        key = "snarf_rrule/%s(%s)" % (fn, tgt)
        if val.get("k") == "call" and val.get("fn") == "pack_cd":
            # pack_cd(CD(cnt, dow)) = (cnt << 3) | dow
            ini = strip_casts(val["a"][0])
            flds = dict((p[0], p[1]) for p in ini["fs"]) if ini.get("k") == "init" else {}
            cnt = lv(flds.get("cnt"))
            lo, hi, nz = arg_interval(f, mf, b, i, cnt)
            wd = _wday_values(prog)
            if lo is None or hi is None:
                rep.fail(rid, key, f.loc(line), "weekday ordinal %s is not bounded on both sides before it is packed" % cnt)
                continue
            pk = prog.fn("pack_cd", "evrrul.h")
            body = [pk.cfg.resolve(x["e"]) for bb, ii, x, ln in pk.cfg.all_elems() if isinstance(x, dict) and x.get("k") == "ret"][0]
            vals = []
            for cv in (lo, hi):
                for dv in wd:
                    vals.append(_arith(body, {"cd.cnt": cv, "cd.dow": dv}))
            lo_v, hi_v = min(vals), max(vals)
        else:
            arg = lv(val)
            lo, hi, nz = arg_interval(f, mf, b, i, arg)
            unsigned = "unsigned" in (val.get("t") or "")
            if lo is None and unsigned:
                lo = 1 if nz else 0
            if lo is None or hi is None:
                rep.fail(rid, key, f.loc(line), "value %s stored with %s is not bounded on both sides (facts give [%s, %s])" % (arg, fn, lo, hi))
                continue
            lo_v, hi_v = lo, hi
        if lo_d <= lo_v and hi_v <= hi_d:
            rep.ok(rid, key, f.loc(line), "guard admits [%d, %d], inside the domain [%d, %d] of %s" % (lo_v, hi_v, lo_d, hi_d, ASS[fn]))
        else:
            rep.fail(rid, key, f.loc(line),
                     "the parser's guard admits [%d, %d] for %s but %s only holds [%d, %d]: a shift by the excess value leaves the word "
                     "(undefined behaviour / aliasing with other members)" % (lo_v, hi_v, tgt, ASS[fn], lo_d, hi_d))
    if n < 10:
        rep.broken_("rule=%s expected >=10 ass_* sites in snarf_rrule, found %d" % (rid, n))


RFC_DOMAIN = {   # RFC 5545 3.3.10: values every conforming reader must accept (0 never is a member of the signed lists)
    "mon": (1, 12), "H": (0, 23), "M": (0, 59), "S": (0, 60), "dom": (-31, 31), "doy": (-366, 366), "wk": (-53, 53), "pos": (-366, 366),
}


def r01_5(prog, rep, rid="R01.5"):
    """The parser's guards admit every value RFC 5545 allows for a rule part (the other direction of R19.1): a guard that is too tight
    silently drops legal members, e.g. the 0 of BYHOUR/BYMINUTE/BYSECOND."""
    f = prog.fn("snarf_rrule", "evical.c")
    cfg = f.cfg
    mf = MustFacts(cfg)
    n = 0
    for b, i, c, line in f.all_calls():
        fn = c.get("fn")
        if fn not in ASS:
            continue
        val = strip_casts(cfg.resolve(c["a"][1]))
        tgt = lv(strip_casts(cfg.resolve(c["a"][0]))).lstrip("&")
        fld = tgt.split(".")[-1].split("->")[-1]
        if fld not in RFC_DOMAIN or val.get("k") == "call":
            continue
        n += 1
        key = "snarf_rrule/admits(%s)" % fld
        arg = lv(val)
        lo, hi, nz = arg_interval(f, mf, b, i, arg)
        unsigned = "unsigned" in (val.get("t") or "")
        if lo is None and unsigned:
            lo = 0
        rlo, rhi = RFC_DOMAIN[fld]
        if lo is None or hi is None:
            continue   # R19.1 reports unbounded values
        problems = []
        if lo > rlo:
            problems.append("values below %d" % lo)
        if hi < rhi:
            problems.append("values above %d" % hi)
        if nz and rlo <= 0 <= rhi and fld in ("H", "M", "S"):
            problems.append("the value 0")
        if problems:
            rep.fail(rid, key, f.loc(line), "RFC 5545 allows %d..%d for this rule part but the parser's guard rejects %s: legal members are "
                     "silently dropped from the rule" % (rlo, rhi, " and ".join(problems)))
        else:
            rep.ok(rid, key, f.loc(line), "guard admits [%d, %d]%s, which covers RFC 5545's %d..%d" % (lo, hi, " without 0" if nz else "", rlo, rhi))
    if n < 7:
        rep.broken_("rule=%s expected >=7 scalar rule parts with an RFC domain, found %d" % (rid, n))


def _wday_values(prog):
    f = prog.fn("snarf_wday", "evical.c")
    vals = set()
    for b, i, x, line in f.cfg.all_elems():
        if isinstance(x, dict) and x.get("k") == "ret":
            v = int_value(f.cfg.resolve(x["e"]))
            if v is not None:
                vals.add(v)
    mir = prog.enumerator("MIR")
    vals.discard(mir)
    if not vals:
        raise AnalysisBroken("snarf_wday returns no weekday constants")
    return sorted(vals)


def _arith(x, env):
    x = strip_casts(x)
    v = int_value(x)
    if v is not None:
        return v
    k = x.get("k")
    if k in ("ref", "mem"):
        return env[lv(x)]
    if k == "bin":
        l, r = _arith(x["l"], env), _arith(x["r"], env)
        return {"<<": lambda: l << r, ">>": lambda: l >> r, "|": lambda: l | r, "&": lambda: l & r, "+": lambda: l + r,
                "-": lambda: l - r, "*": lambda: l * r, "^": lambda: l ^ r}[x["op"]]()
    if k == "un" and x["op"] == "-":
        return -_arith(x["e"], env)
    raise AnalysisBroken("cannot evaluate %s" % show(x))


def r05_3(prog, rep, rid="R05.3", files=None):
    """Nominal typing of the bitint family across call boundaries."""
    sigs = {}
    for name in list(ASS) + list(NEXT) + ["bui31_has_bits_p", "bi31_has_bits_p", "bui31_has_bit_p", "bi31_has_bit_p", "bui63_has_bits_p",
                                           "bi63_has_bits_p", "bi383_has_bits_p", "bi447_has_bits_p", "bi383_max0"]:
        fl = prog.functions.get(name, [])
        if not fl:
            continue
        fn = fl[0]
        for pi, p in enumerate(fn.params):
            bt = base_typedef(p["t"])
            if bt in FAMILY:
                sigs[name] = (pi, bt)
    if len(sigs) < 12:
        raise AnalysisBroken("only %d bitint functions with a container parameter found" % len(sigs))
    n = 0
    for f in prog.all_fns():
        if not f.cfg or (files and f.file not in files):
            continue
        if f.file in ("bitint.h", "bitint.c", "bitint-bobs.c"):
            continue
        seen = {}
        for b, i, c, line in f.all_calls():
            fn = c.get("fn")
            if fn not in sigs:
                continue
            pi, want = sigs[fn]
            if pi >= len(c["a"]):
                continue
            arg = strip_casts(f.cfg.resolve(c["a"][pi]))
            if arg.get("k") == "un" and arg["op"] == "&":
                arg = strip_casts(arg["e"])
            got = base_typedef(arg.get("t"))
            if got not in FAMILY:
                # a local of the family passed by value, or an expression we cannot type nominally
                continue
            n += 1
            at = lv(arg)
            k0 = "%s/%s(%s)" % (f.name, fn, at)
            cnt = seen.get(k0, 0)
            seen[k0] = cnt + 1
            key = k0 if cnt == 0 else "%s#%d" % (k0, cnt)
            if got == want:
                rep.ok(rid, key, f.loc(line), "%s applied to a %s" % (fn, got), nontrivial=(cnt == 0))
            else:
                rep.fail(rid, key, f.loc(line),
                         "%s (for %s) is applied to %s, which is a %s: the value is implicitly converted (truncated to the narrower word), "
                         "members beyond the smaller container's range are lost" % (fn, want, at, got))
    if n < 30:
        rep.broken_("rule=%s expected >=30 typed container call sites, found %d" % (rid, n))
    return n


def r19_3(prog, rep, rid="R19.3"):
    """On every path of an X_next function that returns an element the cursor is provably non-zero
    (callers loop on the cursor); the terminating path sets it to zero."""
    for name in sorted(NEXT):
        f = prog.fn(name)
        cfg = f.cfg
        it = f.params[0]["n"]
        cur = "*" + it

        def extra_gen(x):
            out = set()
            for l, kind, n in writes(x):
                if lv(l) != cur:
                    continue
                if kind == "incdec" and "++" in n["op"]:
                    out.add(("nz", cur))
                elif n.get("k") == "bin" and n["op"] == "=":
                    r = strip_casts(n["r"])
                    v = int_value(r)
                    if v is not None:
                        out.add(("nz", cur) if v != 0 else ("zero", cur))
                    elif r.get("k") == "bin" and r["op"] == "+" and (int_value(r["r"]) or 0) >= 1:
                        out.add(("nz", cur))
                    elif r.get("k") == "bin" and r["op"] == "+" and (int_value(r["l"]) or 0) >= 1:
                        out.add(("nz", cur))
            return out

        def kills(x):
            return {lv(l) for l, kind, n in writes(x) if lv(l) == cur}

        def gen(c, truth):
            out = set()
            for a in cond_atoms(c, truth):
                if len(a) == 3 and a[1] == cur and a[0] == "true":
                    out.add(("nz", cur))
            return out
        mf = MustFacts(cfg, gen=gen, kills=kills, extra_gen=extra_gen)
        nret = 0
        for b, i, x, line in cfg.all_elems():
            if not (isinstance(x, dict) and x.get("k") == "ret"):
                continue
            nret += 1
            facts = mf.at(b, i) or set()
            rv = show(cfg.resolve(x["e"]))
            key = "%s/return %s" % (name, rv)
            if ("zero", cur) in facts:
                rep.ok(rid, key, f.loc(line), "terminating return: cursor reset to 0")
            elif ("nz", cur) in facts:
                rep.ok(rid, key, f.loc(line), "element return: cursor is non-zero on every path")
            else:
                rep.fail(rid, key, f.loc(line),
                         "%s returns an element while the cursor %s is not provably non-zero (e.g. set from the value itself): callers loop on the cursor, "
                         "so a member equal to 0 ends the iteration before it is seen" % (name, cur))
        if nret < 2:
            rep.broken_("rule=%s %s has %d returns" % (rid, name, nret))
    # iteration sites test the cursor, not the value
    nsite = 0
    for f in prog.all_fns():
        if not f.cfg or f.file in ("bitint.h", "bitint.c"):
            continue
        for b in f.cfg.blocks:
            c = f.cfg.cond(b)
            if c is None:
                continue
            cs = [n for n in walk(c) if n.get("k") == "call" and n.get("fn") in NEXT]
            if not cs:
                continue
            nsite += 1
            call = cs[0]
            itv = lv(strip_casts(call["a"][0])).lstrip("&")
            # condition value: last comma operand / tested expression
            tested = strip(c)
            while tested.get("k") == "bin" and tested["op"] == ",":
                tested = strip(tested["r"])
            while tested.get("k") == "bin" and tested["op"] in ("&&", "||"):
                tested = strip(tested["l"]) if any(n is call for n in walk(tested["l"])) else strip(tested["r"])
                while tested.get("k") == "bin" and tested["op"] == ",":
                    tested = strip(tested["r"])
            key = "%s/loop on %s(%s)" % (f.name, call["fn"], itv)
            if lv(tested) == itv:
                rep.ok(rid, key, f.loc(call.get("line")), "loop tests the cursor %s" % itv, nontrivial=False)
            elif f.name == "rrul_fill_mly" and call["fn"] == "bui31_next":
                rep.note(rid, key, f.loc(call.get("line")), "listed exception: BYMONTH congruence loop tests the value (months are 1..12 by R19.1, never 0) and reads the cursor as value + 1")
            else:
                rep.fail(rid, key, f.loc(call.get("line")), "iteration tests %s instead of the cursor %s: a member 0 ends the loop early" % (show(tested), itv))
    if nsite < 25:
        rep.broken_("rule=%s expected >=25 iteration sites, found %d" % (rid, nsite))


def r19_4(prog, rep, rid="R19.4"):
    """From a fresh cursor on a bitset without positive members, each signed iterator can reach its negatives.
    Path-sensitive constant propagation from the abstract start state {cursor = 0, positive word empty, bitset mode};
    everything else (the negative word) is unknown and forks."""
    for name in ("bi31_next", "bi63_next", "bi383_next", "bi447_next"):
        f = prog.fn(name)
        it = f.params[0]["n"]
        bi = f.params[1]["n"]
        inline = name in ("bi31_next", "bi63_next")
        if inline:
            init = {"*" + it: 0, bi + ".pos": 0}
            tracked = {"*" + it, bi + ".pos"}
        else:
            # bitset mode: LSB of pos[0] set; the other positive words are unknown (forks cover the all-zero case)
            init = {"*" + it: 0, "*" + bi + "->pos": 1}
            tracked = {"*" + it, "*" + bi + "->pos", "ij", "ip"}
        w = AbsWalk(f, tracked, init=init, max_states=50000, widen=200)
        w.run()
        key = "%s/negatives-reachable" % name
        if _neg_reachable(f, w, it, bi, inline):
            rep.ok(rid, key, f.loc(), "from cursor 0 on a bitset without positive members a feasible path examines the negative word (%d abstract states)" % len(w.visited))
        else:
            rep.fail(rid, key, f.loc(),
                     "from a fresh cursor on a bitset whose positive word is empty no feasible path reaches the negatives branch: "
                     "negative-only sets iterate as empty (e.g. BYMONTHDAY=-1,-2)")


def _neg_reachable(f, w, it, bi, inline):
    """Did the walk enter a block that shifts/reads the negative word on a path where the positive word was 0?"""
    cfg = f.cfg
    # blocks that read neg in a shift or assign from neg[...]
    negblocks = set()
    for b, i, x, line in cfg.all_elems():
        for n in walk(x):
            if n.get("k") == "bin" and n["op"] == ">>=" and "neg" in lv(n["l"]):
                negblocks.add(b)
            if n.get("k") == "bin" and n["op"] == "=" and "neg[" in show(n["r"]) and "neg" not in lv(n["l"]):
                negblocks.add(b)
    if not negblocks:
        raise AnalysisBroken("%s: no read of the negative word found" % f.name)
    visited_blocks = {k[0] for k in w.visited}
    # exclude the native-list branch of bi383/447 (reads neg[] as a value list): it is not reachable in bitset mode anyway
    return bool(negblocks & visited_blocks)


def r19_7(prog, rep, rid="R19.7"):
    """Cursor coverage.  The iterators encode their position in one cursor: positives below a bound, negatives above it, 0 = start/end.
    For every cursor value below the end bound (all of them: the domain is finite) a bitset-mode call must examine the member words
    before it may answer end-of-iteration; a cursor value the function itself can store (largest positive + 1) that falls between the
    `positives` and the `negatives` test ends the iteration blindly and drops every negative member."""
    n = 0
    for name in ("bi31_next", "bi63_next", "bi383_next", "bi447_next"):
        f = prog.fn(name)
        cfg = f.cfg
        it = f.params[0]["n"]
        bi = f.params[1]["n"]
        inline = name in ("bi31_next", "bi63_next")
        cur = "*" + it
        tag = (bi + ".pos") if inline else ("*" + bi + "->pos")
        words = (bi + ".pos", bi + ".neg") if inline else (bi + "->pos", bi + "->neg", "*" + bi + "->pos", "*" + bi + "->neg")
        # end bound: the largest constant the cursor is compared with
        consts = set()
        for b in cfg.blocks:
            c = cfg.cond(b)
            if c is None:
                continue
            for truth in (True,):
                for a in cond_atoms(c, truth):
                    if len(a) == 5 and (a[1] == cur or a[2] == cur):
                        v = const_eval(f, a[4] if a[1] == cur else a[3])
                        if v is not None:
                            consts.add(v)
        if not consts or max(consts) < 32:
            raise AnalysisBroken("%s: no bound on the cursor found (%s)" % (name, sorted(consts)))
        end = max(consts)

        def reads(x):
            from ..facts import children
            stack = [x]
            while stack:
                nn = stack.pop()
                if not isinstance(nn, dict):
                    continue
                if nn.get("k") == "bin" and nn["op"] == "&" and int_value(nn["r"]) == 1 and lv(strip_casts(nn["l"])) == tag:
                    continue        # the representation tag test is not a look at the members
                if nn.get("k") in ("mem", "idx") or (nn.get("k") == "un" and nn["op"] == "*"):
                    t = lv(nn)
                    if any(t == w_ or t.startswith(w_ + "[") for w_ in words):
                        return True
                stack.extend(children(nn))
            return False

        def effect(b, i, x, store):
            return {"$seen": 1} if reads(x) else None

        def assume(b, si, cond, store):
            # bitset mode only: the single-value / native representation has its own (trivial) termination
            c = strip(cond)
            neg = False
            while isinstance(c, dict) and c.get("k") == "un" and c["op"] == "!":
                neg = not neg
                c = strip(c["e"])
            if isinstance(c, dict) and c.get("k") == "bin" and c["op"] == "&" and int_value(c["r"]) == 1 and lv(strip_casts(c["l"])) == tag:
                tagged = (si == 0) != neg      # this edge is taken when the tag bit is set
                if inline and tagged:
                    return "infeasible"        # bitint31/63: tag set = single value
                if not inline and not tagged:
                    return "infeasible"        # bitint383/447: tag clear = native list
            return None
        blind = []
        # the dispatch on the cursor is a cascade of comparisons with constants: the constants and their neighbours represent every region
        for c0 in sorted({v_ for k_ in consts | {0, 1} for v_ in (k_ - 1, k_, k_ + 1) if 0 <= v_ < end}):
            init = {cur: c0}
            if not inline:
                init[tag] = 1
            w = AbsWalk(f, {cur} | ({tag} if not inline else set()), init=init, effect=effect, assume=assume, max_states=50000, widen=4 * end)
            w.run()
            if any(not st.get("$seen") for st in w.exit_stores):
                blind.append(c0)
        n += 1
        key = "%s/cursor-coverage" % name
        if not blind:
            rep.ok(rid, key, f.loc(), "for every cursor value in [0, %d) a bitset-mode call examines the member words before it can end the iteration" % end)
        else:
            rep.fail(rid, key, f.loc(),
                     "with the cursor at %s (bitset mode) %s() answers end-of-iteration without looking at the member words: after the member "
                     "%s has been yielded the remaining (negative) members are never iterated" % (
                         ", ".join(map(str, blind[:4])), name, ", ".join(str(c_ - 1) for c_ in blind[:4])), {"blind_cursors": blind[:16], "end_bound": end})
    if n < 4:
        rep.broken_("rule=R19.7 expected 4 signed iterators, analysed %d" % n)


def r19_9(prog, rep, rid="R19.9"):
    """In bitset representation the words of a container are bit masks; bit 31 (63) of the signed `neg` word is a member (-31, -63).
    A relational comparison of such a word (`bi.neg > 1`) is a signed comparison: with that member present the word is negative and
    the test says `no members`.  Inside the bitset-mode region of the iterators and membership tests, mask words of signed type may
    only be tested for (in)equality with 0 or through & / >> (the native/single-value region holds plain numbers and is exempt)."""
    n = 0
    for name in ("bi31_next", "bi63_next", "bi31_has_bit_p", "bi63_has_bit_p", "bi31_has_bits_p", "bi63_has_bits_p"):
        if not prog.has_fn(name):
            continue
        f = prog.fn(name)
        cfg = f.cfg
        bi = [p_["n"] for p_ in f.params if "bitint" in (p_.get("t") or "") and "iter" not in (p_.get("t") or "")]
        if not bi:
            continue
        bi = bi[0]
        tag = bi + ".pos"
        # bitset region: blocks dominated by the tag-clear edge of the `pos & 1` test (all blocks when the function has no such test)
        region = None
        for b in cfg.blocks:
            c = cfg.cond(b)
            if c is None:
                continue
            c_ = strip(c)
            neg = False
            while isinstance(c_, dict) and c_.get("k") == "un" and c_["op"] == "!":
                neg = not neg
                c_ = strip(c_["e"])
            if isinstance(c_, dict) and c_.get("k") == "bin" and c_["op"] == "&" and int_value(c_["r"]) == 1 and lv(strip_casts(c_["l"])) == tag:
                clear = cfg.blocks[b].succs[0 if neg else 1]
                cand = {x for x in cfg.blocks if clear is not None and (x == clear or cfg.dominates(clear, x))}
                # the representation test is the outermost one (the same expression also steers the scan loops further in)
                if region is None or len(cand) > len(region):
                    region = cand
        if region is None:
            region = set(cfg.blocks)
        n += 1
        bad = []
        for b in sorted(region):
            for e in cfg.blocks[b].elems:
                x = e["x"]
                if not isinstance(x, dict):
                    continue
                for nn in walk(x):
                    if nn.get("k") == "bin" and nn["op"] in ("<", ">", "<=", ">="):
                        for side in ("l", "r"):
                            core = strip_casts(nn[side])
                            if core.get("k") == "mem" and lv(core) == bi + ".neg" and not (core.get("t") or "").startswith("u"):
                                cast_to = nn[side].get("to", {}) if nn[side].get("k") == "cast" else {}
                                if cast_to.get("s") is False:
                                    continue    # explicitly compared as unsigned
                                bad.append((e.get("line"), show(nn)[:60]))
        key = "%s/mask-words-not-compared-signed" % name
        if bad:
            rep.fail(rid, key, f.loc(bad[0][0]), "in bitset mode `%s` compares the signed mask word %s.neg relationally: with the member stored in its top bit "
                     "(-31 / -63) the word is negative, the test reads `no negatives` and they are skipped" % (bad[0][1], bi))
        else:
            rep.ok(rid, key, f.loc(), "no relational comparison of the signed mask word in the bitset region (%d blocks)" % len(region), nontrivial=(n == 1))
    if n < 2:
        rep.broken_("rule=%s expected >=2 inline signed-container functions, analysed %d" % (rid, n))


def r19_10(prog, rep, rid="R19.10"):
    """`bi >> 1` is the stored *number* only while the tag bit says `single value`; in bitset representation it is the membership mask.
    Every comparison of `bi >> 1` with a value in the unsigned containers' functions must lie behind the tag test (on its `tag set`
    edge) — a test in front of it takes a mask whose numeric value happens to equal the new member for `already there`."""
    from ..flow import edge_dominates
    n = 0
    for name in ("ass_bui31", "ass_bui63", "bui31_has_bit_p", "bui63_has_bit_p"):
        if not prog.has_fn(name):
            continue
        f = prog.fn(name)
        cfg = f.cfg
        bi = f.params[0]["n"]
        tags = []
        for b in cfg.blocks:
            c = cfg.cond(b)
            if c is None:
                continue
            c_ = strip(c)
            neg = False
            while isinstance(c_, dict) and c_.get("k") == "un" and c_["op"] == "!":
                neg = not neg
                c_ = strip(c_["e"])
            if isinstance(c_, dict) and c_.get("k") == "bin" and c_["op"] == "&" and int_value(c_["r"]) == 1 and lv(strip_casts(c_["l"])) == bi:
                tags.append((b, 1 if neg else 0))       # successor index taken when the tag is set
        k = 0
        for b, i, x, line in cfg.all_elems():
            if not isinstance(x, dict):
                continue
            for nn in walk(x):
                if nn.get("k") == "bin" and nn["op"] in ("==", "!="):
                    for side in ("l", "r"):
                        e = strip_casts(nn[side])
                        if e.get("k") == "bin" and e["op"] == ">>" and int_value(e["r"]) == 1 and lv(strip_casts(e["l"])) == bi:
                            k += 1
                            n += 1
                            key = "%s/number-compare#%d" % (name, k)
                            if any(edge_dominates(cfg, tb, si, b) for tb, si in tags):
                                rep.ok(rid, key, f.loc(nn.get("line", line)), "`%s` is compared as a number only where the tag says `single value`" % show(e))
                            else:
                                rep.fail(rid, key, f.loc(nn.get("line", line)), "`%s` is compared with a value without the tag bit having been tested: in bitset "
                                         "representation it is the membership mask, and a mask that happens to equal the value (members {1,2}, value 6) "
                                         "makes the new member look already present" % show(nn)[:50])
    if n < 1:
        rep.broken_("rule=%s expected >=1 number comparison in the unsigned containers, found %d" % (rid, n))


def r19_5(prog, rep, rid="R19.5"):
    """Tag-bit discipline of the assign functions.  Bit 0 of the positive word is the representation tag
    (one integer / native list vs bitset).  (a) ass_bi31/ass_bi63: every member bit that goes into the positive word is
    `1 << E` with E > 0 known on every path (E == 0 would set/leave the tag, so the container keeps claiming it holds a single integer),
    and the zero/negative members take the sibling arm; the degrade arms and the insertion arms split on the same predicate.
    (b) ass_bi383/ass_bi447: a plain store to the tag word is never preceded, since the last wipe, by a bitset insertion
    (it would erase the members 1..31 just inserted)."""
    from ..q import backward_scan
    n = 0
    for name in ("ass_bi31", "ass_bi63"):
        f = prog.fn(name)
        cfg = f.cfg
        mf = MustFacts(cfg)
        bi = f.params[0]["n"]
        splits = []
        for b, i, x, line in cfg.all_elems():
            for l, kind, node in writes(x):
                if lv(l) != bi + ".pos" or kind not in ("assign", "compound"):
                    continue
                rhs = strip_casts(node.get("r")) if isinstance(node, dict) and node.get("r") is not None else None
                if rhs is None or rhs.get("k") != "bin" or rhs["op"] != "<<":
                    continue
                amt = strip_casts(rhs["r"])
                key = "%s/pos-bit(%s)" % (name, show(amt))
                n += 1
                facts = mf.at(b, i) or set()
                t = lv(amt) or show(amt)
                if ("lt", "0", t) in facts or ("le", "1", t) in facts:
                    rep.ok(rid, key, f.loc(line), "shift amount %s > 0 on every path: the tag bit stays clear" % t)
                else:
                    rep.fail(rid, key, f.loc(line),
                             "a member bit is put into the positive word as 1 << %s without `%s > 0` on every path: for %s == 0 that is the "
                             "representation tag itself, the container keeps claiming to hold one integer and the member 0 (and whatever follows) is lost" % (t, t, t))
        # the two splits (stored single value vs new value) use the same predicate
        for b in cfg.blocks:
            c = cfg.cond(b)
            if c is None:
                continue
            for a in cond_atoms(c, True):
                # canonical atoms: `v > 0` and `0 < v` are both ("<", "0", v)
                if len(a) == 5 and a[0] in ("<", "<=") and (a[1] == "0" or a[2] == "0"):
                    v_ = a[2] if a[1] == "0" else a[1]
                    splits.append(("%s %s" % ("0" if a[1] == "0" else "v", a[0]), v_, f.loc(0)))
        key = "%s/split-agreement" % name
        n += 1
        ops = {s[0] for s in splits}
        if len(splits) == 2 and len(ops) == 1:
            rep.ok(rid, key, f.loc(f.line), "degrade arm and insertion arm split by the same comparison with 0 (%s)" % (", ".join(s[1] for s in splits)))
        else:
            rep.fail(rid, key, f.loc(f.line), "the stored single value and the new value are sorted into the positive/negative word by different predicates: %s" % (
                ", ".join("%s: %s" % (s[1], s[0].replace("v", s[1]) + (" " + s[1] if s[0].startswith("0") else " 0")) for s in splits),))
    for name, bs in (("ass_bi383", "ass_bs383"), ("ass_bi447", "ass_bs447")):
        f = prog.fn(name)
        cfg = f.cfg
        bi = f.params[0]["n"]
        found = 0
        for b, i, x, line in cfg.all_elems():
            for l, kind, node in writes(x):
                if kind != "assign" or lv(l) not in ("*%s->pos" % bi, "%s->pos[0]" % bi):
                    continue
                found += 1
                n += 1
                key = "%s/tag-store#%d" % (name, found)

                def visit(b_, i_, x_):
                    for c in calls(x_):
                        if c.get("fn") == "memset":
                            return "stop"
                        if c.get("fn") == bs:
                            return "hit"
                    return None
                hits, _ = backward_scan(cfg, (b, i), visit)
                if hits:
                    hb, hi = hits[0]
                    rep.fail(rid, key, f.loc(line),
                             "the tag word is overwritten (%s) after %s() has already inserted members (line %s): the members 1..31 of the degraded list are erased" % (
                                 show(x), bs, cfg.blocks[hb].elems[hi].get("line")))
                else:
                    rep.ok(rid, key, f.loc(line), "tag store precedes every bitset insertion since the wipe")
        if not found:
            rep.broken_("rule=%s %s: no store to the tag word found" % (rid, name))
    if n < 8:
        rep.broken_("rule=%s expected >=8 instances, found %d" % (rid, n))


def r19_11(prog, rep, rid="R19.11"):
    """(a) Turning a single stored value into a bitset ("degrade") must leave the representation tag — bit 0 of the unsigned word,
    of `.pos` in the signed containers — clear on every path: the tag word is assigned 0 or `1 << E` there.  A path that keeps the tag
    makes every later reader take the bitset for a number.  (b) The cursor of an unsigned iterator runs up to the width of the word
    minus one; a single shift by `cursor + c`, c > 0, can reach the width itself (undefined, a no-op on the usual machines): the
    iterators shift in two steps."""
    n = 0
    for f in prog.fns_in("bitint.h"):
        if not f.cfg or not f.name.startswith("ass_"):
            continue
        cfg = f.cfg
        tag = None
        for b in cfg.blocks:
            c = cfg.cond(b)
            if c is None:
                continue
            c = strip_casts(strip(c))
            if c.get("k") == "bin" and c["op"] == "&" and int_value(c["r"]) == 1:
                tag = (b, lv(strip_casts(c["l"])))
        if tag is None:
            continue
        tb, word = tag
        succ = cfg.blocks[tb].succs[0]
        if succ is None:
            continue

        def effect(b, i, x, store, word=word, cfg=cfg):
            upd = {}
            if isinstance(x, dict):
                for l, kind, nn in writes(x):
                    if lv(l) != word or kind != "assign":
                        continue
                    r = strip_casts(cfg.resolve(nn["r"]))
                    v = int_value(r)
                    if (v is not None and v % 2 == 0) or (r.get("k") == "bin" and r["op"] == "<<" and int_value(r["l"]) == 1):
                        upd["$clear"] = 1
                    else:
                        upd["$clear"] = 0
            return upd
        w = AbsWalk(f, set(), init={"$clear": 0}, effect=effect, max_states=5000)
        w.run(start_block=succ)
        n += 1
        key = "%s/degrade-clears-the-tag" % f.name
        if w.exit_stores and all(st.get("$clear") == 1 for st in w.exit_stores):
            rep.ok(rid, key, f.loc(), "every path from the `single value` branch assigns the tag word 0 or a single member bit")
        else:
            rep.fail(rid, key, f.loc(), "a path through the degrade branch of %s() leaves `%s` as it was: the tag bit stays set, and what is a bitset from now on "
                     "is read as one number by the iterator and the membership test (a container that started with a value <= 0 loses "
                     "every later member)" % (f.name, word))
    m = 0
    for f in prog.fns_in("bitint.h"):
        if not f.cfg or not f.name.endswith("_next") or not f.params:
            continue
        cfg = f.cfg
        cur = f.params[0]["n"]
        for b, i, x, line in cfg.all_elems():
            if not isinstance(x, dict):
                continue
            for q in walk(cfg.resolve(x)):
                amt = None
                if q.get("k") == "bin" and q["op"] in ("<<", ">>", "<<=", ">>="):
                    amt = q["r"]
                if amt is None:
                    continue
                a = strip_casts(amt)
                reads_cursor = any(r_.get("k") == "un" and r_.get("op") == "*" and lv(strip_casts(r_["e"])) == cur for r_ in walk(a))
                if not reads_cursor:
                    continue
                m += 1
                key = "%s/shift-by-cursor@%s" % (f.name, show(a)[:20])
                plus = a.get("k") == "bin" and a["op"] == "+" and (int_value(a["r"]) or 0) > 0 or \
                    a.get("k") == "bin" and a["op"] == "+" and (int_value(a["l"]) or 0) > 0
                if plus:
                    rep.fail(rid, key, f.loc(q.get("line", line)), "the word is shifted by `%s` in one step: the cursor reaches the width of the word minus one after the "
                             "largest member, the shift count then equals the width — undefined, in practice no shift at all, and the iteration "
                             "over a set that holds the largest member never ends" % show(a)[:30])
                else:
                    rep.ok(rid, key, f.loc(q.get("line", line)), "shift count is the cursor itself (below the width)", nontrivial=False)
    if n < 2:
        rep.broken_("rule=%s expected >=2 assign functions with a representation tag in bitint.h, found %d" % (rid, n))
    if m < 2:
        rep.broken_("rule=%s expected >=2 shifts by the cursor in the iterators of bitint.h, found %d" % (rid, m))


def r19_6(prog, rep, rid="R19.6"):
    """(a) membership tests split the value by the same strict `0 < x` as the assign functions (0 lives in the negative word, bit 0 of the
    positive word is the tag); (b) a member bit destined for a 64-bit word is shifted in 64 bits; (c) when the native list is turned into a
    bitset, the loop that re-inserts the saved members is not dead (its bound is not read from the word that was just reset)."""
    n = 0
    for name in ("bi31_has_bit_p", "bi63_has_bit_p"):
        if not prog.has_fn(name):
            continue
        f = prog.fn(name)
        x = f.params[1]["n"]
        cfg = f.cfg
        from ..flow import edge_dominates
        # where the positive word is read as a bitset (shifted by the value): the branch edges that lead there must say 0 < x,
        # however the test is spelt (`x > 0` taken, or `x <= 0` not taken)
        reads = []
        for b, i, e, line in cfg.all_elems():
            if not isinstance(e, dict):
                continue
            for q in walk(cfg.resolve(e)):
                if q.get("k") == "bin" and q["op"] == ">>" and lv(strip_casts(q["l"])).endswith(".pos") and \
                        any(r_.get("k") == "ref" and r_.get("n") == x for r_ in walk(q["r"])):
                    reads.append((b, line))
        n += 1
        key = "%s/split" % name
        if not reads:
            rep.broken_("rule=%s %s: no read of the positive word as a bitset found" % (rid, name))
            continue
        bad = []
        for rb, line in reads:
            atoms = set()
            for g in cfg.blocks:
                c = cfg.cond(g)
                if c is None:
                    continue
                for si, s_ in enumerate(cfg.blocks[g].succs):
                    if s_ is not None and si not in cfg.blocks[g].dead and (edge_dominates(cfg, g, si, rb)):
                        for a in cond_atoms(c, si == 0):
                            if len(a) == 5:
                                atoms.add((a[0], a[1], a[2]))
            if ("<", "0", x) not in atoms:
                bad.append((line, sorted(a for a in atoms if x in a[1:])))
        if not bad:
            rep.ok(rid, key, f.loc(), "positive word is consulted for 0 < %s only, like in the assign function" % x)
        else:
            rep.fail(rid, key, f.loc(bad[0][0]), "membership reads the positive word under %s while insertion files a value there for `0 < x` only: the member 0 "
                     "(kept in bit 0 of the negative word) is looked up in the positive word, whose bit 0 is the representation tag" % (
                         [" ".join((a[1], a[0], a[2])) for a in bad[0][1]] or "no comparison of the value with 0"))
    # (b) shift width
    for f in prog.fns_in("bitint.h"):
        if not f.cfg or not f.name.startswith(("ass_", "bi", "bui")):
            continue
        k = 0
        for b, i, e, line in f.cfg.all_elems():
            for l, kind, nn in writes(e):
                if nn.get("k") != "bin" or nn["op"] not in ("=", "|="):
                    continue
                wl = nn.get("w")
                r = nn["r"]
                while isinstance(r, dict) and r.get("k") == "cast" and r.get("impl"):
                    r = r["e"]
                r = f.cfg.resolve(r)
                while isinstance(r, dict) and r.get("k") == "cast" and r.get("impl"):
                    r = r["e"]
                if not (isinstance(r, dict) and r.get("k") == "bin" and r["op"] == "<<"):
                    continue
                k += 1
                n += 1
                key = "%s/shift-width#%d" % (f.name, k)
                wr = r.get("w")
                if wl and wr and wr < wl:
                    rep.fail(rid, key, f.loc(nn.get("line", line)),
                             "a member bit for the %d-bit word %s is computed as `%s` in %d bits: shift amounts of %d and more wrap, the member is filed "
                             "under a different value" % (wl, lv(l), show(r)[:40], wr, wr))
                else:
                    rep.ok(rid, key, f.loc(nn.get("line", line)), "`%s` is evaluated in the width of %s" % (show(r)[:40], lv(l)))
    # (c) degrade loop alive
    for name, bs in (("ass_bi383", "ass_bs383"), ("ass_bi447", "ass_bs447")):
        f = prog.fn(name)
        cfg = f.cfg
        bi = f.params[0]["n"]
        loops = cfg.natural_loops()
        inloop = [(b, i) for b, i, c, line in f.all_calls() if c.get("fn") == bs and any(b in blks for blks in loops.values())]
        n += 1
        key = "%s/degrade-loop-alive" % name
        if not inloop:
            rep.fail(rid, key, f.loc(), "%s() no longer re-inserts the natively stored members in a loop when it switches to the bitset" % name)
            continue
        counters = {lv(l) for b, i, x, line in cfg.all_elems() for l, kind, nn in writes(x) if kind == "incdec"}
        w = AbsWalk(f, {"*%s->pos" % bi} | counters, max_states=20000, widen=40)
        w.run()
        vis = {s_[0] for s_ in w.visited}
        if all(b in vis for b, i in inloop):
            rep.ok(rid, key, f.loc(), "the loop that re-inserts the saved members is reachable after the reset of the word")
        else:
            rep.fail(rid, key, f.loc(), "after the tag word has been reset the bound of the re-insertion loop evaluates to 0: the loop body is dead, all "
                     "natively stored members are dropped when the container switches to the bitset")
    # (d) the scratch copy and the re-insertion loop cover the container's whole native list
    for name in ("ass_bi383", "ass_bi447"):
        f = prog.fn(name)
        cfg = f.cfg
        ty = (f.params[0].get("t") or "").replace("__restrict", "").replace("restrict", "").replace("*", "").strip()
        rec = prog.record(ty)
        neg = [fl for fl in rec["fields"] if fl["n"] == "neg"][0]
        cap = neg.get("extent")
        esz = neg.get("elemsize") or 4
        n += 1
        key = "%s/degrade-covers-native-list" % name
        short = []
        for S in call_sites(f, "memcpy"):
            srcs = lv(strip_casts(cfg.resolve(S.node["a"][1])))
            if srcs.endswith("->neg") or srcs.endswith(".neg"):
                sz = const_eval(f, cfg.resolve(S.node["a"][2]))
                if sz is None or sz < cap * esz:
                    short.append("memcpy of %s bytes for a native list of %d x %d" % (sz, cap, esz))
        loops = cfg.natural_loops()
        for h, blks in loops.items():
            if not any((c.get("fn") or "").startswith("ass_bs") for b in blks for e in cfg.blocks[b].elems if isinstance(e["x"], dict) for c in calls(e["x"])):
                continue
            c = cfg.cond(h)
            for a_ in cond_atoms(c, True) if c is not None else []:
                if len(a_) == 5 and a_[0] == "<":
                    bound = const_eval(f, a_[4])
                    if bound is not None and bound < cap:
                        short.append("re-insertion loop runs to %d of %d native slots" % (bound, cap))
        if short:
            rep.fail(rid, key, f.loc(), "when %s switches to the bitset it saves / re-inserts fewer members than the native list holds (%s): the last "
                     "natively stored members are dropped" % (ty, "; ".join(short)))
        else:
            rep.ok(rid, key, f.loc(), "scratch copy and re-insertion cover all %d native slots of %s" % (cap, ty))
    if n < 10:
        rep.broken_("rule=%s expected >=10 instances, found %d" % (rid, n))


def r19_12(prog, rep, rid="R19.12"):
    """The unsigned iterators leave the cursor one beyond the member they have just handed out, in both representations (one stored
    number / bitset).  Callers rely on it: the monthly filler reads the month off the cursor (`cursor - 1`) when it checks that
    INTERVAL can meet BYMONTH at all — with another cursor that check passes for months that are never reached and the month walk
    behind it, which has no fuel, never ends.  bui31_next()/bui63_next() are walked over single values and two-member sets."""
    # callers that read a cursor as a number
    readers = []
    for f in prog.all_fns():
        if not f.cfg or f.file.endswith("bitint.h"):
            continue
        its = set()
        for b, i, x, line in f.cfg.all_elems():
            if isinstance(x, dict):
                for c in calls(x):
                    if (c.get("fn") or "").startswith("bui") and (c.get("fn") or "").endswith("_next") and c.get("a"):
                        a0 = strip_casts(f.cfg.resolve(c["a"][0]))
                        if a0.get("k") == "un" and a0["op"] == "&":
                            its.add((lv(a0["e"]), c["fn"]))
        for b, i, x, line in f.cfg.all_elems():
            if isinstance(x, dict):
                for q in walk(x):
                    if q.get("k") == "bin" and q["op"] in ("-", "+") and int_value(strip_casts(q["r"])) is not None:
                        for it, fn_ in its:
                            if lv(strip_casts(q["l"])) == it:
                                readers.append((f.name, it, fn_, q.get("line", line)))
    for name, width in (("bui31_next", 31), ("bui63_next", 63)):
        f = prog.fn(name)
        it, bi = f.params[0]["n"], f.params[1]["n"]
        key = "%s/cursor-is-member-plus-one" % name
        who = sorted({r_[0] for r_ in readers if r_[2] == name})
        members = [0, 1, 5, 12, width - 1]
        sets = [(0, 1), (1, 12), (3, width - 1), (0, width - 1)]
        bad = []
        n = 0

        def call1(bival, cur):
            outs = []

            def effect(b, i, x, store):
                if isinstance(x, dict) and x.get("k") == "ret" and x.get("e") is not None:
                    outs.append((eval_in(store, f.cfg.resolve(x["e"]), f), store.get("*" + it)))
                return None
            AbsWalk(f, {"*" + it, bi} | {l_["n"] for l_ in f.locals}, init={"*" + it: cur, bi: bival}, effect=effect, max_states=20000).run()
            if len(set(outs)) != 1 or None in outs[0]:
                raise AnalysisBroken("%s(bi=%#x, cursor=%d): no single outcome (%s)" % (name, bival, cur, outs[:2]))
            return outs[0]
        for v in members:
            n += 1
            r, c = call1((v << 1) | 1, 0)
            if r != v or c != v + 1:
                bad.append("the stored number %d is handed out as %d with the cursor at %d" % (v, r, c))
                continue
            r2, c2 = call1((v << 1) | 1, c)
            if c2 != 0:
                bad.append("after the stored number %d the iteration does not end (cursor %d)" % (v, c2))
        for a, b_ in sets:
            n += 1
            word = (1 << (a + 1)) | (1 << (b_ + 1))
            r, c = call1(word, 0)
            r2, c2 = call1(word, c) if c else (None, None)
            r3, c3 = call1(word, c2) if c2 else (None, 0)
            if (r, c, r2, c2, c3) != (a, a + 1, b_, b_ + 1, 0):
                bad.append("the set {%d, %d} is iterated as %s/%s with cursors %s, %s, %s" % (a, b_, r, r2, c, c2, c3))
        if bad:
            rep.fail(rid, key, f.loc(), "%s%s" % ("; ".join(bad[:3]), (": %s reads the member off the cursor" % ", ".join(who)) if who else ""))
        else:
            rep.ok(rid, key, f.loc(), "%d single values and sets: the cursor is the member + 1 and ends at 0%s" % (
                n, (" (read as such by %s)" % ", ".join(who)) if who else ""))


def r19_13(prog, rep, rid="R19.13", tier="quick"):
    """The signed iterators hand out exactly the members of the container, each once: bi31_next()/bi63_next() are walked call after
    call from a fresh cursor until the cursor is back at 0, for one stored number and for bitsets that hold the extreme members, the
    neighbours 62/63 and 30/31, the naught, and members of both signs.  The expected members are read off the representation the
    membership rules (R19.6) confirm: bit k of `pos` is +k, bit 0 of `neg` the naught, bit k of `neg` is -k."""
    for name, W in (("bi31_next", 31), ("bi63_next", 63)):
        f = prog.fn(name)
        it, bi = f.params[0]["n"], f.params[1]["n"]
        key = "%s/hands-out-the-members-once" % name
        n = 0
        bad = []

        def call1(pos, neg, cur):
            outs = []

            def effect(b, i, x, store):
                if isinstance(x, dict) and x.get("k") == "ret" and x.get("e") is not None:
                    outs.append((eval_in(store, f.cfg.resolve(x["e"]), f), store.get("*" + it)))
                return None
            AbsWalk(f, {"*" + it, bi + ".pos", bi + ".neg"} | {l_["n"] for l_ in f.locals},
                    init={"*" + it: cur, bi + ".pos": pos, bi + ".neg": neg}, effect=effect, max_states=20000).run()
            if len(set(outs)) != 1 or None in outs[0]:
                raise AnalysisBroken("%s(pos=%#x, neg=%#x, cursor=%d): no single outcome (%s)" % (name, pos, neg, cur, outs[:2]))
            return outs[0]

        def iterate(pos, neg):
            got = []
            cur = 0
            for _ in range(2 * W + 4):
                r, cur = call1(pos, neg, cur)
                if not cur:
                    return got
                got.append(r)
            return got + ["..."]
        sets = [(W,), (W - 1, W), (1, W), (W - 2, W - 1, W), (-W,), (-W, -(W - 1)), (0, W, -W), (0,), (-1, 1), (1, 2, 3), (0, -1), (5, -5, W - 1),
                (W // 2, W // 2 + 1), (-(W // 2), -(W // 2 + 1)), (0, 1), (-W, W - 1, W)]
        if tier == "thorough":
            sets += [(a,) for a in range(-W, W + 1)] + [(a, a + 1) for a in range(-W, W)] + [(a, W) for a in range(-W, W)] + [(-W, a) for a in range(-W + 1, W + 1)]
        for v in (0, 1, -1, 5, W, -W, W - 1):
            n += 1
            neg = v & ((1 << (W + 1)) - 1)
            got = iterate(1, neg if v >= 0 else v)
            if got != [v]:
                bad.append("the single stored number %d is iterated as %s" % (v, got))
        for s in sets:
            if len(s) < 2 and tier != "thorough" and s not in ((W,), (-W,), (0,)):
                continue
            n += 1
            pos = sum(1 << k for k in s if k > 0)
            neg = sum(1 << -k for k in s if k <= 0)
            got = iterate(pos, neg)
            if sorted(map(str, got)) != sorted(map(str, set(s))):
                bad.append("the bitset {%s} is iterated as %s" % (", ".join(map(str, sorted(set(s)))), got))
        if bad:
            rep.fail(rid, key, f.loc(), "%d of %d containers: %s" % (len(bad), n, "; ".join(bad[:3])), {"examples": bad[:20]})
        else:
            rep.ok(rid, key, f.loc(), "%d containers (one stored number; bitsets with the extremes, neighbours, the naught, both signs): every member once, then the cursor is 0" % n)
