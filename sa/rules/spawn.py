"""posix_spawn() reports failure by returning an error *number* (> 0), never a negative value and not through errno.  A test
`posix_spawn(...) < 0` is dead: a failed spawn (no such shell, EAGAIN) is then taken for a started process — echsx journals exit status 0
for a job that never ran, echsd goes on with an unset pid.  Decided path-sensitively: the walk from the call with its result fixed to
ENOENT (2) must reach some block that the walk with result 0 does not (the failure handling), whatever the spelling of the test."""
from ..facts import lv, writes, calls
from ..absw import AbsWalk


def spawn_results(prog, rep, rid, unit, minimum=1):
    n = 0
    for f in prog.fns_in(unit):
        if not f.cfg:
            continue
        cfg = f.cfg
        sites = [(b, i, x, line) for b, i, x, line in cfg.all_elems()
                 if isinstance(x, dict) and x.get("k") == "call" and x.get("fn") in ("posix_spawn", "posix_spawnp")]
        if not sites:
            continue
        tracked = set()
        for b, i, x, line in cfg.all_elems():
            for l, kind, nn in writes(x):
                rhs = nn.get("init") if kind == "decl" else (nn.get("r") if nn.get("k") == "bin" and nn["op"] == "=" else None)
                if rhs is not None and any(c.get("fn") in ("posix_spawn", "posix_spawnp") for c in calls(cfg.resolve(rhs))):
                    tracked.add(lv(l))
        k = 0
        for b, i, x, line in sites:
            k += 1
            n += 1
            key = "%s/posix_spawn#%d-result" % (f.name, k)
            seen = {}
            for world in (0, 2):
                def call_eval(c, store, _w=world, _x=x):
                    return _w if (c.get("fn") == _x.get("fn") and c.get("line") == _x.get("line")) else None
                w = AbsWalk(f, tracked, call_eval=call_eval, max_states=200000)
                w.run(start_block=b)
                seen[world] = {s[0] for s in w.visited}
            only_fail = seen[2] - seen[0]
            if only_fail:
                rep.ok(rid, key, f.loc(line), "an error number returned by %s() reaches failure handling that a 0 does not (%d blocks)" % (x["fn"], len(only_fail)))
            else:
                rep.fail(rid, key, f.loc(line),
                         "%s() returning an error number (e.g. ENOENT for a shell that does not exist) takes exactly the paths of a successful spawn: "
                         "its result is not tested, or tested with `< 0`, which posix_spawn never returns; the failed spawn is treated as a started process" % x["fn"])
    if n < minimum:
        rep.broken_("rule=%s expected >=%d posix_spawn sites in %s, found %d" % (rid, minimum, unit, n))
