"""No carried state.  The conversions, calendar helpers and containers the properties quantify over are functions of their arguments:
a function-local `static` that one call writes and a later call reads (a memo, a "last seen" cache, a resume hint) makes the answer
depend on the call history — on which rule, table or container was asked about before.  Every mutable function-local static in scope
that the function writes must be (re)written on all paths before it is used (scratch storage is fine); anything else is reported
unless listed with a reason."""
from ..snapshot import AnalysisBroken

# (function, static): reason — confirmed by reading
EXCEPTIONS = {
    ("echs_instant_matches_p", "wl"): "stateful by design: the monotone whitelist of `echse --filter`; not used by rule expansion or the daemon",
    ("echs_instant_matches_p", "nwl"): "fill level of that whitelist",
    ("echs_instant_matches_p", "iwl"): "cursor of that whitelist",
    ("send_task", "auto_uid"): "counter for generated UIDs: deliberately advances from task to task",
}

SCOPES = {
    # property-specific scopes: files, optionally restricted to some functions
    "time": (("instant.c", "instant.h", "tzob.c", "dt-strpf.c", "dt-strpf.h", "echsd.c"), {"echsd.c": {"instant_to_tstamp"}}),
    "scale": (("scale.c",), None),
    "rrule": (("evrrul.c", "evrrul.h"), None),
    "bitint": (("bitint.c", "bitint.h", "bitint-bobs.c"), None),
    "sort": (("instant.h", "wikisort.c", "instant.c"), None),
    "serialise": (("evical.c",), {"evical.c": "send_"}),      # the writer side of evical.c: every function named send_*
    "parse": (("evical.c",), {"evical.c": "snarf_"}),         # the value readers of evical.c: every function named snarf_*
    "zone": (("tzob.c", "tzraw.c", "tzob.h"), None),
}


def _paths(x, cfg, f, locals_def, depth=0, seen=None):
    """Access paths of parameters/globals an expression depends on, looking through local variables (flow-insensitive closure over all
    their definitions) and through calls (a call depends on its arguments)."""
    from ..facts import walk, strip_casts, lv
    out = set()
    seen = set() if seen is None else seen
    x = cfg.resolve(x) if isinstance(x, dict) else x
    if not isinstance(x, dict) or depth > 12:
        return out

    def rec(n):
        n = strip_casts(n)
        if not isinstance(n, dict):
            return
        k = n.get("k")
        if k in ("mem", "idx") or (k == "un" and n.get("op") == "*"):
            root = n
            while isinstance(root, dict) and root.get("k") in ("mem", "idx", "un", "cast"):
                root = root.get("b") if root.get("k") in ("mem", "idx") else root.get("e")
            if isinstance(root, dict) and root.get("k") == "ref" and root.get("dk") == "param":
                out.add(lv(n))
                if k == "idx":
                    rec(n["i"])
                return
        if k == "ref":
            dk = n.get("dk")
            if dk == "param":
                out.add(n["n"])
            elif dk == "local" and n["n"] not in seen:
                seen.add(n["n"])
                for e in locals_def.get(n["n"], []):
                    out.update(_paths(e, cfg, f, locals_def, depth + 1, seen))
            elif dk in ("global",) and "const" not in (n.get("t") or ""):
                out.add("::" + n["n"])
            return
        from ..facts import children
        for c in children(n):
            rec(c)
    rec(x)
    return out


def memo_key_complete(f, name):
    """A static that is read before this call has written it is a memo.  It is sound when (a) the function's statics split into key
    statics — compared for (in)equality with expressions over the arguments and assigned exactly those expressions — and value statics,
    and (b) every argument path a value static's definition depends on is covered by a key expression."""
    from ..facts import walk, strip_casts, lv, writes
    from ..flow import cond_atoms
    cfg = f.cfg
    statics = {l["n"] for l in f.locals if l.get("static")}
    locals_def = {}
    sdef = {}
    for b, i, x, line in cfg.all_elems():
        if not isinstance(x, dict):
            continue
        for l, kind, nn in writes(x):
            t = lv(l)
            rhs = nn.get("init") if kind == "decl" else (nn.get("r") if nn.get("k") == "bin" else None)
            root = t.split("[")[0].split(".")[0]
            if root in statics:
                sdef.setdefault(root, []).append((rhs, kind, nn))
            elif strip_casts(l).get("k") == "ref" and rhs is not None:
                locals_def.setdefault(t, []).append(rhs)
    keys = {}
    for b in cfg.blocks:
        c = cfg.cond(b)
        if c is None:
            continue
        for a in cond_atoms(c, True) + cond_atoms(c, False):
            if len(a) == 5 and a[0] in ("==", "!="):
                for st, other, oe in ((a[1], a[2], a[4]), (a[2], a[1], a[3])):
                    if st in statics and not any(q.get("k") == "ref" and q.get("n") in statics for q in walk(oe)):
                        keys.setdefault(st, set()).add(other)
    # equality through a comparator: xxx_eq_p(arg, static)
    for b, i, x, line in cfg.all_elems():
        if isinstance(x, dict) and x.get("k") == "call" and (x.get("fn") or "").endswith("eq_p") and len(x["a"]) == 2:
            a0, a1 = (strip_casts(cfg.resolve(a)) for a in x["a"])
            for st, other in ((a0, a1), (a1, a0)):
                if st.get("k") == "ref" and st.get("n") in statics and not any(q.get("k") == "ref" and q.get("n") in statics for q in walk(other)):
                    keys.setdefault(st["n"], set()).add(lv(other))
    if not keys:
        return False, "it carries a value from an earlier call and nothing compares a stored key with the arguments of this call"
    covered = set()
    for st, exprs in keys.items():
        for rhs, kind, nn in sdef.get(st, []):
            if rhs is None and kind == "decl":
                continue
            if rhs is None or lv(strip_casts(cfg.resolve(rhs))) not in exprs:
                return False, "key static `%s` is compared with %s but assigned `%s`" % (st, sorted(exprs), lv(strip_casts(cfg.resolve(rhs))) if rhs is not None else "?")
        covered |= exprs
    missing = set()
    for st in statics - set(keys):
        for rhs, kind, nn in sdef.get(st, []):
            if rhs is None:
                continue
            for p in _paths(rhs, cfg, f, locals_def):
                if not any(p == q or p.startswith(q + ".") or p.startswith(q + "->") or p.startswith(q + "[") for q in covered):
                    missing.add(p)
    if missing:
        return False, ("the memo is keyed on %s only, but the remembered value also depends on %s: a call that differs in just that gets the "
                       "answer computed for the previous one" % (", ".join(sorted(covered)), ", ".join(sorted(missing))))
    return True, "memo keyed on every argument its value depends on (%s)" % ", ".join(sorted(covered))


def lazy_constant(prog, f, name):
    """A static that is written only under a guard over the function's own statics, from values that depend on no argument, by code
    that hands no argument to anybody, is a lazily computed process constant (the DTSTAMP line of send_ical_hdr): whatever task the
    first call was made for, every call sees the same value.  Returns (ok, why)."""
    from ..facts import walk, strip_casts, lv, writes, calls
    from ..flow import edge_dominates
    cfg = f.cfg
    statics = {l["n"] for l in f.locals if l.get("static")}
    locals_def = {}
    for b, i, x, line in cfg.all_elems():
        if isinstance(x, dict):
            for l, kind, nn in writes(x):
                rhs = nn.get("init") if kind == "decl" else (nn.get("r") if nn.get("k") == "bin" else None)
                if strip_casts(l).get("k") == "ref" and rhs is not None and lv(l) not in statics:
                    locals_def.setdefault(lv(l), []).append(rhs)

    def mentions_static(x):
        return {q["n"] for q in walk(x) if q.get("k") == "ref" and q.get("dk") == "slocal" and q.get("n") in statics}

    def readonly_param(c, k):
        fn = c.get("fn")
        for g in prog.functions.get(fn, []) if fn else []:
            if k < len(g.params):
                t = g.params[k].get("t") or ""
                return t.startswith("const ") and "*" in t
        return False
    sites = []      # (block, line, values written)
    for b, i, x, line in cfg.all_elems():
        if not isinstance(x, dict):
            continue
        for l, kind, nn in writes(x):
            if kind == "decl":
                continue
            if lv(l).split("[")[0].split(".")[0] in statics:
                vals = [nn["r"]] if nn.get("k") == "bin" else []
                tl = strip_casts(l)
                if tl.get("k") == "idx":
                    vals.append(tl["i"])
                sites.append((b, line, vals))
        if x.get("k") == "call":
            for k, a in enumerate(x.get("a", [])):
                a_ = strip_casts(cfg.resolve(a))
                passes_object = any(q.get("k") == "ref" and q.get("dk") == "slocal" and q.get("n") in statics and (
                    "[" in (q.get("t") or "") or a_.get("k") == "un" and a_.get("op") == "&") for q in walk(a_))
                if passes_object and not readonly_param(x, k):
                    sites.append((b, line, [o for j, o in enumerate(x["a"]) if j != k]))
    if not sites:
        return False, "no write found"
    guards = []
    for b in cfg.blocks:
        c = cfg.cond(b)
        if c is None:
            continue
        refs = [q for q in walk(c) if q.get("k") == "ref"]
        if refs and all(q.get("dk") == "slocal" and q.get("n") in statics for q in refs):
            for si, s_ in enumerate(cfg.blocks[b].succs):
                if s_ is not None and si not in cfg.blocks[b].dead:
                    guards.append((b, si, s_))
    region = None
    for gb, si, s_ in guards:
        if all(edge_dominates(cfg, gb, si, sb) for sb, line, vals in sites):
            region = {bb for bb in cfg.blocks if edge_dominates(cfg, gb, si, bb)}
            break
    if region is None:
        return False, "it is written outside any guard over the function's own statics"
    for sb, line, vals in sites:
        for v in vals:
            ps = _paths(v, cfg, f, locals_def)
            if ps:
                return False, "what is stored at line %s depends on %s" % (line, ", ".join(sorted(ps)))
    for b, i, x, line in cfg.all_elems():
        if b in region and isinstance(x, dict) and x.get("k") == "call":
            for a in x.get("a", []):
                ps = _paths(a, cfg, f, locals_def)
                if ps:
                    return False, "the guarded region hands %s to %s() at line %s" % (", ".join(sorted(ps)), x.get("fn"), line)
    return True, "lazily computed process constant: written only under a guard over the function's own statics, from values that depend on no argument"


def _discharge(prog, f, name):
    ok, why = memo_key_complete(f, name)
    if ok:
        return ok, why
    ok2, why2 = lazy_constant(prog, f, name)
    if ok2:
        return ok2, why2
    return False, why


def no_carried_state(prog, rep, rid, scope):
    from ..props import c12
    files, only = SCOPES[scope]
    if only:
        only = {fl: ({f.name for f in prog.fns_in(fl) if f.name.startswith(sel)} if isinstance(sel, str) else sel) for fl, sel in only.items()}
    nfn = nstat = 0
    for file in files:
        for f in prog.fns_in(file):
            if not f.cfg or f.file != file or (only and file in only and f.name not in only[file]):
                continue
            nfn += 1
            nstat += sum(1 for l in f.locals if l.get("static"))
    if not nfn:
        raise AnalysisBroken("%s: no function in scope %s" % (rid, scope))
    n = c12.r12_3(prog, rep, files=files, rid=rid, need_init=False, only=only, exceptions=EXCEPTIONS, discharge=lambda f_, name_: _discharge(prog, f_, name_))
    rep.ok(rid, "scope/%s" % scope, "src/" + files[0], "%d functions scanned, %d function-local statics, %d of them written by their function" % (nfn, nstat, n),
           nontrivial=False)
