"""Child-watcher rule shared by C12 (echsd) and C13 (echsx): a libev child watcher whose callback treats every invocation as
"the child is gone" must be registered for termination only (trace == 0).  With trace != 0 libev also reports stopped/continued
children (waitpid WUNTRACED|WCONTINUED) and a mere SIGSTOP would be booked as the end of the job."""
from ..facts import walk, strip_casts, lv, show, writes
from ..q import const_eval


def _handles_stop(f):
    """Does the callback look at the stop/continue encodings of the wait status (WIFSTOPPED: (s & 0xff) == 0x7f, WIFCONTINUED: s == 0xffff)?"""
    for b, i, x, line in f.cfg.all_elems():
        for n in walk(f.cfg.resolve(x)):
            if n.get("k") == "bin" and n["op"] in ("==", "!="):
                for side in (n["l"], n["r"]):
                    if const_eval(None, side) in (0x7f, 0xffff):
                        return True
    return False


def child_watchers(prog, rep, rid, unit, minimum=1):
    n = 0
    for f in prog.fns_in(unit):
        if not f.cfg:
            continue
        cbs = {}
        for b, i, x, line in f.cfg.all_elems():
            for l, kind, nn in writes(x):
                l_ = strip_casts(l)
                if l_.get("k") == "mem" and "ev_child" in (l_.get("rec") or "") and l_["f"] == "cb" and nn.get("k") == "bin":
                    for r in walk(f.cfg.resolve(nn["r"])):
                        if r.get("k") == "ref" and r.get("dk") in ("fn", "func", "function"):
                            cbs[show(l_["b"])] = r["n"]
        for b, i, x, line in f.cfg.all_elems():
            for l, kind, nn in writes(x):
                l_ = strip_casts(l)
                if l_.get("k") != "mem" or "ev_child" not in (l_.get("rec") or ""):
                    continue
                if l_["f"] != "flags" or nn.get("k") != "bin":
                    continue
                cb = cbs.get(show(l_["b"]))
                n += 1
                key = "%s/child-watcher(%s)" % (f.name, cb or "?")
                v = const_eval(None, f.cfg.resolve(nn["r"]))
                if v == 0:
                    rep.ok(rid, key, f.loc(nn.get("line", line)), "registered with trace = 0: %s only runs when the child has terminated" % (cb or "the callback"))
                    continue
                cbf = prog.fn(cb, unit) if cb and prog.has_fn(cb, unit) else None
                if cbf is not None and cbf.cfg and _handles_stop(cbf):
                    rep.ok(rid, key, f.loc(nn.get("line", line)), "trace = %s and %s tells stopped/continued from terminated" % (v, cb))
                else:
                    rep.fail(rid, key, f.loc(nn.get("line", line)),
                             "the child watcher is registered with trace = %s, so libev also reports a stopped or continued child, but %s treats every "
                             "invocation as termination (it never looks at WIFSTOPPED/WIFCONTINUED): a SIGSTOP of the job is recorded as its end" % (
                                 show(nn["r"]) if v is None else v, cb or "the callback"))
    if n < minimum:
        rep.broken_("rule=%s expected >=%d child watcher registrations in %s, found %d" % (rid, minimum, unit, n))
