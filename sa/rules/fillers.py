"""Rules over the seven RRULE fillers of evrrul.c (shared by C01, C09, C16, C17)."""
from ..facts import strip_casts, lv, show, walk, writes, is_int, int_value, strip, calls
from ..flow import MustFacts, rel_facts
from ..snapshot import AnalysisBroken

FILLER_FILE = "evrrul.c"


def fillers(prog):
    """The occurrence-cache fillers: non-static functions of evrrul.c whose
    first parameter is a writable `echs_instant_t *` and second a `size_t`
    capacity, returning size_t."""
    out = []
    for f in prog.fns_in(FILLER_FILE):
        if f.static or len(f.params) < 3 or not f.cfg:
            continue
        p0, p1 = f.params[0], f.params[1]
        if "echs_instant_t *" in p0["t"] and "const" not in p0["t"] and p1["t"] == "size_t" and f.ret.get("t") == "size_t":
            out.append(f)
    return out


def tgt_stores(f):
    """Stores through the cache pointer parameter: yield (b, i, idxnode, elem, line)."""
    tgt = f.params[0]["n"]
    for b, i, x, line in f.cfg.all_elems():
        for l, kind, n in writes(x):
            # l is the modified lvalue: tgt[...]  or tgt[...].field
            base = l
            while isinstance(base, dict) and base.get("k") == "mem":
                base = strip_casts(base["b"])
            if isinstance(base, dict) and base.get("k") == "idx":
                r = strip_casts(base["b"])
                if isinstance(r, dict) and r.get("k") == "ref" and r["n"] == tgt:
                    yield b, i, base, x, n.get("line", line)
            elif isinstance(base, dict) and base.get("k") == "un" and base["op"] == "*":
                r = strip_casts(base["e"])
                if tgt in [q["n"] for q in walk(r) if q.get("k") == "ref"]:
                    yield b, i, base, x, n.get("line", line)


def index_var(idx):
    """(var_text, offset_const|None, postinc) of an index expression `v`, `v++`, `v + C`."""
    e = strip_casts(idx)
    if e.get("k") == "un" and e["op"] in ("post++",):
        return lv(e["e"]), 0, True
    if e.get("k") == "bin" and e["op"] == "+":
        c = int_value(e["r"])
        if c is not None:
            return lv(e["l"]), c, False
        c = int_value(e["l"])
        if c is not None:
            return lv(e["r"]), c, False
    if e.get("k") in ("ref", "mem"):
        return lv(e), 0, False
    return None, None, False


def r09_1(prog, rep, rid="R09.1"):
    """Bounded occurrence-cache writes: at every store through the cache
    pointer the must-fact `index < capacity` holds on all paths."""
    fl = fillers(prog)
    for f in fl:
        cap = f.params[1]["n"]
        mf = MustFacts(f.cfg)
        seen = {}
        for b, i, idx, x, line in tgt_stores(f):
            if idx.get("k") != "idx":
                rep.fail(rid, "%s/store %s" % (f.name, show(idx)), f.loc(line),
                         "store through the cache pointer in a form the rule cannot bound", show(x))
                continue
            var, off, post = index_var(idx["i"])
            text = "tgt[%s]" % show(idx["i"])
            n = seen.get(text, 0)
            seen[text] = n + 1
            key = "%s/store %s#%d" % (f.name, text, n)
            if var is None:
                rep.fail(rid, key, f.loc(line), "index %s is not of the form v, v++ or v + C" % show(idx["i"]), show(x))
                continue
            facts = mf.at(b, i)
            if facts is None:
                rep.ok(rid, key, f.loc(line), "unreachable store", nontrivial=False)
                continue
            # the element itself must not modify the index variable before the store
            # except through the post-increment inside this very index
            other_mod = False
            for l, kind, n2 in writes(x):
                if lv(l) == var and not (post and n2 is strip_casts(idx["i"])):
                    other_mod = True
            if ("lt", var, cap) in facts and not other_mod:
                rep.ok(rid, key, f.loc(line), "`%s < %s` holds on every path to the store" % (var, cap))
            else:
                rep.fail(rid, key, f.loc(line),
                         "cache store %s is reachable on a path where `%s < %s` was not re-established "
                         "(facts at the store: %s)" % (text, var, cap, sorted(facts)),
                         {"function": f.name, "element": show(x), "block": b})
    return len(fl)
