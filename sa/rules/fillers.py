"""Rules over the seven RRULE fillers of evrrul.c (shared by C01, C09, C16, C17)."""
from ..facts import strip_casts, lv, show, walk, writes, is_int, int_value, strip, calls
from ..flow import MustFacts, rel_facts
from ..q import call_sites
from ..snapshot import AnalysisBroken

FILLER_FILE = "evrrul.c"


def fillers(prog):
    """The occurrence-cache fillers: non-static functions of evrrul.c whose
    first parameter is a writable `echs_instant_t *` and second a `size_t`
    capacity, returning size_t."""
    out = []
    for f in prog.fns_in(FILLER_FILE):
        if f.static or len(f.params) < 3 or not f.cfg:
            continue
        p0, p1 = f.params[0], f.params[1]
        if "echs_instant_t *" in p0["t"] and "const" not in p0["t"] and p1["t"] == "size_t" and f.ret.get("t") == "size_t":
            out.append(f)
    return out


def tgt_stores(f):
    """Stores through the cache pointer parameter: yield (b, i, idxnode, elem, line)."""
    tgt = f.params[0]["n"]
    for b, i, x, line in f.cfg.all_elems():
        for l, kind, n in writes(x):
            # l is the modified lvalue: tgt[...]  or tgt[...].field
            base = l
            while isinstance(base, dict) and base.get("k") == "mem":
                base = strip_casts(base["b"])
            if isinstance(base, dict) and base.get("k") == "idx":
                r = strip_casts(base["b"])
                if isinstance(r, dict) and r.get("k") == "ref" and r["n"] == tgt:
                    yield b, i, base, x, n.get("line", line)
            elif isinstance(base, dict) and base.get("k") == "un" and base["op"] == "*":
                r = strip_casts(base["e"])
                if tgt in [q["n"] for q in walk(r) if q.get("k") == "ref"]:
                    yield b, i, base, x, n.get("line", line)


def index_var(idx):
    """(var_text, offset_const|None, postinc) of an index expression `v`, `v++`, `v + C`."""
    e = strip_casts(idx)
    if e.get("k") == "un" and e["op"] in ("post++",):
        return lv(e["e"]), 0, True
    if e.get("k") == "bin" and e["op"] == "+":
        c = int_value(e["r"])
        if c is not None:
            return lv(e["l"]), c, False
        c = int_value(e["l"])
        if c is not None:
            return lv(e["r"]), c, False
    if e.get("k") in ("ref", "mem"):
        return lv(e), 0, False
    return None, None, False


def r09_1(prog, rep, rid="R09.1"):
    """Bounded occurrence-cache writes: at every store through the cache
    pointer the must-fact `index < capacity` holds on all paths."""
    fl = fillers(prog)
    for f in fl:
        cap = f.params[1]["n"]
        mf = MustFacts(f.cfg)
        seen = {}
        for b, i, idx, x, line in tgt_stores(f):
            if idx.get("k") != "idx":
                rep.fail(rid, "%s/store %s" % (f.name, show(idx)), f.loc(line),
                         "store through the cache pointer in a form the rule cannot bound", show(x))
                continue
            var, off, post = index_var(idx["i"])
            text = "tgt[%s]" % show(idx["i"])
            n = seen.get(text, 0)
            seen[text] = n + 1
            key = "%s/store %s#%d" % (f.name, text, n)
            if var is None:
                rep.fail(rid, key, f.loc(line), "index %s is not of the form v, v++ or v + C" % show(idx["i"]), show(x))
                continue
            facts = mf.at(b, i)
            if facts is None:
                rep.ok(rid, key, f.loc(line), "unreachable store", nontrivial=False)
                continue
            # the element itself must not modify the index variable before the store
            # except through the post-increment inside this very index
            other_mod = False
            for l, kind, n2 in writes(x):
                if lv(l) == var and not (post and n2 is strip_casts(idx["i"])):
                    other_mod = True
            if ("lt", var, cap) in facts and not other_mod:
                rep.ok(rid, key, f.loc(line), "`%s < %s` holds on every path to the store" % (var, cap))
            else:
                rep.fail(rid, key, f.loc(line),
                         "cache store %s is reachable on a path where `%s < %s` was not re-established "
                         "(facts at the store: %s)" % (text, var, cap, sorted(facts)),
                         {"function": f.name, "element": show(x), "block": b})
    return len(fl)


# ---------------------------------------------------------------------------
# R09.2 callers honour the filler contract

def filler_offset(prog, f, seen=None):
    """Largest constant offset C of stores tgt[res + C] in filler f (through delegation to other fillers)."""
    seen = seen or set()
    if f.name in seen:
        return 0
    seen.add(f.name)
    off = 0
    for b, i, idx, x, line in tgt_stores(f):
        if idx.get("k") == "idx":
            var, o, post = index_var(idx["i"])
            if o:
                off = max(off, o)
    names = {g.name for g in fillers(prog)}
    for b, i, c, line in f.all_calls():
        if c.get("fn") in names and c["fn"] != f.name:
            off = max(off, filler_offset(prog, prog.fn(c["fn"], FILLER_FILE), seen))
    return off


def _array_extent(prog, f, expr, depth=0):
    """Number of elements of the array an argument expression denotes, or None (pointer/parameter).  A local pointer with a single
    definition (`echs_instant_t *const cch = strm->cch`) denotes what it was defined from."""
    e = strip_casts(f.cfg.resolve(expr))
    if e.get("k") == "ref" and e.get("dk") in ("local", "slocal") and depth < 3:
        own = [l.get("extent") for l in f.locals if l["n"] == e["n"]]
        if own and own[0] is None:
            from ..facts import writes
            srcs = []
            for b_, i_, x_, line_ in f.cfg.all_elems():
                if isinstance(x_, dict):
                    for l_, kind, nn in writes(x_):
                        if lv(l_) == e["n"]:
                            srcs.append(nn.get("init") if kind == "decl" else (nn.get("r") if nn.get("k") == "bin" and nn["op"] == "=" else None))
            if len(srcs) == 1 and srcs[0] is not None:
                return _array_extent(prog, f, srcs[0], depth + 1)
    if e.get("k") == "mem":
        rec = e.get("rec")
        if rec:
            try:
                r = prog.record(rec)
            except AnalysisBroken:
                return None
            for fld in r["fields"]:
                if fld["n"] == e["f"]:
                    return fld.get("extent")
        return None
    if e.get("k") == "ref":
        if e.get("dk") in ("local", "slocal"):
            for l in f.locals:
                if l["n"] == e["n"]:
                    return l.get("extent")
        if e.get("dk") == "param":
            return "param"
    return None


def r09_2(prog, rep, rid="R09.2"):
    from ..q import const_eval
    names = {g.name: g for g in fillers(prog)}
    n = 0
    for f in prog.all_fns():
        if not f.cfg:
            continue
        for b, i, c, line in f.all_calls():
            if c.get("fn") not in names:
                continue
            n += 1
            g = names[c["fn"]]
            off = filler_offset(prog, g)
            ext = _array_extent(prog, f, c["a"][0])
            key = "%s/%s(%s)" % (f.name, c["fn"], lv(f.cfg.resolve(c["a"][0])))
            if ext == "param":
                # delegation: the callee must not need more room than this filler promises to its own callers
                own = filler_offset(prog, f) if f.name in names else None
                if own is not None and off <= own and lv(f.cfg.resolve(c["a"][1])) == f.params[1]["n"]:
                    rep.ok(rid, key, f.loc(line), "delegation passes (tgt, nti) through; callee offset %d <= own offset %d" % (off, own))
                else:
                    rep.fail(rid, key, f.loc(line), "delegating call passes a parameter array to a filler that writes %d entries beyond nti" % off)
                continue
            nti = const_eval(f, f.cfg.resolve(c["a"][1]))
            if ext is None or nti is None:
                rep.fail(rid, key, f.loc(line), "cannot determine array extent (%s) or requested count (%s)" % (ext, nti))
                continue
            if nti + off <= ext:
                rep.ok(rid, key, f.loc(line), "array of %d entries, %d requested, filler writes up to index nti-1+%d" % (ext, nti, off))
            else:
                rep.fail(rid, key, f.loc(line),
                         "%s is asked for %d results in an array of %d entries but also writes group stamps at tgt[res + %d]: indices up to %d are written" % (
                             c["fn"], nti, ext, off, nti - 1 + off))
    if n < 9:
        rep.broken_("rule=%s expected >=9 filler call sites, found %d" % (rid, n))


# ---------------------------------------------------------------------------
# R09.3 no fruitless cycle without fuel

R09_3_SCOPE = (("evrrul.c", None), ("evical.c", ("refill", "next_evrrul", "_ical_pull", "_ical_proc", "esccpy")),
               ("bitint.h", None), ("bitint.c", None), ("bitint-bobs.c", None))
# accepted exception, confirmed by reading (DESIGN C09/R09.3)
R09_3_EXCEPTIONS = {
    "rrul_fill_wly": "weekly stepping against BYMONTH only: every non-empty month set is eventually met by +7n day steps, and an empty set "
                     "admits all months; no other filter is on the cycle",
}


def r09_3(prog, rep, rid="R09.3"):
    from ..loops import analyse_loop, loop_key
    nloops = 0
    for file, only in R09_3_SCOPE:
        for f in prog.fns_in(file):
            if not f.cfg or (only and f.name not in only):
                continue
            loops = f.cfg.natural_loops()
            seen = {}
            for h, blks in sorted(loops.items(), reverse=True):
                nloops += 1
                k0 = loop_key(f, h, blks)
                cnt = seen.get(k0, 0)
                seen[k0] = cnt + 1
                key = k0 if cnt == 0 else "%s#%d" % (k0, cnt)
                res = analyse_loop(f, h, blks)
                line = f.cfg.blocks[h].elems[-1].get("line") if f.cfg.blocks[h].elems else f.line
                if res is None:
                    rep.ok(rid, key, f.loc(line), "every cycle modifies something one of its exit tests reads", nontrivial=True)
                    continue
                # the main subtractive loop of a filler?
                if f.name in R09_3_EXCEPTIONS and _is_main_loop(f, h):
                    rep.note(rid, key, f.loc(line), "listed exception: " + R09_3_EXCEPTIONS[f.name])
                    continue
                cyc = " -> ".join("B%d" % b for b in res["cycle"][:12])
                lines = sorted({f.cfg.blocks[b].elems[0].get("line") for b in res["cycle"] if f.cfg.blocks[b].elems and f.cfg.blocks[b].elems[0].get("line")})
                rep.fail(rid, key, f.loc(line),
                         "loop has a fruitless cycle (%s; lines %s..%s): the exit tests on it read %s, none of which is modified on the cycle, and it carries no "
                         "fuel counter; a filter that never passes (incongruent INTERVAL/BYxxx) spins forever" % (
                             cyc, lines[0] if lines else "?", lines[-1] if lines else "?",
                             sorted(set().union(*res["test_reads"].values())) if res["test_reads"] else "nothing"),
                         res)
    if nloops < 60:
        rep.broken_("rule=%s expected >=60 loops in scope, found %d" % (rid, nloops))
    return nloops


def _is_main_loop(f, h):
    """The outermost loop of a filler whose header tests res < nti."""
    c = f.cfg.cond(h)
    if c is None:
        return False
    from ..flow import cond_atoms
    cap = f.params[1]["n"] if len(f.params) > 1 else None
    return any(len(a) == 5 and a[0] == "<" and a[2] == cap for a in cond_atoms(c, True))


# ---------------------------------------------------------------------------
# R09.4 time-of-day enumeration capacity

def r09_4(prog, rep, rid="R09.4"):
    from ..rules import bitint
    from ..flow import MustFacts
    rec = prog.record("enum_s", "evrrul.c")
    ext = {f["n"]: f.get("extent") for f in rec["fields"]}
    sf = prog.fn("snarf_rrule", "evical.c")
    mf = MustFacts(sf.cfg)
    admitted = {}
    for b, i, c, line in sf.all_calls():
        if c.get("fn") in ("ass_bui31", "ass_bui63"):
            tgt = lv(strip_casts(sf.cfg.resolve(c["a"][0])))
            val = strip_casts(sf.cfg.resolve(c["a"][1]))
            lo, hi, nz = bitint.arg_interval(sf, mf, b, i, lv(val))
            lo = (1 if nz else 0) if lo is None else lo
            if hi is not None:
                admitted[tgt.split(".")[-1]] = (lo, hi)
    me = prog.fn("make_enum", "evrrul.c")
    # which rr field fills which array, and is there an index guard?
    fills = {}
    for h, blks in me.cfg.natural_loops().items():
        src = None
        c = me.cfg.cond(h)
        for nn in walk(c or {}):
            if nn.get("k") == "call" and nn.get("fn", "").endswith("_next"):
                src = lv(strip_casts(nn["a"][1])).split("->")[-1]
        for b in blks:
            for e in me.cfg.blocks[b].elems:
                for l, kind, n in writes(e["x"]):
                    l_ = strip_casts(l)
                    if l_.get("k") == "idx" and "->" in lv(l_["b"]):
                        arr = lv(l_["b"]).split("->")[-1]
                        guarded = False
                        cc = me.cfg.cond(h)
                        from ..flow import cond_atoms
                        for a in cond_atoms(cc, True) if cc is not None else []:
                            if len(a) == 5 and a[0] == "<" and a[1] == lv(strip_casts(l_["i"]).get("e", l_["i"])):
                                guarded = True
                        fills[arr] = (src, guarded)
    for arr in ("H", "M", "S"):
        if arr not in fills or arr not in admitted or not ext.get(arr):
            rep.fail(rid, "enum_s/%s" % arr, me.loc(), "cannot pair enum_s.%s with its source container and the parser guard (%s, %s, %s)" % (
                arr, fills.get(arr), admitted.get(arr), ext.get(arr)))
            continue
        src, guarded = fills[arr]
        lo, hi = admitted[src] if src in admitted else admitted[arr]
        need = hi - lo + 1
        key = "enum_s/%s" % arr
        if guarded or need <= ext[arr]:
            rep.ok(rid, key, me.loc(), "enum_s.%s[%d] holds the %d distinct values (%d..%d) the parser admits for BY%s%s" % (
                arr, ext[arr], need, lo, hi, {"H": "HOUR", "M": "MINUTE", "S": "SECOND"}[arr], " (index guarded)" if guarded else ""))
        else:
            rep.fail(rid, key, me.loc(),
                     "struct enum_s has %s[%d] but the parser admits %d distinct values (%d..%d) and make_enum has no index guard: a full list writes past the array" % (
                         arr, ext[arr], need, lo, hi))


# ---------------------------------------------------------------------------
# R09.5 zero divisors

def may_return_zero(prog, name, depth=0):
    """Does function `name` have a path returning the constant 0 (directly or by returning a callee that may)?"""
    if depth > 3 or not prog.functions.get(name):
        return False
    f = prog.functions[name][0]
    if not f.cfg:
        return False
    from ..q import const_eval
    for b, i, x, line in f.cfg.all_elems():
        if isinstance(x, dict) and x.get("k") == "ret" and x.get("e") is not None:
            e = strip_casts(f.cfg.resolve(x["e"]))
            if const_eval(f, e) == 0:
                return True
            if e.get("k") == "call" and e.get("fn") and may_return_zero(prog, e["fn"], depth + 1):
                return True
    return False


def r09_5(prog, rep, rid="R09.5"):
    from ..flow import MustFacts, cond_atoms
    n = 0
    for f in prog.fns_in(FILLER_FILE):
        if not f.cfg:
            continue
        cfg = f.cfg
        # variables assigned from a may-return-zero function
        zvars = {}
        for b, i, x, line in cfg.all_elems():
            for l, kind, nn in writes(x):
                rhs = nn.get("init") if kind == "decl" else (nn.get("r") if nn.get("k") == "bin" and nn["op"] == "=" else None)
                if rhs is None:
                    continue
                r = strip_casts(cfg.resolve(rhs))
                if r.get("k") == "call" and r.get("fn") and may_return_zero(prog, r["fn"]):
                    zvars.setdefault(lv(l), set()).add(r["fn"])
                elif r.get("k") == "ref" and r["n"] in zvars:
                    zvars.setdefault(lv(l), set()).update(zvars[r["n"]])
        if not zvars:
            continue

        def gen(c, truth):
            out = set()
            for a in cond_atoms(c, truth):
                if len(a) == 3 and a[0] == "true" and a[1] in zvars:
                    out.add(("nz", a[1]))
                if len(a) == 5 and a[0] == "!=" and a[1] in zvars and a[2] == "0":
                    out.add(("nz", a[1]))
                if len(a) == 5 and a[0] in ("<", "<=") and a[2] in zvars and a[1].isdigit() and int(a[1]) >= (0 if a[0] == "<" else 1):
                    out.add(("nz", a[2]))
            return out

        def kills(x):
            return {lv(l) for l, kind, nn in writes(x)}
        mf = MustFacts(cfg, gen=gen, kills=kills)
        seen = {}
        for b, i, x, line in cfg.all_elems():
            for nn in walk(x):
                if nn.get("k") == "bin" and nn["op"] in ("%", "/", "%=", "/="):
                    d = lv(strip_casts(nn["r"]))
                    if d in zvars:
                        n += 1
                        k0 = "%s/%s %s" % (f.name, nn["op"], d)
                        cnt = seen.get(k0, 0)
                        seen[k0] = cnt + 1
                        key = k0 if cnt == 0 else "%s#%d" % (k0, cnt)
                        facts = mf.at(b, i) or set()
                        if ("nz", d) in facts:
                            rep.ok(rid, key, f.loc(nn.get("line", line)), "divisor %s (from %s, which can return 0) is tested non-zero on every path" % (d, "/".join(sorted(zvars[d]))))
                        else:
                            rep.fail(rid, key, f.loc(nn.get("line", line)),
                                     "`%s` divides by %s = %s(...), which returns 0 for months outside a table-based calendar's coverage, without a non-zero test: SIGFPE" % (
                                         show(nn)[:50], d, "/".join(sorted(zvars[d]))))
    if n < 3:
        rep.broken_("rule=%s expected >=3 divisions by a month length, found %d" % (rid, n))


# ---------------------------------------------------------------------------
# R09.6 shift amounts in the fillers' masks

def r09_6(prog, rep, rid="R09.6"):
    """Every `1U << e` / `1ULL << e` in evrrul.c whose operand is a container iterator value or a calendar field has max(e) below the
    width of the shifted type, using the container domains admitted by the parser (R19.1) and the calendar field ranges."""
    from ..rules import bitint
    from ..flow import MustFacts
    # admitted maxima per rr field from the parser
    sf = prog.fn("snarf_rrule", "evical.c")
    mf = MustFacts(sf.cfg)
    adm = {}
    for b, i, c, line in sf.all_calls():
        if c.get("fn") in bitint.ASS:
            tgt = lv(strip_casts(sf.cfg.resolve(c["a"][0]))).lstrip("&").split(".")[-1]
            val = strip_casts(sf.cfg.resolve(c["a"][1]))
            if val.get("k") == "call":
                continue
            lo, hi, nz = bitint.arg_interval(sf, mf, b, i, lv(val))
            if hi is not None:
                adm[tgt] = max(abs(hi), abs(lo or 0))
    n = 0
    for f in prog.fns_in(FILLER_FILE):
        if not f.cfg or not f.name.startswith("rrul_fill_"):
            continue
        cfg = f.cfg
        # loop variable -> source rr field
        srcs = {}
        for h, blks in cfg.natural_loops().items():
            c = cfg.cond(h)
            for nn in walk(c or {}):
                if nn.get("k") == "bin" and nn["op"] == "=" and strip_casts(nn["r"]).get("k") == "call" and strip_casts(nn["r"]).get("fn", "").endswith("_next"):
                    fld = lv(strip_casts(strip_casts(nn["r"])["a"][1])).lstrip("&").split("->")[-1]
                    srcs.setdefault(lv(nn["l"]), set()).add((fld, tuple(sorted(blks))))
        seen = {}
        for b, i, x, line in cfg.all_elems():
            for nn in walk(x):
                if nn.get("k") == "bin" and nn["op"] == "<<" and bitint.int_value(nn["l"]) == 1 and nn.get("w"):
                    amt = strip_casts(nn["r"])
                    v = None
                    if amt.get("k") == "ref" and amt["n"] in srcs:
                        flds = [fl for fl, blks in srcs[amt["n"]] if b in blks]
                        if flds and all(fl in adm for fl in flds):
                            v = max(adm[fl] for fl in flds)
                    if v is None:
                        continue
                    n += 1
                    k0 = "%s/1<<%s" % (f.name, amt["n"])
                    cnt = seen.get(k0, 0)
                    seen[k0] = cnt + 1
                    key = k0 if cnt == 0 else "%s#%d" % (k0, cnt)
                    if v < nn["w"]:
                        rep.ok(rid, key, f.loc(nn.get("line", line)), "shift amount <= %d < %d bits" % (v, nn["w"]), nontrivial=(cnt == 0))
                    else:
                        rep.fail(rid, key, f.loc(nn.get("line", line)), "1 << %s with %s up to %d in a %d-bit type: undefined shift" % (amt["n"], amt["n"], v, nn["w"]))
    if n < 8:
        rep.broken_("rule=%s expected >=8 mask shifts fed by container values, found %d" % (rid, n))


def r09_7(prog, rep, rid="R09.7"):
    """A day-of-year that was produced by adding a rule-supplied offset to a base day is range-checked on the upper side before it is handed
    to yd_to_md(), whose 14-entry remainder table is indexed by (doy + 19) / 32 and (doy + 19) / 32 + 1 (doy <= 396 at most)."""
    from ..flow import MustFacts
    n = 0
    for f in prog.fns_in("evrrul.c"):
        if not f.cfg:
            continue
        sites = call_sites(f, "yd_to_md")
        if not sites:
            continue
        cfg = f.cfg
        mf = None
        for S in sites:
            v = strip_casts(cfg.resolve(S.node["a"][1]))
            if v.get("k") != "ref":
                continue
            name = v["n"]
            summed = False
            for b, i, x, line in cfg.all_elems():
                for l, kind, nn in writes(cfg.resolve(x)):
                    if lv(l) != name:
                        continue
                    if nn.get("k") == "bin" and nn["op"] in ("+=", "-="):
                        summed = True
                    rhs = nn.get("init") if kind == "decl" else (nn.get("r") if nn.get("k") == "bin" and nn["op"] == "=" else None)
                    if rhs is not None and strip_casts(rhs).get("k") == "bin" and strip_casts(rhs)["op"] in ("+", "-"):
                        summed = True
            if not summed:
                continue
            n += 1
            if mf is None:
                mf = MustFacts(cfg)
            facts = mf.at(S.b, S.i) or set()
            key = "%s/yd_to_md(%s)" % (f.name, name)
            ub = [fx for fx in facts if fx[0] in ("le", "lt") and fx[1] == name and fx[2].lstrip("-").isdigit()]
            if ub and min(int(fx[2]) - (1 if fx[0] == "lt" else 0) for fx in ub) <= 396:
                rep.ok(rid, key, f.loc(S.line), "%s is bounded above (%s) on every path to the table lookup" % (name, ", ".join("%s %s" % (fx[0], fx[2]) for fx in ub)))
            else:
                rep.fail(rid, key, f.loc(S.line),
                         "%s is the sum of a base day and a rule-supplied offset but reaches yd_to_md() without an upper bound: for offsets that leave "
                         "the year the remainder table (14 entries) is indexed out of bounds and a month beyond 12 is put into the candidate set" % name)
    if n < 1:
        rep.broken_("rule=%s expected >=1 offset day-of-year handed to yd_to_md, found %d" % (rid, n))


# ---------------------------------------------------------------------------
# R01.6 the calendar cursor's month length belongs to the cursor's own month

NDIM_FNS = ("echs_scale_ndim", "__get_ndom", "__ndim_greg", "__ndim_hij", "__ndim_ht")


def _in_range(e, r):
    """e lies in the source range r — by its own position, or (an element of a helper that was spliced in) by the position of the
    call it replaces."""
    if not r:
        return False
    at = e.get("at")
    if at and at[0] is not None:
        return (r[0], r[1]) <= (at[0] or 0, at[1] or 0) <= (r[2], r[3])
    return (r[0], r[1]) <= (e.get("line") or 0, e.get("col") or 0) <= (r[2], r[3])


def main_loop_stmt(f, h):
    """The loop statement (source ranges of init/cond/inc/body, from the extractor) whose condition the header block h evaluates."""
    blk = f.cfg.blocks[h]
    if not blk.elems:
        return None
    he = blk.elems[-1]
    cand = [L for L in f.raw.get("loops", []) if L.get("cond") and _in_range(he, L["cond"])]
    if not cand:
        return None
    return sorted(cand, key=lambda L: (L["cond"][2] - L["cond"][0], L["cond"][3] - L["cond"][1]))[0]


def r01_6(prog, rep, rid="R01.6"):
    """The fillers walk the calendar with a cursor (y, m, d, ... and the length `maxd` of the cursor's month) that the main loop's step
    expression advances.  The day wrap `d > maxd` is right only while maxd is the length of month (y, m) of the *cursor*: every
    assignment of a month length to a cursor variable must be computed from cursor variables (an inner enumeration that runs ahead
    on copies this_y/this_m must keep its month length in a copy as well)."""
    n = 0
    for f in fillers(prog):
        cfg = f.cfg
        loops = cfg.natural_loops()
        mains = sorted((h for h in loops if _is_main_loop(f, h)), key=lambda h: -len(loops[h]))
        if not mains:
            continue
        h = mains[0]
        L = main_loop_stmt(f, h)
        cursor = set()
        if L is not None and L.get("inc"):
            for b in loops[h]:
                for e in cfg.blocks[b].elems:
                    if isinstance(e["x"], dict) and _in_range(e, L["inc"]):
                        for l, kind, nn in writes(e["x"]):
                            if kind != "decl" and strip_casts(l).get("k") == "ref":
                                cursor.add(lv(l))
        else:
            # the step is not a for-statement's increment (a `while` with the step at its end): the cursor is what the loop writes of
            # the variables that live outside it
            L = L or {}
            inner = {lv(l) for b in loops[h] for e in cfg.blocks[b].elems if isinstance(e["x"], dict) for l, kind, nn in writes(e["x"]) if kind == "decl"}
            for b in loops[h]:
                for e in cfg.blocks[b].elems:
                    if isinstance(e["x"], dict):
                        for l, kind, nn in writes(e["x"]):
                            if kind != "decl" and strip_casts(l).get("k") == "ref" and strip_casts(l).get("dk") == "local" and lv(l) not in inner:
                                cursor.add(lv(l))
        if not cursor:
            continue
        # scratch variables: locals written inside the loop body that are not part of the cursor
        for b in sorted(loops[h]):
            for i, e in enumerate(cfg.blocks[b].elems):
                x = e["x"]
                if not isinstance(x, dict):
                    continue
                for l, kind, nn in writes(x):
                    if kind == "decl" or lv(l) not in cursor:
                        continue
                    rhs = nn.get("r") if nn.get("k") == "bin" and nn["op"] == "=" else None
                    if rhs is None:
                        continue
                    r = strip_casts(cfg.resolve(rhs))
                    if not (r.get("k") == "call" and r.get("fn") in NDIM_FNS):
                        continue
                    n += 1
                    args = [strip_casts(cfg.resolve(a)) for a in r["a"]]
                    foreign = [lv(a) for a in args if a.get("k") == "ref" and a.get("dk") == "local" and lv(a) not in cursor
                               and any(lv(l2) == lv(a) and k2 != "decl" or (k2 == "decl" and lv(l2) == lv(a) and b2 in loops[h])
                                       for b2 in loops[h] for e2 in cfg.blocks[b2].elems if isinstance(e2["x"], dict) for l2, k2, n2 in writes(e2["x"]))]
                    key = "%s/%s=%s@%s" % (f.name, lv(l), r["fn"], "step" if L.get("inc") and _in_range(e, L["inc"]) else "body")
                    if foreign:
                        rep.fail(rid, key, f.loc(nn.get("line", e.get("line"))),
                                 "%s is part of the calendar cursor (advanced by the loop step together with %s) but is assigned the length of month (%s): "
                                 "a copy that runs ahead of the cursor; after an enumeration that spills into the next month the cursor wraps its day with "
                                 "the wrong month length and the whole series shifts" % (lv(l), ", ".join(sorted(cursor - {lv(l)})), ", ".join(lv(a) for a in args[1:])))
                    else:
                        rep.ok(rid, key, f.loc(nn.get("line", e.get("line"))), "%s = %s(%s): month length of the cursor's own month" % (
                            lv(l), r["fn"], ", ".join(lv(a) for a in args)))
    if n < 5:
        rep.broken_("rule=%s expected >=5 month-length assignments to cursor variables, found %d" % (rid, n))


# ---------------------------------------------------------------------------
# R01.7 range tests that lose the sign

def r01_7(prog, rep, rid="R01.7", files=("evrrul.c", "evical.c", "scale.c", "instant.c", "shift.c", "bitint.c", "bitint.h", "bitint-bobs.c")):
    """`U + d > 0` with U unsigned and d a (possibly negative) signed value is computed in unsigned arithmetic: a result that should be
    negative is a huge positive number and passes the test.  Every comparison of an additive expression with 0 must be carried out in a
    signed type whenever one of its non-constant operands is signed (the out-of-range case — a BYMONTHDAY=-30 in February — is exactly
    the one the test exists for)."""
    n = 0
    for file in files:
        for f in prog.fns_in(file):
            if not f.cfg or f.file != file:
                continue
            k = 0
            for b, i, x, line in f.cfg.all_elems():
                if not isinstance(x, dict):
                    continue
                for nn in walk(x):
                    if not (nn.get("k") == "bin" and nn["op"] in ("<", ">", "<=", ">=")):
                        continue
                    for side, other in (("l", "r"), ("r", "l")):
                        if int_value(nn[other]) != 0:
                            continue
                        core = strip_casts(nn[side])
                        if not (core.get("k") == "bin" and core["op"] in ("+", "-")):
                            continue
                        n += 1
                        k += 1
                        lost = []
                        if core.get("s") is False:
                            for q in walk(core):
                                if q.get("k") == "cast" and q.get("impl") and q.get("ck") == "IntegralCast" and (q.get("from") or {}).get("s") is True \
                                        and (q.get("to") or {}).get("s") is False and int_value(strip_casts(q["e"])) is None:
                                    lost.append(show(strip_casts(q["e"])))
                        key = "%s/range-test#%d" % (f.name, k)
                        if lost:
                            rep.fail(rid, key, f.loc(nn.get("line", line)), "`%s` is evaluated in unsigned arithmetic although %s is signed and may be negative: "
                                     "a sum below zero wraps to a huge value and passes, so the out-of-range case the test is there for is let through "
                                     "(a negative day-of-month beyond the month's length lands in the previous month)" % (show(nn)[:60], ", ".join(lost)))
                        else:
                            rep.ok(rid, key, f.loc(nn.get("line", line)), "`%s` compares in the type of its operands" % show(nn)[:60], nontrivial=(k == 1))
    if n < 2:
        rep.broken_("rule=%s expected >=2 comparisons of additive expressions with 0, found %d" % (rid, n))
    # second clause: a counter that is stepped back (`m -= k`, `--m`) and then asked whether it has dropped to or below zero — the
    # look-back of the monthly filler: `m -= months; y -= m <= 0; m += m > 0 ? 0 : 12` — must be signed: an unsigned one wraps to 2^32 - 1,
    # passes as positive, and indexes the month tables far outside
    m_ = 0
    for file in files:
        for f in prog.fns_in(file):
            if not f.cfg or f.file != file:
                continue
            subs = {}
            for b, i, x, line in f.cfg.all_elems():
                if not isinstance(x, dict):
                    continue
                for l, kind, nn in writes(x):
                    tl = strip_casts(l)
                    if tl.get("k") == "ref" and tl.get("dk") == "local" and (
                            (kind == "compound" and nn.get("op") == "-=" and int_value(strip_casts(nn["r"])) is None) or
                            (kind == "incdec" and "--" in nn.get("op", ""))):
                        subs[tl.get("id", tl["n"])] = tl["n"]
            seen = set()
            for b, i, x, line in f.cfg.all_elems():
                if not isinstance(x, dict):
                    continue
                for nn in walk(x):
                    if not (nn.get("k") == "bin" and nn["op"] in ("<", "<=") and int_value(strip_casts(nn["r"])) == 0):
                        continue
                    v = strip_casts(nn["l"])
                    if not (v.get("k") == "ref" and v.get("id", v.get("n")) in subs):
                        continue
                    key = "%s/stepped-back-counter(%s)" % (f.name, v["n"])
                    if key in seen:
                        continue
                    seen.add(key)
                    m_ += 1
                    t = (v.get("t") or "")
                    if t.startswith(("unsigned", "size_t", "uint")) or t in ("echs_wday_t",):
                        rep.fail(rid, key, f.loc(nn.get("line", line)), "`%s` asks whether %s has dropped to zero or below after it was stepped back, but %s is "
                                 "%s: stepping back past zero wraps to a huge value, the test fails and the value indexes the month tables "
                                 "far outside (a MONTHLY rule with a SHIFT of a month or more, expanded from January)" % (show(nn)[:40], v["n"], v["n"], t))
                    else:
                        rep.ok(rid, key, f.loc(nn.get("line", line)), "%s is signed (%s)" % (v["n"], t), nontrivial=(m_ == 1))
    if m_ < 2:
        rep.broken_("rule=%s expected >=2 stepped-back counters tested against 0 (shift(), rrul_fill_mly), found %d" % (rid, m_))


# ---------------------------------------------------------------------------
# R01.8 a mask duplicated for wrap-around is clamped to the width it was duplicated by

def r01_8(prog, rep, rid="R01.8"):
    """`v |= v << N; v >>= start; v &= C` is the idiom for reading a cyclic set of N positions from an arbitrary start: the copy shifted
    by N supplies the positions that wrap around.  The clamp must keep exactly N positions, C = 2^N - 1; one bit less and the position
    N-1 after the start (for the weekly filler: the weekday before DTSTART's) is silently dropped from the set."""
    n = 0
    for f in prog.fns_in(FILLER_FILE):
        if not f.cfg:
            continue
        cfg = f.cfg
        dups = []
        clamps = []
        for b, i, x, line in cfg.all_elems():
            if not isinstance(x, dict):
                continue
            for l, kind, nn in writes(x):
                if kind != "compound" or strip_casts(l).get("k") != "ref":
                    continue
                r = strip_casts(cfg.resolve(nn["r"]))
                if nn["op"] == "|=" and r.get("k") == "bin" and r["op"] == "<<" and lv(strip_casts(r["l"])) == lv(l) and int_value(r["r"]) is not None:
                    dups.append((lv(l), int_value(r["r"]), b, i, nn.get("line", line)))
                if nn["op"] == "&=" and int_value(r) is not None:
                    clamps.append((lv(l), int_value(r), b, i, nn.get("line", line)))
        # the same idiom written as one expression: ((v | (v << N)) >> start) & C
        for b, i, x, line in cfg.all_elems():
            if not isinstance(x, dict):
                continue
            for l, kind, nn in writes(x):
                rhs = nn.get("init") if kind == "decl" else (nn.get("r") if nn.get("k") == "bin" else None)
                if rhs is None or strip_casts(l).get("k") != "ref":
                    continue
                for q in walk(cfg.resolve(rhs)):
                    if not (q.get("k") == "bin" and q["op"] == "&"):
                        continue
                    for cside, oside in (("r", "l"), ("l", "r")):
                        C = int_value(q[cside])
                        if C is None:
                            continue
                        for o in walk(q[oside]):
                            if o.get("k") == "bin" and o["op"] == "|":
                                for a_, b_ in ((o["l"], o["r"]), (o["r"], o["l"])):
                                    b2_ = strip_casts(b_)
                                    if b2_.get("k") == "bin" and b2_["op"] == "<<" and int_value(b2_["r"]) is not None and \
                                            show(strip_casts(b2_["l"])) == show(strip_casts(a_)):
                                        N = int_value(b2_["r"])
                                        n += 1
                                        key = "%s/wrap-clamp(%s)" % (f.name, lv(l))
                                        if C == (1 << N) - 1:
                                            rep.ok(rid, key, f.loc(nn.get("line", line)), "%s is duplicated by %d positions and clamped to %d positions" % (lv(l), N, N))
                                        else:
                                            rep.fail(rid, key, f.loc(nn.get("line", line)), "%s is duplicated by %d positions for wrap-around but clamped with %#x, which keeps %d "
                                                     "positions: the position %d after the start is dropped from the cyclic set (for the weekly filler a BYDAY "
                                                     "naming the weekday before DTSTART's is ignored)" % (lv(l), N, C, bin(C).count("1"), N - 1))
        for v, N, b, i, line in dups:
            for v2, C, b2, i2, line2 in clamps:
                if v2 != v or not ((b2 == b and i2 > i) or (b2 != b and b2 in cfg.reach_from(b))):
                    continue
                n += 1
                key = "%s/wrap-clamp(%s)" % (f.name, v)
                if C == (1 << N) - 1:
                    rep.ok(rid, key, f.loc(line2), "%s is duplicated by %d positions and clamped to %d positions" % (v, N, N))
                else:
                    rep.fail(rid, key, f.loc(line2), "%s is duplicated by %d positions for wrap-around but clamped with %#x, which keeps %d positions: the position %d "
                             "after the start is dropped from the cyclic set (for the weekly filler a BYDAY naming the weekday before DTSTART's "
                             "is ignored)" % (v, N, C, bin(C).count("1"), N - 1))
    if n < 1:
        rep.broken_("rule=%s expected >=1 wrap-around mask in the fillers, found %d" % (rid, n))


# ---------------------------------------------------------------------------
# R01.9 cursor variables that are advanced together stay together

def r01_9(prog, rep, rid="R01.9"):
    """The sub-daily and daily fillers keep a running weekday (and day-of-year) next to the day of the month: the step expression of
    the main loop advances them by the same amount (`d += n, w += n[, yd += n]`), so that `w` is always the weekday of (y, m, d) without
    asking the calendar again.  A write to one member of such a set anywhere else in the loop must come with the same write to the
    others (a skip-ahead of `d` alone leaves every later BYDAY test on the wrong weekday)."""
    n = 0
    for f in fillers(prog):
        cfg = f.cfg
        loops = cfg.natural_loops()
        mains = sorted((h for h in loops if _is_main_loop(f, h)), key=lambda h: -len(loops[h]))
        if not mains:
            continue
        h = mains[0]
        L = main_loop_stmt(f, h)
        if L is None or not L.get("inc"):
            continue
        # co-advanced sets: variables of the step expression that receive the same increment
        by_inc = {}
        for b in loops[h]:
            for e in cfg.blocks[b].elems:
                if not (isinstance(e["x"], dict) and _in_range(e, L["inc"])):
                    continue
                for l, kind, nn in writes(e["x"]):
                    if kind == "compound" and nn.get("op") == "+=" and strip_casts(l).get("k") == "ref":
                        by_inc.setdefault(show(strip_casts(cfg.resolve(nn["r"]))), set()).add(lv(l))
        sets = [vs for vs in by_inc.values() if len(vs) >= 2]
        if not sets:
            continue
        group = set().union(*sets)
        n += 1
        bad = []
        for b in sorted(loops[h]):
            wr = {}
            for e in cfg.blocks[b].elems:
                if not isinstance(e["x"], dict) or _in_range(e, L["inc"]):
                    continue
                for l, kind, nn in writes(e["x"]):
                    if kind != "decl" and lv(l) in group:
                        wr.setdefault(lv(l), e.get("line"))
            if wr and set(wr) != group:
                # a lone write is fine only if it cannot change the value's relation to the others: none of that kind exists today
                bad.append((sorted(wr), sorted(group - set(wr)), min(v for v in wr.values() if v) if any(wr.values()) else None))
        key = "%s/co-advanced(%s)" % (f.name, ",".join(sorted(group)))
        if bad:
            w_, miss, line = bad[0]
            rep.fail(rid, key, f.loc(line), "%s %s advanced in the loop body without %s, although the step expression always moves them together: "
                     "the running %s no longer belongs to the date, every later weekday / day-of-year test is off" % (
                         ", ".join(w_), "is" if len(w_) == 1 else "are", ", ".join(miss), "/".join(miss)))
        else:
            rep.ok(rid, key, f.loc(), "%s are written only together (in the step expression)" % ", ".join(sorted(group)))
    if n < 3:
        rep.broken_("rule=%s expected >=3 fillers with co-advanced cursor variables, found %d" % (rid, n))


# ---------------------------------------------------------------------------
# R09.4b local arrays unrolled from a container hold every value the parser admits into it

def r09_4b(prog, rep, rid="R09.4"):
    """The yearly and monthly fillers unroll rr->dom / rr->mon into local arrays (`int d[2 * 31]`, `unsigned int m[12]`) with loops that are
    bounded by the number of wanted results, not by the array: the array must be as large as the number of distinct values the parser
    can have put into the container (62 = -31..31 without the 0 that the parser refuses; a parser that lets the 0 through makes it 63)."""
    from ..rules import bitint
    from ..flow import MustFacts, cond_atoms
    sf = prog.fn("snarf_rrule", "evical.c")
    mf = MustFacts(sf.cfg)
    admitted = {}
    for b, i, c, line in sf.all_calls():
        if c.get("fn") in ("ass_bui31", "ass_bui63", "ass_bi31", "ass_bi63"):
            tgt = lv(strip_casts(sf.cfg.resolve(c["a"][0]))).split(".")[-1].split("->")[-1]
            val = lv(strip_casts(sf.cfg.resolve(c["a"][1])))
            lo, hi, nz = bitint.arg_interval(sf, mf, b, i, val)
            if c["fn"].startswith("ass_bui") and lo is None:
                lo = 0
            if lo is None or hi is None:
                continue
            cnt = hi - lo + 1 - (1 if (nz and lo <= 0 <= hi) else 0)
            admitted[tgt] = max(admitted.get(tgt, 0), cnt)
    n = 0
    for f in fillers(prog):
        cfg = f.cfg
        arrays = {l_["n"]: l_.get("extent") for l_ in f.locals if l_.get("extent")}
        for h, blks in cfg.natural_loops().items():
            c = cfg.cond(h)
            if c is None:
                continue
            src = None
            for b in blks:      # a condition `k < n && (v = X_next(&it, rr->F), it)` is spread over several blocks
                for e in cfg.blocks[b].elems:
                    for nn in walk(e["x"]) if isinstance(e["x"], dict) else []:
                        if nn.get("k") == "call" and (nn.get("fn") or "").endswith("_next") and len(nn["a"]) > 1:
                            src = lv(strip_casts(f.expand(cfg.resolve(nn["a"][1])))).lstrip("&").split("->")[-1].split(".")[-1]
            if src is None:
                continue
            for b in blks:
                for e in cfg.blocks[b].elems:
                    if not isinstance(e["x"], dict):
                        continue
                    for l, kind, nn in writes(e["x"]):
                        l_ = strip_casts(l)
                        if l_.get("k") == "idx" and lv(l_["b"]) in arrays:
                            arr = lv(l_["b"])
                            iv, off, post = index_var(l_["i"])
                            guarded = any(len(a) == 5 and a[0] == "<" and a[1] == iv and (lambda v: v is not None and v <= arrays[arr])(int_value(a[4]))
                                          for a in cond_atoms(c, True))
                            if src not in admitted:
                                continue
                            n += 1
                            key = "%s/%s[] holds BY-list %s" % (f.name, arr, src)
                            if guarded or admitted[src] <= arrays[arr]:
                                rep.ok(rid, key, f.loc(e.get("line")), "%s[%d] holds the %d distinct values the parser admits into rr->%s" % (arr, arrays[arr], admitted[src], src))
                            else:
                                rep.fail(rid, key, f.loc(e.get("line")), "%s[%d] is filled from rr->%s without a bound on the index, and the parser admits %d distinct "
                                         "values into that container: a full list writes past the array" % (arr, arrays[arr], src, admitted[src]))
    if n < 2:
        rep.broken_("rule=%s expected >=2 unrolled BY-list arrays in the fillers, found %d" % (rid, n))


# ---------------------------------------------------------------------------
# R09.9 the all-weekdays default ignores the flag bit

def r09_9(prog, rep, rid="R09.9"):
    """Bit 0 of the fillers' weekday mask only says that BYDAY held *counted* weekdays (1MO, -1FR); bits 1..7 are the plain weekdays.  The
    subtractive fillers allow every weekday when no plain weekday was given: the test that guards `mask |= all weekdays` must look at
    bits 1..7 only, as its siblings do — a mask that carries only the flag and does not get the default rejects every day, and these
    loops have no fuel."""
    from ..flow import cond_atoms
    n = 0
    for f in fillers(prog):
        cfg = f.cfg
        for b, i, x, line in cfg.all_elems():
            if not isinstance(x, dict):
                continue
            for l, kind, nn in writes(x):
                if nn.get("k") == "bin" and nn["op"] in ("|=", "=") and int_value(nn["r"]) == 0xfe and strip_casts(l).get("k") == "ref":
                    v = lv(l)
                    ctl = None
                    for p_ in cfg.lpreds.get(b, []):
                        c = cfg.cond(p_)
                        if c is not None:
                            ctl = c
                    if ctl is None:
                        continue
                    n += 1
                    key = "%s/all-weekdays-default(%s)" % (f.name, v)
                    masked = any(q.get("k") == "bin" and ((q["op"] == ">>" and int_value(q["r"]) == 1) or (q["op"] == "&" and int_value(q["r"]) in (0xfe, 0xfffffffe)))
                                 and lv(strip_casts(q["l"])) == v for q in walk(ctl))
                    if masked:
                        rep.ok(rid, key, f.loc(nn.get("line", line)), "the default is applied when bits 1..7 of %s are clear, whatever the flag bit says" % v)
                    else:
                        rep.fail(rid, key, f.loc(nn.get("line", line)), "the all-weekdays default is guarded by `%s`, which also looks at bit 0 (the `counted weekdays` flag): "
                                 "a BYDAY of counted weekdays only leaves the mask without any weekday, every day is rejected and the filler never returns" % show(ctl)[:50])
    if n < 3:
        rep.broken_("rule=%s expected >=3 all-weekdays defaults in the fillers, found %d" % (rid, n))


# ---------------------------------------------------------------------------
# R09.10 the congruence check speaks about the month the skipping loop starts from

def r09_10(prog, rep, rid="R09.10"):
    """rrul_fill_mly() first checks that some BYMONTH month is congruent to the start month modulo INTERVAL and then walks `m += inter`
    until it hits one — a loop without fuel whose termination rests on that check.  No write to the month variable may lie between the
    check and the walk (the SHIFT pre-roll moves it)."""
    from ..q import forward_scan
    n = 0
    for f in fillers(prog):
        cfg = f.cfg
        loops = cfg.natural_loops()
        checks, walks = [], []
        for h, blks in loops.items():
            c = cfg.cond(h)
            if c is None:
                continue
            mods = [q for b in blks for cc in [cfg.cond(b)] if cc is not None for q in walk(cc)
                    if q.get("k") == "bin" and q["op"] == "%" and any(
                        r_.get("k") == "mem" and r_.get("f") == "inter" for r_ in walk(f.expand(q["r"])))]     # modulo the step, or something made from it
            if mods:
                mv = {r_["n"] for q in mods for r_ in walk(q["l"]) if r_.get("k") == "ref" and r_.get("dk") == "local"}
                checks.append((h, blks, mv))
            steps = set()
            for b in blks:
                for e in cfg.blocks[b].elems:
                    if isinstance(e["x"], dict):
                        for l, kind, nn in writes(e["x"]):
                            if kind == "compound" and nn.get("op") == "+=" and lv(strip_casts(cfg.resolve(nn["r"]))).endswith("->inter"):
                                steps.add(lv(l))
            if steps and any(q.get("k") == "call" and (q.get("fn") or "").endswith("has_bit_p") for q in walk(c)) and not _is_main_loop(f, h):
                walks.append((h, blks, steps))
        for ch, cblks, mv in checks:
            for wh, wblks, steps in walks:
                var = mv & steps
                if not var or wh == ch or wh not in cfg.reach_from(ch):
                    continue
                n += 1
                v = sorted(var)[0]
                # writes to v on a path from the check loop's exit to the walk's header
                exits = [s_ for b in cblks for s_ in cfg.blocks[b].live_succs() if s_ not in cblks]
                bad = []
                for ex in exits:
                    hits, _ = forward_scan(cfg, (ex, -1), lambda b_, i_, x_: ("stop" if b_ == wh else ("hit" if isinstance(x_, dict) and any(
                        lv(l) == v and k != "decl" for l, k, n_ in writes(x_)) else None)), include_start=False)
                    bad += [h_ for h_ in hits if wh in cfg.reach_from(h_[0])]
                key = "%s/congruence-check-then-walk(%s)" % (f.name, v)
                if bad:
                    rep.fail(rid, key, f.loc(cfg.blocks[bad[0][0]].elems[bad[0][1]].get("line")), "%s is modified between the congruence check (%s %% INTERVAL against "
                             "BYMONTH) and the fuel-less walk `%s += inter` that relies on it: from the moved month no BYMONTH month may be reachable and "
                             "the walk never ends" % (v, v, v))
                else:
                    rep.ok(rid, key, f.loc(), "the walk starts from the month the congruence check looked at")
    if n < 1:
        rep.broken_("rule=%s expected the congruence check and month walk of the monthly filler, found %d" % (rid, n))


def r01_10(prog, rep, rid="R01.10"):
    """INTERVAL counts periods from DTSTART: the cursor a filler steps by `rr->inter` keeps its phase only if, inside the expansion
    loop, nothing else moves it — it is stepped by INTERVAL and reduced modulo its period (`%=`, the `--, %=, ++` idiom, or an assignment
    from its own remainder).  A jump (`d = maxd` to hurry through a month BYMONTH excludes) lands on a day that is no multiple of
    INTERVAL away from DTSTART, and every later occurrence is out of phase."""
    n = 0
    for f in fillers(prog):
        cfg = f.cfg
        mains = [(h, b) for h, b in cfg.natural_loops().items() if _is_main_loop(f, h)]
        if not mains:
            continue
        h, blks = max(mains, key=lambda t_: len(t_[1]))

        def is_step(kind, nn):
            return kind == "compound" and nn.get("op") == "+=" and lv(strip_casts(cfg.resolve(nn["r"]))).endswith("->inter")
        steps = set()
        ws = []
        for b in sorted(blks):
            for e in cfg.blocks[b].elems:
                if isinstance(e["x"], dict):
                    for l, kind, nn in writes(e["x"]):
                        ws.append((lv(l), kind, nn, e.get("line")))
                        if is_step(kind, nn):
                            steps.add(lv(l))
        for v in sorted(steps):
            n += 1
            key = "%s/cursor-moves-by-interval-only(%s)" % (f.name, v)
            odd = []
            for t, kind, nn, line in ws:
                if t != v or is_step(kind, nn) or kind == "incdec" or (kind == "compound" and nn.get("op") == "%="):
                    continue
                if kind == "assign" and any(q.get("k") == "bin" and q["op"] == "%" and any(
                        r_.get("k") == "ref" and r_.get("n") == v for r_ in walk(q["l"])) for q in walk(cfg.resolve(nn["r"]))):
                    continue
                odd.append((line, show(nn)[:40]))
            if odd:
                rep.fail(rid, key, f.loc(odd[0][0]), "inside the expansion loop %s is also moved by `%s`: the cursor is no longer a whole number of "
                         "INTERVALs away from DTSTART, every occurrence behind that point is out of phase (INTERVAL >= 2)" % (v, odd[0][1]))
            else:
                rep.ok(rid, key, f.loc(), "%s is stepped by INTERVAL and reduced modulo its period only" % v)
    if n < 5:
        rep.broken_("rule=%s expected >=5 interval-stepped cursors in the fillers, found %d" % (rid, n))


def r01_11(prog, rep, rid="R01.11"):
    """The yearly and monthly fillers unroll the BYMONTH / BYMONTHDAY containers into local arrays before they expand.  Such a loop
    copies the *whole* list — it is bounded by the capacity of the array it fills — and never by the number of results wanted: that
    number is COUNT when COUNT is small, and a list cut down to its first COUNT members (in the container's order: positives
    ascending) loses the members the next occurrences come from (`BYMONTHDAY=5,15;COUNT=1` from the 15th gives the 5th of the
    month after)."""
    from ..flow import cond_atoms
    n = 0
    for f in fillers(prog):
        cfg = f.cfg
        cap = f.params[1]["n"]
        arrays = {l_["n"]: l_.get("extent") for l_ in f.locals if l_.get("extent")}
        for h, blks in cfg.natural_loops().items():
            c = cfg.cond(h)
            if c is None or _is_main_loop(f, h) and len(blks) > 6:
                continue
            src = None
            for b in blks:
                for e in cfg.blocks[b].elems:
                    for nn in walk(e["x"]) if isinstance(e["x"], dict) else []:
                        if nn.get("k") == "call" and (nn.get("fn") or "").endswith("_next") and len(nn["a"]) > 1:
                            src = lv(strip_casts(f.expand(cfg.resolve(nn["a"][1])))).lstrip("&").split("->")[-1].split(".")[-1]
            if src is None:
                continue
            arr = None
            for b in blks:
                for e in cfg.blocks[b].elems:
                    if isinstance(e["x"], dict):
                        for l, kind, nn in writes(e["x"]):
                            l_ = strip_casts(l)
                            if l_.get("k") == "idx" and lv(l_["b"]) in arrays:
                                arr = lv(l_["b"])
            if arr is None:
                continue
            n += 1
            key = "%s/%s[]-takes-the-whole-list(%s)" % (f.name, arr, src)
            by_cap = [a for b in blks for cc in [cfg.cond(b)] if cc is not None for a in cond_atoms(cc, True)
                      if len(a) == 5 and a[0] in ("<", "<=") and a[2] == cap]
            if by_cap:
                rep.fail(rid, key, f.loc(cfg.blocks[h].elems[-1].get("line") if cfg.blocks[h].elems else None),
                         "the loop that copies rr->%s into %s[] stops at `%s %s %s`, the number of results wanted: with a small COUNT the list is cut "
                         "down to its first members and the occurrences that come from the others are lost (`BYMONTHDAY=5,15;COUNT=1` from the "
                         "15th yields the 5th of the next month)" % (src, arr, by_cap[0][1], by_cap[0][0], cap))
            else:
                rep.ok(rid, key, f.loc(), "rr->%s is copied into %s[] without regard to the number of results wanted" % (src, arr))
    if n < 3:
        rep.broken_("rule=%s expected >=3 list-unrolling loops (months and days of the yearly filler, days of the monthly one), found %d" % (rid, n))


def r01_12(prog, rep, rid="R01.12"):
    """yd_to_md() turns a day of the year into (month, day); for a day beyond the year's end — day 366 of a common year (BYYEARDAY=366,
    the 53rd Monday, an Easter offset late in December) — it answers month 13, which its week-date caller folds onto January on
    purpose.  Where the pair goes straight into the candidate set, the month must have been found to be at most 12 first: month 13
    is printed as such (`2021-13-01`), armed by the daemon as January 1 of the year after, and its packed value lies outside the 383
    positions of the set."""
    from ..flow import MustFacts
    n = 0
    for f in prog.fns_in(FILLER_FILE):
        if not f.cfg:
            continue
        cfg = f.cfg
        mds = set()
        for b, i, x, line in cfg.all_elems():
            if not isinstance(x, dict):
                continue
            for l, kind, nn in writes(x):
                rhs = nn.get("init") if kind == "decl" else (nn.get("r") if nn.get("k") == "bin" and nn["op"] == "=" else None)
                r = strip_casts(cfg.resolve(rhs)) if rhs is not None else None
                if isinstance(r, dict) and r.get("k") == "call" and r.get("fn") == "yd_to_md":
                    mds.add(lv(l))
        if not mds:
            continue
        mf = MustFacts(cfg)
        k = 0
        for b, i, x, line in cfg.all_elems():
            if not isinstance(x, dict):
                continue
            for c in calls(x):
                if c.get("fn") != "pack_cand" or not c.get("a"):
                    continue
                a0 = strip_casts(cfg.resolve(c["a"][0]))
                if not (a0.get("k") == "mem" and lv(a0["b"]) in mds):
                    continue
                n += 1
                k += 1
                t = lv(a0)
                facts = mf.at(b, i) or set()
                key = "%s/month-in-range-behind-yd_to_md#%d" % (f.name, k)
                okf = [fa for fa in facts if fa[0] in ("le", "lt") and fa[1] == t and fa[2].isdigit() and int(fa[2]) <= (12 if fa[0] == "le" else 13)]
                if okf:
                    rep.ok(rid, key, f.loc(c.get("line", line)), "%s is known to be at most 12 where it is packed" % t)
                else:
                    rep.fail(rid, key, f.loc(c.get("line", line)), "%s comes from yd_to_md() and is packed into the candidate set without having been found "
                             "<= 12: a day of the year beyond the year's end (BYYEARDAY=366 in a common year, BYDAY=53MO) yields month 13 — printed as "
                             "`2021-13-01`, armed as January 1 of the next year, and packed outside the set's 383 positions" % t)
    if n < 3:
        rep.broken_("rule=%s expected >=3 (month, day) pairs from yd_to_md() packed into candidate sets, found %d" % (rid, n))
