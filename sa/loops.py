"""E7: fruitless-cycle analysis of natural loops.

A cycle through the loop header is *fruitless* when none of the exit tests
located on it can change: nothing those tests read (closed under in-loop
definitions) is modified on the cycle.  Such a cycle ends only if some
data-dependent filter eventually lets control take another path — which an
unsatisfiable filter never does."""
import itertools

from .facts import walk, strip, strip_casts, lv, show, writes, addr_taken, calls

PURE_CALL_SUFFIX = ("_p",)
PURE_CALLS = {"__builtin_expect", "echs_scale_ndim", "echs_scale_wday", "ymd_get_wday", "__get_ndom", "__get_mdays",
              "echs_shift_dvalue", "echs_shift_bday_p", "countof"}


def _reads(x):
    out = set()
    for n in walk(x):
        k = n.get("k")
        if k in ("ref",) and n.get("dk") in ("local", "param", "slocal", "global"):
            out.add(n["n"])
        elif k == "mem":
            out.add(lv(n))
        elif k == "idx":
            out.add(lv(n))
        elif k == "un" and n["op"] == "*":
            out.add(lv(n))
    return out


def _touches(written, readset):
    for w in written:
        for r in readset:
            if w == r or r.startswith(w + ".") or r.startswith(w + "->") or r.startswith(w + "[") or w.startswith(r + ".") \
                    or w.startswith(r + "[") or w.startswith(r + "->") or ("[" + w + "]") in r or ("*" + w) == r or w == "*" + r:
                return True
    return False


def block_writes(cfg, b):
    out = set()
    for e in cfg.blocks[b].elems:
        for l, kind, n in writes(e["x"]):
            out.add(lv(l))
        for l in addr_taken(e["x"]):
            out.add(lv(l))
    return out


def cond_impure(cfg, b):
    c = cfg.blocks[b].elems[-1]["x"] if cfg.blocks[b].elems else None
    if c is None:
        return False
    c = cfg.resolve(c)
    for l, kind, n in writes(c):
        return True
    for cc in calls(c):
        fn = cc.get("fn") or ""
        if fn in PURE_CALLS or fn.endswith(PURE_CALL_SUFFIX):
            continue
        return True
    return False


def _relational(c):
    c = strip(c)
    while isinstance(c, dict) and c.get("k") == "un" and c["op"] == "!":
        c = strip(c["e"])
    if isinstance(c, dict) and c.get("k") == "bin" and c["op"] == ",":
        return _relational(c["r"])
    return isinstance(c, dict) and c.get("k") == "bin" and c["op"] in ("<", "<=", ">", ">=", "!=", "==")


def analyse_loop(fn, header, blocks, max_tests=12):
    """Return None if the loop has no fruitless cycle, else a dict describing one.

    Progress tests PT: blocks with a successor outside the loop (direct exit tests), the header if it is a
    decision block (goto-loops), and relational decision blocks one of whose branches reaches an exit edge
    without passing the header (e.g. the low digits of an odometer).  A cycle through the header is fruitless
    if, for every progress test on it, nothing that test reads is modified on the cycle."""
    cfg = fn.cfg
    L = set(blocks)

    def leaves(b):
        return any(s not in L for s in cfg.blocks[b].live_succs())
    direct = {b for b in L if leaves(b)}

    def exit_reaching(s):
        seen = set()
        st = [s]
        while st:
            n = st.pop()
            if n in seen or n == header or n not in L:
                continue
            seen.add(n)
            if leaves(n):
                return True
            st.extend(cfg.blocks[n].live_succs())
        return False
    PT = set(direct)
    for b in L:
        succs = cfg.blocks[b].live_succs()
        if len(succs) < 2:
            continue
        c = cfg.cond(b)
        if b == header:
            PT.add(b)
        elif c is not None and (_relational(c) or cond_impure(cfg, b)) and any(exit_reaching(s) for s in succs if s != header):
            PT.add(b)
    tests = sorted(PT)
    if len(tests) > max_tests:
        # keep the header, direct exits and the nearest ones
        tests = sorted(direct | {header})[:max_tests]
    # reads of each test, closed under in-loop definitions
    defs = {}
    for b in L:
        for e in cfg.blocks[b].elems:
            for l, kind, n in writes(e["x"]):
                rhs = n.get("init") if kind == "decl" else (n.get("r") if n.get("k") == "bin" else n.get("e"))
                defs.setdefault(lv(l), set()).update(_reads(cfg.resolve(rhs)) if rhs is not None else set())
    reads = {}
    for b in tests:
        c = cfg.cond(b)
        rs = _reads(c) if c is not None else set()
        if cfg.blocks[b].term and cfg.blocks[b].term.get("kind") == "switch":
            rs |= _reads(cfg.resolve(cfg.blocks[b].term.get("on")))
        for _ in range(4):
            add = set()
            for r in rs:
                add |= defs.get(r, set())
            if add <= rs:
                break
            rs |= add
        reads[b] = rs
    bw = {b: block_writes(cfg, b) for b in L}
    M = {}
    for b in tests:
        m = {x for x in L if _touches(bw[x], reads[b])}
        if cond_impure(cfg, b):
            m.add(b)
        M[b] = m
    for r in range(0, len(tests) + 1):
        for I in itertools.combinations(tests, r):
            removed = set(tests) - set(I)
            for b in I:
                removed |= M[b]
            if header in removed:
                continue
            G = L - removed
            seen = set()
            st = [s for s in cfg.blocks[header].live_succs() if s in G]
            parent = {s: header for s in st}
            found = False
            while st:
                n = st.pop()
                if n == header:
                    found = True
                    break
                if n in seen:
                    continue
                seen.add(n)
                for s in cfg.blocks[n].live_succs():
                    if s == header:
                        parent[header] = n
                        st.append(header)
                    elif s in G and s not in seen:
                        parent.setdefault(s, n)
                        st.append(s)
            if found:
                path = [header]
                cur = parent.get(header)
                guard = 0
                while cur is not None and cur != header and guard < 200:
                    path.append(cur)
                    cur = parent.get(cur)
                    guard += 1
                path.reverse()
                return {"header": header, "tests_on_cycle": list(I), "test_reads": {b: sorted(reads[b]) for b in I},
                        "cycle": path, "avoided": sorted(removed), "progress_tests": tests}
    return None


def loop_key(fn, header, blocks):
    """Structural key of a loop: function + text of the header's exit condition."""
    cfg = fn.cfg
    c = cfg.cond(header)
    if c is None:
        for b in sorted(blocks, reverse=True):
            c = cfg.cond(b)
            if c is not None and any(s not in blocks for s in cfg.blocks[b].live_succs()):
                break
    t = _canon(strip(c))[:70] if c is not None else "?"
    return "%s/loop %s" % (fn.name, t)


def _canon(c):
    """Text of a condition with comparisons spelt canonically (`a > b` as `(b < a)`), so that keys survive a re-spelling."""
    c = strip(c)
    if isinstance(c, dict) and c.get("k") == "bin":
        if c["op"] in (">", ">="):
            return "(%s %s %s)" % (_canon(c["r"]), {">": "<", ">=": "<="}[c["op"]], _canon(c["l"]))
        if c["op"] in ("<", "<=", "==", "!=", "&&", "||"):
            return "(%s %s %s)" % (_canon(c["l"]), c["op"], _canon(c["r"]))
    return show(c)
