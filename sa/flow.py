"""E2: dominance queries and forward must-facts over the CFG."""
from .facts import (strip, strip_casts, lv, show, walk, writes, addr_taken, is_int, int_value, children)

NEG = {"<": ">=", ">=": "<", ">": "<=", "<=": ">", "==": "!=", "!=": "=="}
SWAP = {"<": ">", ">": "<", "<=": ">=", ">=": "<=", "==": "==", "!=": "!="}


def _val_text(e):
    """Text naming the value an operand has *after* the comparison: `++x` and `(x = e)` name x."""
    e = strip_casts(e)
    if isinstance(e, dict) and e.get("k") == "un" and e["op"] in ("pre++", "pre--"):
        return lv(e["e"])
    if isinstance(e, dict) and e.get("k") == "bin" and e["op"] == "=":
        return lv(e["l"])          # the value of `(v = e)` is v's new value
    if isinstance(e, dict) and e.get("k") == "bin" and e["op"] == ",":
        return _val_text(e["r"])
    return lv(e)


def cond_atoms(c, truth):
    """Decompose condition c (resolved tree) assumed to evaluate to `truth`
    into a list of (op, lhs_text, rhs_text, lhs_expr, rhs_expr) relational
    atoms and ('true'|'false', text, expr) boolean atoms that all hold."""
    c = strip(c)
    out = []
    if not isinstance(c, dict):
        return out
    k = c.get("k")
    if k == "un" and c["op"] == "!":
        return cond_atoms(c["e"], not truth)
    if k == "bin" and c["op"] == "&&":
        if truth:
            return cond_atoms(c["l"], True) + cond_atoms(c["r"], True)
        return out
    if k == "bin" and c["op"] == "||":
        if not truth:
            return cond_atoms(c["l"], False) + cond_atoms(c["r"], False)
        return out
    if k == "bin" and c["op"] == ",":
        return cond_atoms(c["r"], truth)
    if k == "bin" and c["op"] in NEG:
        op = c["op"] if truth else NEG[c["op"]]
        l, r = strip_casts(c["l"]), strip_casts(c["r"])
        # canonical form: only <, <=, ==, != (a > b is b < a), so that no rule depends on how a comparison is spelt
        if op in (">", ">="):
            op = {">": "<", ">=": "<="}[op]
            l, r = r, l
        out.append((op, _val_text(l), _val_text(r), l, r))
        # `x == 0` / `x != 0` are also the boolean atoms !x / x (both spellings are always reported)
        if op in ("==", "!="):
            for z, v in ((r, l), (l, r)):
                if int_value(z) == 0 and int_value(v) is None:
                    out.append(("false" if op == "==" else "true", lv(v), v))
                    break
        return out
    out.append(("true" if truth else "false", _val_text(c), c))
    # ... and a bare x / !x is also x != 0 / x == 0
    zero = {"k": "int", "v": 0, "t": "int"}
    out.append(("!=" if truth else "==", _val_text(c), "0", c, zero))
    return out


def disjuncts(c, truth):
    """The alternatives one of which holds when condition c evaluates to `truth`: [(expr, truth), ...]; a single entry when c is no
    disjunction on that side."""
    c0 = strip(c)
    if not isinstance(c0, dict):
        return [(c, truth)]
    k = c0.get("k")
    if k == "un" and c0["op"] == "!":
        return disjuncts(c0["e"], not truth)
    if k == "call" and c0.get("fn") == "__builtin_expect" and c0.get("a"):
        return disjuncts(c0["a"][0], truth)
    if k == "bin" and c0["op"] == "||" and truth:
        return disjuncts(c0["l"], True) + disjuncts(c0["r"], True)
    if k == "bin" and c0["op"] == "&&" and not truth:
        return disjuncts(c0["l"], False) + disjuncts(c0["r"], False)
    if k == "bin" and c0["op"] == ",":
        return disjuncts(c0["r"], truth)
    return [(c0, truth)]


_EXPRS = {}   # text -> expression tree, for facts that name whole sub-formulas


def rel_facts(c, truth):
    """Facts of the form ('lt'|'le'|'eq'|'ne', a, b) / ('true'|'false', text) from a condition, plus
    ('true', text-of-disjunction) when a disjunction holds and ('nand', textX, textY) when a conjunction fails,
    so that `!(X && Y)` followed by `X` yields `!Y` (see default_closure)."""
    facts = set()
    cs = strip(c)
    if isinstance(cs, dict) and cs.get("k") == "un" and cs["op"] == "!":
        return rel_facts(cs["e"], not truth)
    if isinstance(cs, dict) and cs.get("k") == "bin" and cs["op"] == "||" and truth:
        t = show(cs)
        _EXPRS[t] = cs
        facts.add(("true", t))
    if isinstance(cs, dict) and cs.get("k") == "bin" and cs["op"] == "&&" and not truth:
        tl, tr = show(strip(cs["l"])), show(strip(cs["r"]))
        _EXPRS[tl] = strip(cs["l"])
        _EXPRS[tr] = strip(cs["r"])
        facts.add(("nand", tl, tr))
    if isinstance(cs, dict) and cs.get("k") == "bin" and cs["op"] == "||" and not truth:
        pass
    for a in cond_atoms(c, truth):
        if len(a) == 5:
            op, l, r = a[0], a[1], a[2]
            if op == "<":
                facts.add(("lt", l, r))
            elif op == ">":
                facts.add(("lt", r, l))
            elif op == "<=":
                facts.add(("le", l, r))
            elif op == ">=":
                facts.add(("le", r, l))
            elif op == "==":
                facts.add(("eq", l, r))
                facts.add(("eq", r, l))
            elif op == "!=":
                facts.add(("ne", l, r))
                facts.add(("ne", r, l))
        else:
            facts.add((a[0], a[1]))
    return facts


def default_closure(fs):
    """Resolve ('nand', X, Y) against a known-true X (or Y)."""
    fs = set(fs)
    for f in list(fs):
        if f[0] == "nand":
            for a, b in ((f[1], f[2]), (f[2], f[1])):
                if ("true", a) in fs and b in _EXPRS:
                    fs |= {x for x in rel_facts(_EXPRS[b], False) if x[0] != "nand"}
    return fs


def elem_kills(x):
    """Set of lvalue texts modified by element x (assignments, ++/--, address
    passed to a call, declarations)."""
    ks = set()
    for l, kind, n in writes(x):
        ks.add(lv(l))
    for l in addr_taken(x):
        ks.add(lv(l))
    return ks


def fact_killed(fact, kills):
    import re as _re
    ks = set(kills)
    for k in kills:
        # a store into a member / element modifies the aggregate it belongs to
        # (`x.f = ..` and `x[i] = ..` change the value x; `p->f = ..` changes the pointee, not p)
        m = _re.match(r"^([A-Za-z_][A-Za-z_0-9]*)(\.|\[)", k)
        if m:
            ks.add(m.group(1))
    kills = ks
    for opnd in fact[1:]:
        for k in kills:
            if opnd == k or opnd.startswith(k + "->") or opnd.startswith(k + ".") or opnd.startswith(k + "["):
                return True
            # writing through an element kills facts that mention it as index etc.
            if ("[" + k + "]") in opnd or ("(" + k + " ") in opnd or (" " + k + ")") in opnd:
                return True
    return False


def contradicts(new, have):
    """Does fact `new` contradict a fact in the set `have`?"""
    k = new[0]
    if k == "true":
        return ("false", new[1]) in have
    if k == "false":
        return ("true", new[1]) in have
    if len(new) != 3:
        return False
    a, b = new[1], new[2]
    if k == "eq":
        return ("ne", a, b) in have or ("lt", a, b) in have or ("lt", b, a) in have
    if k == "ne":
        return ("eq", a, b) in have
    if k == "lt":
        return ("le", b, a) in have or ("lt", b, a) in have or ("eq", a, b) in have
    if k == "le":
        return ("lt", b, a) in have
    return False


class MustFacts:
    """Forward must-analysis.  gen(cond, truth) -> set of facts generated on a
    branch edge; kills(elem) -> set of lvalue texts modified.  Results:
    at(b, i) -> set of facts holding immediately before element i of block b;
    out(b, succ_index) -> facts on that edge."""

    def __init__(self, cfg, gen=rel_facts, kills=elem_kills, extra_gen=None, call_kills=None, closure=None, disjunctive=True):
        self.cfg = cfg
        self.gen = gen
        self.kills = kills
        self.extra_gen = extra_gen  # (elem) -> set of facts generated after elem
        self.call_kills = call_kills
        self.closure = closure if closure is not None else (default_closure if gen is rel_facts else None)
        self.IN = {}
        self.disjunctive = disjunctive
        self._solve()

    # ---- disjunctive facts -------------------------------------------------------------------------------------------
    # A join keeps, besides the facts common to all incoming edges, one fact ("or", {alt_1, .., alt_n}): alt_i is what edge i
    # knew beyond the common part.  A later branch that contradicts all alternatives but one re-establishes that one
    # (`if (A && B) .. else if (A)` -> !B), whether or not the compiler split the condition into short-circuit blocks.
    MAX_ALTS = 4
    MAX_ALT_FACTS = 8

    @staticmethod
    def _plain(fs):
        return {f for f in fs if f[0] != "or"}

    def _kill(self, cur, ks):
        out = set()
        for f in cur:
            if f[0] == "or":
                alts = [frozenset(x for x in alt if not fact_killed(x, ks)) for alt in f[1]]
                if all(alts):
                    out.add(("or", frozenset(alts)))
            elif not fact_killed(f, ks):
                out.add(f)
        return out

    def _merge(self, sets):
        if len(sets) == 1:
            return set(sets[0])
        plains = [self._plain(x) for x in sets]
        common = set.intersection(*plains)
        res = set(common)
        res |= set.intersection(*[{f for f in x if f[0] == "or"} for x in sets])
        if self.disjunctive:
            alts = {frozenset(f for f in (p_ - common) if f[0] in ("lt", "le", "eq", "ne", "true", "false")) for p_ in plains}
            if all(alts) and 2 <= len(alts) <= self.MAX_ALTS and max(len(a) for a in alts) <= self.MAX_ALT_FACTS:
                res.add(("or", frozenset(alts)))
        return res

    def _resolve_ors(self, f):
        """Drop alternatives contradicted by what holds; a single survivor holds.  Returns None when no alternative survives (infeasible)."""
        changed = True
        while changed:
            changed = False
            plain = self._plain(f)
            for o in [x for x in f if x[0] == "or"]:
                remaining = [alt for alt in o[1] if not any(contradicts(x, plain) for x in alt)]
                if not remaining:
                    return None
                if len(remaining) == 1:
                    f.discard(o)
                    f |= set(remaining[0])
                    changed = True
                    break
                if len(remaining) < len(o[1]):
                    f.discard(o)
                    f.add(("or", frozenset(remaining)))
                    changed = True
                    break
        return f

    def _transfer(self, b, facts, record=None):
        blk = self.cfg.blocks[b]
        cur = set(facts)
        for i, e in enumerate(blk.elems):
            if record is not None:
                record[(b, i)] = self._plain(cur)
            x = e["x"]
            ks = self.kills(x)
            if self.call_kills:
                ks |= self.call_kills(x)
            if ks:
                cur = self._kill(cur, ks)
            if self.extra_gen:
                cur |= self.extra_gen(x)
        return cur

    def _edge_facts(self, b, out_facts):
        """Per-successor fact sets."""
        blk = self.cfg.blocks[b]
        res = []
        c = self.cfg.cond(b)
        for si, s in enumerate(blk.succs):
            if s is None or si in blk.dead:
                res.append(None)
                continue
            f = set(out_facts)
            if c is not None and len(blk.succs) == 2:
                g = self.gen(c, si == 0)
                # `!(a || b)` (De Morgan'd `!a && !b`) is not split into short-circuit blocks: on the edge where the disjunction holds
                # nothing is known atom-wise, but whatever follows from *each* disjunct (after closure) holds
                alts = disjuncts(c, si == 0)
                if len(alts) >= 2:
                    sets = []
                    for e_, t_ in alts:
                        s_ = set(self.gen(e_, t_))
                        if self.closure:
                            s_ = set(self.closure(s_))
                        sets.append({x for x in s_ if x[0] != "or"})
                    g = set(g) | set.intersection(*sets)
                # the condition itself may have side effects that were already
                # applied by _transfer (it is the last element); facts generated
                # from it are about the state after evaluation only if the
                # condition does not modify its own operands
                # (assignments and pre-inc/dec inside the condition yield the value that is
                # tested; only post-inc/dec leave the operand different from the tested value)
                ks = {lv(l) for l, kind, n in writes(c) if kind == "incdec" and n["op"].startswith("post")}
                g = {x for x in g if not fact_killed(x, ks)}
                # correlated conditions: an edge whose condition contradicts what already holds is infeasible
                if any(contradicts(x, f) for x in g):
                    res.append(None)
                    continue
                f |= g
            if self.closure:
                f = self.closure(f)
            f = self._resolve_ors(f)
            if f is not None and self.closure:
                f = self.closure(f)
            res.append(f)
        return res

    def _solve(self):
        cfg = self.cfg
        TOP = None
        IN = {b: TOP for b in cfg.blocks}
        IN[cfg.entry] = set()
        work = [cfg.entry]
        edge_out = {}
        preds = {b: [] for b in cfg.blocks}
        for b, blk in cfg.blocks.items():
            for si, s in enumerate(blk.succs):
                if s is not None and si not in blk.dead:
                    preds[s].append((b, si))
        visits = {}
        while work:
            b = work.pop()
            if IN[b] is TOP:
                continue
            visits[b] = visits.get(b, 0) + 1
            if visits[b] > 200:   # safety net: give up disjunctions rather than iterate for ever
                self.disjunctive = False
            out = self._transfer(b, IN[b])
            efs = self._edge_facts(b, out)
            blk = cfg.blocks[b]
            for si, s in enumerate(blk.succs):
                if s is None:
                    continue
                if efs[si] is None:
                    continue
                if edge_out.get((b, si)) == efs[si]:
                    continue
                # an edge's facts only ever shrink (plain part); keep the intersection with what it said before
                prev = edge_out.get((b, si))
                cur = efs[si] if prev is None else ({f for f in efs[si] if f[0] == "or" or f in prev})
                edge_out[(b, si)] = cur
                incoming = [edge_out[e] for e in preds[s] if e in edge_out]
                if s == cfg.entry:
                    incoming.append(set())
                new = self._merge(incoming)
                if IN[s] is not TOP:
                    # monotone in the plain part
                    new = {f for f in new if f[0] == "or" or f in IN[s]}
                if IN[s] is TOP or new != IN[s]:
                    IN[s] = set(new)
                    work.append(s)
        self.IN = {b: (None if v is None else self._plain(v)) for b, v in IN.items()}
        self._IN_full = IN
        self.edge_out = {k: self._plain(v) for k, v in edge_out.items()}
        self.before = {}
        for b in cfg.blocks:
            if IN[b] is not None:
                self._transfer(b, IN[b], self.before)

    def at(self, b, i):
        return self.before.get((b, i))

    def at_block(self, b):
        return self.IN.get(b)


def elems_matching(fn, pred):
    """Yield (b, i, node, elem_expr, line) for every expression node in any CFG
    element of fn that satisfies pred(node)."""
    for b, i, x, line in fn.cfg.all_elems():
        for n in walk(x):
            if pred(n):
                yield b, i, n, x, n.get("line", line)


def block_of_call(fn, name):
    out = []
    for b, i, c, line in fn.all_calls():
        if c.get("fn") == name:
            out.append((b, i, c, line))
    return out


def must_pass(cfg, src, dst, via):
    """Every live path from block src to block dst passes through a block in `via`
    (src itself counts if in via)."""
    if src in via:
        return True
    return not cfg.paths_avoiding(src, dst, set(via))


def edge_dominates(cfg, b, si, target):
    """Does the edge (b -> succs[si]) dominate block `target`: every path from
    entry to target uses that edge.  Implemented by removing the edge."""
    blk = cfg.blocks[b]
    s = blk.succs[si]
    # paths from entry to target that do not use edge b->s
    seen = set()
    st = [cfg.entry]
    while st:
        n = st.pop()
        if n in seen:
            continue
        seen.add(n)
        if n == target:
            return False
        nb = cfg.blocks[n]
        for j, t in enumerate(nb.succs):
            if t is None or j in nb.dead:
                continue
            if n == b and j == si:
                continue
            # other edge from b to the same successor still counts as avoiding
            st.append(t)
    return True
