"""Thorough tier extras: re-apply the one-instance-broken witnesses to a scratch copy and require the rule to fire;
run the generic lints that land on a property clause as an advisory cross-reference (never a verdict)."""
import glob
import os
import re
import shutil
import subprocess
import sys

from .snapshot import VERIF

XREF = {
    "C08": [("clang-tidy", ["instant.c", "dt-strpf.c"], "bugprone-implicit-widening-of-multiplication-result,bugprone-narrowing-conversions,cppcoreguidelines-narrowing-conversions")],
    "C18": [("clang-tidy", ["dt-strpf.c"], "bugprone-implicit-widening-of-multiplication-result,bugprone-switch-missing-default-case,bugprone-branch-clone"),
            ("clang-warn", ["dt-strpf.c"], "-Wimplicit-fallthrough")],
    "C05": [("clang-tidy", ["evical.c"], "bugprone-narrowing-conversions,cppcoreguidelines-narrowing-conversions")],
    "C19": [("clang-tidy", ["evical.c"], "bugprone-narrowing-conversions,cppcoreguidelines-narrowing-conversions")],
    "C09": [("cppcheck", ["evrrul.c", "bitint.c"], "--enable=warning")],
    "C10": [("cppcheck", ["evical.c"], "--enable=warning")],
}


def run_witnesses(rep, pid):
    sys.path.insert(0, os.path.join(VERIF, "tools"))
    import importlib.util
    spec = importlib.util.spec_from_file_location("witness", os.path.join(VERIF, "tools", "witness.py"))
    wit = importlib.util.module_from_spec(spec)
    spec.loader.exec_module(wit)
    files = sorted(glob.glob(os.path.join(VERIF, "witnesses", "*", "*.diff")))
    rid = "W"
    rep.rule(rid, "witnesses: each stored one-instance-broken variant, applied to a scratch copy of the current tree, makes its rule fire "
                  "(behaviour-preserving variants must stay silent)", 0)
    res = []
    todo = []
    for f in files:
        head = open(f).read(400)
        if ("expect: %s " % pid) not in head and not re.search(r"expect-silent:[^\n]*\b%s\b" % pid, head):
            continue
        todo.append((f, pid if "expect-silent:" in head else None))
    # each witness is a scratch copy plus a quick check in a process of its own: run them side by side
    import concurrent.futures
    with concurrent.futures.ThreadPoolExecutor(max_workers=min(12, os.cpu_count() or 4)) as ex:
        outs = list(ex.map(lambda t: wit.run_witness(t[0], pid=t[1]), todo))
    for (f, _p), (st, why) in zip(todo, outs):
        name = os.path.relpath(f, VERIF)
        res.append({"witness": name, "result": st, "why": why})
        if st in ("fired", "silent"):
            rep.ok(rid, name, name, "witness %s as required" % st)
        elif st == "skipped":
            rep.note(rid, name, name, "witness no longer applies to the current tree (skipped): %s" % why)
        else:
            rep.broken_("witness %s: the rule did not behave as recorded (%s %s)" % (name, st, why))
    rep.extra["witnesses"] = res


def cross_reference(rep, pid, snap):
    out = []
    for tool, files, arg in XREF.get(pid, []):
        for fn in files:
            src = os.path.join(snap.src, fn)
            flags = [u["flags"] for u in snap.units if u["file"] == fn]
            flags = flags[0] if flags else []
            flags = [f for f in flags if f != "-Wno-everything"]
            try:
                if tool == "clang-tidy":
                    r = subprocess.run(["clang-tidy", "-checks=-*," + arg, src, "--"] + flags, stdout=subprocess.PIPE, stderr=subprocess.STDOUT, text=True, timeout=120)
                    diags = [l for l in r.stdout.splitlines() if re.search(r"warning: .*\[", l) and "/src/" in l]
                elif tool == "clang-warn":
                    r = subprocess.run(["clang", "-fsyntax-only", arg, src] + flags, stdout=subprocess.PIPE, stderr=subprocess.STDOUT, text=True, timeout=120)
                    diags = [l for l in r.stdout.splitlines() if "warning:" in l]
                else:
                    r = subprocess.run(["cppcheck", "-q", arg, "-I", snap.src, "-DHAVE_CONFIG_H", src], stdout=subprocess.PIPE, stderr=subprocess.STDOUT, text=True, timeout=180)
                    diags = [l for l in r.stdout.splitlines() if ": warning:" in l or ": error:" in l]
                out.append({"tool": tool, "file": fn, "checks": arg, "diagnostics": len(diags),
                            "first": [re.sub(r"^.*/src/", "src/", d)[:160] for d in diags[:5]]})
            except Exception as e:  # advisory only
                out.append({"tool": tool, "file": fn, "checks": arg, "error": repr(e)[:120]})
    if out:
        rep.extra["cross_reference"] = {"note": "advisory output of generic lints; never produces or suppresses a verdict", "runs": out}
        for o in out:
            rep.say("  cross-reference %s %s [%s]: %s diagnostics" % (o["tool"], o["file"], o["checks"][:50], o.get("diagnostics", o.get("error"))))
