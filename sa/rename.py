"""Renamed helpers.

The rules name the functions of the tree they were confirmed against.  When such a function is gone and a function the rule set has
never seen has taken its place — same file, same linkage, same return and parameter types — the newcomer is the old function under a
new name (a pure identifier rename of an internal helper): it is given its old name back before any rule runs, so that a rename is
transparent.  The pairing is by signature (sa/known_signatures.json, written by tools/mksigs.py from the confirmed tree); where several
functions share a signature they are paired in definition order.  Anything that cannot be paired is left alone (and an unknown function
is then spliced into its callers by sa/inline.py)."""
import json
import os

SIG_FILE = os.path.join(os.path.dirname(os.path.abspath(__file__)), "known_signatures.json")


def _norm_t(t):
    return " ".join((t or "").replace("__restrict", "").replace("restrict", "").split())


def fingerprint(raw):
    return (raw["file"], bool(raw.get("static")), _norm_t((raw.get("ret") or {}).get("t")), tuple(_norm_t(p.get("t")) for p in raw.get("params", [])))


def known_signatures():
    if not os.path.exists(SIG_FILE):
        return None
    with open(SIG_FILE) as f:
        return json.load(f)


def _walk_all(x):
    stack = [x]
    while stack:
        n = stack.pop()
        if isinstance(n, dict):
            yield n
            stack.extend(n.values())
        elif isinstance(n, list):
            stack.extend(n)


def resolve_renames(docs, known):
    """Mutates the raw per-unit documents; returns [(new_name, old_name, file)]."""
    sigs = known_signatures()
    if sigs is None or known is None:
        return []
    present = {}
    here = set()
    for d in docs:
        for f in d["functions"]:
            present.setdefault(f["name"], f)
            here.add((f["name"], f["file"]))
    missing = {}
    for name, entries in sigs.items():
        if name not in known:
            continue
        for e in entries:
            if (name, e["file"]) in here:
                continue
            fp = (e["file"], e["static"], e["ret"], tuple(e["params"]))
            missing.setdefault(fp, []).append((e["line"], name))
    if not missing:
        return []
    unknown = {}
    for name, f in present.items():
        if name in known or name in sigs:
            continue
        unknown.setdefault(fingerprint(f), []).append((f["line"], name))
    mapping = {}
    out = []
    for fp, miss in missing.items():
        unk = unknown.get(fp, [])
        if len(unk) != len(miss):
            continue
        for (l0, old), (l1, new) in zip(sorted(miss), sorted(unk)):
            mapping[new] = old
            out.append((new, old, fp[0]))
    if not mapping:
        return []
    for d in docs:
        for n in _walk_all(d):
            if n.get("name") in mapping and "cfg" in n:
                n["name"] = mapping[n["name"]]
            fn = n.get("fn")
            if isinstance(fn, str) and fn in mapping:
                n["fn"] = mapping[fn]
            if n.get("k") == "ref" and n.get("dk") == "fn" and n.get("n") in mapping:
                n["n"] = mapping[n["n"]]
    return sorted(out)
