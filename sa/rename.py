"""Renamed helpers.

The rules name the functions of the tree they were confirmed against.  When such a function is gone and a function the rule set has
never seen has taken its place — same file, same linkage, same return and parameter types — the newcomer is the old function under a
new name (a pure identifier rename of an internal helper): it is given its old name back before any rule runs, so that a rename is
transparent.  The pairing is by signature (sa/known_signatures.json, written by tools/mksigs.py from the confirmed tree); where several
functions share a signature they are paired in definition order.  Anything that cannot be paired is left alone (and an unknown function
is then spliced into its callers by sa/inline.py)."""
import json
import os

SIG_FILE = os.path.join(os.path.dirname(os.path.abspath(__file__)), "known_signatures.json")


def _norm_t(t):
    return " ".join((t or "").replace("__restrict", "").replace("restrict", "").split())


def fingerprint(raw):
    return (raw["file"], bool(raw.get("static")), _norm_t((raw.get("ret") or {}).get("t")), tuple(_norm_t(p.get("t")) for p in raw.get("params", [])))


def known_signatures():
    if not os.path.exists(SIG_FILE):
        return None
    with open(SIG_FILE) as f:
        return json.load(f)


def _walk_all(x):
    stack = [x]
    while stack:
        n = stack.pop()
        if isinstance(n, dict):
            yield n
            stack.extend(n.values())
        elif isinstance(n, list):
            stack.extend(n)


def resolve_renames(docs, known):
    """Mutates the raw per-unit documents; returns [(new_name, old_name, file)]."""
    sigs = known_signatures()
    if sigs is None or known is None:
        return []
    present = {}
    here = set()
    for d in docs:
        for f in d["functions"]:
            present.setdefault(f["name"], f)
            here.add((f["name"], f["file"]))
    missing = {}
    for name, entries in sigs.items():
        if name not in known:
            continue
        for e in entries:
            if (name, e["file"]) in here:
                continue
            fp = (e["file"], e["static"], e["ret"], tuple(e["params"]))
            missing.setdefault(fp, []).append((e["line"], name))
    if not missing:
        return []
    unknown = {}
    for name, f in present.items():
        if name in known or name in sigs:
            continue
        unknown.setdefault(fingerprint(f), []).append((f["line"], name))
    mapping = {}
    out = []
    for fp, miss in missing.items():
        unk = unknown.get(fp, [])
        if len(unk) != len(miss):
            continue
        for (l0, old), (l1, new) in zip(sorted(miss), sorted(unk)):
            mapping[new] = old
            out.append((new, old, fp[0]))
    if not mapping:
        return []
    for d in docs:
        for n in _walk_all(d):
            if n.get("name") in mapping and "cfg" in n:
                n["name"] = mapping[n["name"]]
            fn = n.get("fn")
            if isinstance(fn, str) and fn in mapping:
                n["fn"] = mapping[fn]
            if n.get("k") == "ref" and n.get("dk") == "fn" and n.get("n") in mapping:
                n["n"] = mapping[n["n"]]
    return sorted(out)


SCALARS = {"int", "unsigned int", "unsigned", "long", "unsigned long", "long int", "long unsigned int", "size_t", "ssize_t", "short", "unsigned short",
           "char", "unsigned char", "uint8_t", "uint16_t", "uint32_t", "uint64_t", "int8_t", "int16_t", "int32_t", "int64_t", "bool", "_Bool",
           "double", "float", "time_t", "uid_t", "gid_t", "pid_t", "mode_t", "off_t", "ev_tstamp"}


def _strip_casts(x):
    while isinstance(x, dict) and x.get("k") == "cast":
        x = x["e"]
    return x


def byvalue_scalars(docs):
    """A static function that takes `const <scalar> *p`, only ever reads `*p`, and is always called with `&x` is the same function
    taking the scalar by value: both spellings are brought to the by-value form (in the function and at every call), so that a rule
    written for one of them reads the other.  Returns [(function, parameter)]."""
    out = []
    fns = {}
    for d in docs:
        for f in d["functions"]:
            if f.get("cfg"):
                fns.setdefault(f["name"], []).append(f)
    for name, defs in fns.items():
        f = defs[0]
        if not f.get("static"):
            continue
        for pi, p in enumerate(f.get("params", [])):
            t = " ".join((p.get("t") or "").replace("__restrict", "").replace("restrict", "").split())
            if not (t.startswith("const ") and t.endswith("*")):
                continue
            pointee = t[len("const "):-1].strip()
            if pointee not in SCALARS:
                continue
            pid = p.get("id")
            ok = True
            # every use of p in every definition is `*p`
            for g in defs:
                for blk in g["cfg"]["blocks"]:
                    roots = [e["x"] for e in blk["elems"]] + [blk.get("term")]
                    stack = [(r, None) for r in roots if isinstance(r, (dict, list))]
                    while stack and ok:
                        n, parent = stack.pop()
                        if isinstance(n, list):
                            stack.extend((c, parent) for c in n)
                            continue
                        if not isinstance(n, dict):
                            continue
                        if n.get("k") == "ref" and n.get("id") == pid and n.get("dk") == "param":
                            q = parent
                            if not (isinstance(q, dict) and q.get("k") == "un" and q.get("op") == "*"):
                                ok = False
                            continue
                        par = n if n.get("k") != "cast" else parent     # look through casts when judging the parent
                        for v in n.values():
                            if isinstance(v, (dict, list)):
                                stack.append((v, par))
            if not ok:
                continue
            # every call passes &x
            sites = []
            for d in docs:
                for g in d["functions"]:
                    if not g.get("cfg"):
                        continue
                    for n in _walk_all(g["cfg"]):
                        if n.get("k") == "call" and n.get("fn") == name and len(n.get("a", [])) > pi:
                            a = _strip_casts(n["a"][pi])
                            if isinstance(a, dict) and a.get("k") == "un" and a.get("op") == "&":
                                sites.append(n)
                            else:
                                ok = False
            if not ok or not sites:
                continue
            for g in defs:
                for q in g["params"]:
                    if q.get("id") == pid:
                        q["t"] = pointee
                for n in _walk_all(g["cfg"]):
                    for key, v in list(n.items()):
                        if isinstance(v, dict):
                            w = _strip_casts(v)
                            if w.get("k") == "un" and w.get("op") == "*":
                                r = _strip_casts(w["e"])
                                if isinstance(r, dict) and r.get("k") == "ref" and r.get("id") == pid:
                                    n[key] = dict(r, t=pointee)
                        elif isinstance(v, list):
                            for ix, it in enumerate(v):
                                if isinstance(it, dict):
                                    w = _strip_casts(it)
                                    if w.get("k") == "un" and w.get("op") == "*":
                                        r = _strip_casts(w["e"])
                                        if isinstance(r, dict) and r.get("k") == "ref" and r.get("id") == pid:
                                            v[ix] = dict(r, t=pointee)
            for n in sites:
                n["a"][pi] = _strip_casts(n["a"][pi])["e"]
            out.append((name, p.get("n")))
    return out


def _nt(t):
    return " ".join((t or "").replace("__restrict", "").replace("restrict", "").split())


def restore_param_conventions(docs, known):
    """A known function whose parameter was `T p` when the rules were confirmed and is `const T *p` now (or the other way round), with
    every use and every call adjusted accordingly, is the same function: the parameter is brought back to the recorded convention
    (`p->f` <-> `p.f`, `*p` <-> `p`, `&x` <-> `x` at the calls).  Anything that is not a pure change of passing convention (the pointer
    is stored, compared, handed on; the value is written) is left alone.  Returns [(function, parameter, 'by value'|'by pointer')]."""
    sigs = known_signatures()
    if sigs is None or known is None:
        return []
    out = []
    fns = {}
    for d in docs:
        for f in d["functions"]:
            if f.get("cfg"):
                fns.setdefault((f["name"], f["file"]), []).append(f)
    for (name, file), defs in fns.items():
        ent = [e for e in sigs.get(name, []) if e["file"] == file]
        if not ent or name not in known:
            continue
        kp = ent[0]["params"]
        f = defs[0]
        if len(kp) != len(f.get("params", [])):
            continue
        for pi, p in enumerate(f["params"]):
            K, C = _nt(kp[pi]), _nt(p.get("t"))
            if K == C:
                continue
            if C in ("const %s *" % K, "const %s *const" % K):
                to_value = True
            elif K in ("const %s *" % C, "const %s *const" % C):
                to_value = False
            else:
                continue
            pid = p.get("id")
            # collect uses with their parents
            ok = True
            edits = []      # (container, key/index, replacement)
            for g in defs:
                for blk in g["cfg"]["blocks"]:
                    roots = [("elems", blk["elems"])] + ([("term", blk)] if isinstance(blk.get("term"), dict) else [])
                    stack = []
                    for e in blk["elems"]:
                        stack.append((e, "x"))
                    if isinstance(blk.get("term"), dict):
                        stack.append((blk, "term"))
                    while stack and ok:
                        cont, key = stack.pop()
                        n = cont[key]
                        if isinstance(n, list):
                            for ix in range(len(n)):
                                stack.append((n, ix))
                            continue
                        if not isinstance(n, dict):
                            continue
                        core = _strip_casts(n)
                        k = core.get("k") if isinstance(core, dict) else None
                        if to_value:
                            if k == "mem" and core.get("arrow") and isinstance(_strip_casts(core["b"]), dict) and _strip_casts(core["b"]).get("k") == "ref" \
                                    and _strip_casts(core["b"]).get("id") == pid:
                                edits.append((cont, key, dict(core, arrow=False, b=dict(_strip_casts(core["b"]), t=K))))
                                continue
                            if k == "un" and core.get("op") == "*" and isinstance(_strip_casts(core["e"]), dict) and _strip_casts(core["e"]).get("k") == "ref" \
                                    and _strip_casts(core["e"]).get("id") == pid:
                                edits.append((cont, key, dict(_strip_casts(core["e"]), t=K)))
                                continue
                            if k == "ref" and core.get("id") == pid and core.get("dk") == "param":
                                ok = False      # the pointer itself is used
                                continue
                        else:
                            if k == "mem" and not core.get("arrow") and isinstance(_strip_casts(core["b"]), dict) and _strip_casts(core["b"]).get("k") == "ref" \
                                    and _strip_casts(core["b"]).get("id") == pid:
                                edits.append((cont, key, dict(core, arrow=True, b=dict(_strip_casts(core["b"]), t=K))))
                                continue
                            if k == "ref" and core.get("id") == pid and core.get("dk") == "param":
                                edits.append((cont, key, {"k": "un", "op": "*", "e": dict(core, t=K), "t": C}))
                                continue
                        for kk, v in n.items():
                            if isinstance(v, (dict, list)):
                                stack.append((n, kk))
            if not ok:
                continue
            sites = []
            for d in docs:
                for g in d["functions"]:
                    if not g.get("cfg"):
                        continue
                    for n in _walk_all(g["cfg"]):
                        if n.get("k") == "call" and n.get("fn") == name and len(n.get("a", [])) > pi:
                            a = _strip_casts(n["a"][pi])
                            if to_value:
                                if isinstance(a, dict) and a.get("k") == "un" and a.get("op") == "&":
                                    sites.append((n, a["e"]))
                                else:
                                    ok = False
                            else:
                                sites.append((n, {"k": "un", "op": "&", "e": n["a"][pi], "t": K}))
            if not ok or not sites:
                continue
            for cont, key, repl in edits:
                cont[key] = repl
            for g in defs:
                for q in g["params"]:
                    if q.get("id") == pid:
                        q["t"] = kp[pi]
            for n, na in sites:
                n["a"][pi] = na
            out.append((name, p.get("n"), "by value" if to_value else "by pointer"))
    return out
