"""E6: path-sensitive walk of one CFG over a small abstract store.

The store maps tracked lvalue texts (and ghost names) to integer constants;
an absent key means 'unknown'.  Branches whose condition evaluates in the
store are followed deterministically, all others fork.  The state space is
(block, store) with finitely many constants, so the exploration terminates
and is complete for the abstraction."""
from .facts import strip, strip_casts, lv, walk, writes, addr_taken, int_value, calls, show
from .snapshot import AnalysisBroken

UNKNOWN = None


def symbol_id(name):
    """Stable symbolic constant standing for the address of a named static object."""
    import zlib
    return 1000000000 + (zlib.crc32(name.encode()) % 1000000)


def _cdiv(l, r):
    """C division: truncation towards zero, exact for any size of operand."""
    q = abs(l) // abs(r)
    return q if (l < 0) == (r < 0) else -q


def eval_in(store, x, fn=None, call_eval=None, depth=0):
    """Evaluate expression x to an int in `store`, or None."""
    if depth > 30 or not isinstance(x, dict):
        return None
    k = x.get("k")
    if k == "elem":
        if fn is None:
            return None
        return eval_in(store, fn.cfg.elem(x["b"], x["i"]), fn, call_eval, depth + 1)
    if k == "cast":
        v = eval_in(store, x["e"], fn, call_eval, depth + 1)
        if v is None:
            return None
        to = x.get("to", {})
        if x.get("ck") in ("IntegralToBoolean", "PointerToBoolean"):
            return int(bool(v))
        if "w" in to and x.get("ck") == "IntegralCast":
            w = to["w"]
            v &= (1 << w) - 1
            if to.get("s") and v >= (1 << (w - 1)):
                v -= 1 << w
        return v
    if k == "call" and x.get("fn") == "__builtin_expect":
        return eval_in(store, x["a"][0], fn, call_eval, depth + 1)
    v = int_value(x)
    if v is not None:
        return v
    if k in ("ref", "mem", "idx") or (k == "un" and x["op"] == "*"):
        t = lv(x)
        if t in store:
            return store[t]
        if k == "idx":
            # element of a tracked constant array: evaluate the subscript
            iv = eval_in(store, x["i"], fn, call_eval, depth + 1)
            if iv is not None:
                t2 = "%s[%d]" % (lv(x["b"]), iv)
                if t2 in store:
                    return store[t2]
            return None
        if k == "ref" and x.get("dk") in ("slocal", "global") and "[" in (x.get("t") or ""):
            return symbol_id(x["n"])  # address of a static array: a symbolic non-zero constant
        if fn is not None and k == "ref" and x.get("dk") == "local" and depth < 25:
            # a single-definition temporary for a side-effect-free expression (`ofn = t->t->out`) stands for that expression
            sd = fn.stable_defs()
            if x["n"] in sd:
                return eval_in(store, sd[x["n"]], fn, call_eval, depth + 1)
        if fn is not None and k in ("mem", "idx") and depth < 25:
            # an access path through a single-definition temporary (`tsk = t->t; tsk->umsk`) names the object the temporary stands for
            t2 = lv(fn.expand(x))
            if t2 != t and t2 in store:
                return store[t2]
        return None
    if k == "call":
        if call_eval:
            return call_eval(x, store)
        return None
    if k == "un":
        if x["op"] in ("post++", "post--", "pre++", "pre--"):
            t = lv(x["e"])
            if t in store:  # the element has been applied: store holds the post-state
                if x["op"] == "post++":
                    return store[t] - 1
                if x["op"] == "post--":
                    return store[t] + 1
                return store[t]
            return None
        e = eval_in(store, x["e"], fn, call_eval, depth + 1)
        if e is None:
            return None
        return {"-": -e, "~": ~e, "!": int(not e), "+": e}.get(x["op"])
    if k == "bin":
        op = x["op"]
        if op == ",":
            return eval_in(store, x["r"], fn, call_eval, depth + 1)
        if op == "=":
            v = eval_in(store, x["r"], fn, call_eval, depth + 1)
            if v is not None:
                return v
            return store.get(lv(x["l"]))
        if op in ("+=", "-=", "*=", "/=", "%=", "<<=", ">>=", "&=", "|=", "^="):
            t = lv(x["l"])
            return store.get(t)  # post-state of the target (None if unknown)
        l = eval_in(store, x["l"], fn, call_eval, depth + 1)
        if op == "&&":
            if l is not None and not l:
                return 0
            r = eval_in(store, x["r"], fn, call_eval, depth + 1)
            if r is not None and not r:
                return 0
            if l is None or r is None:
                return None
            return 1
        if op == "||":
            if l is not None and l:
                return 1
            r = eval_in(store, x["r"], fn, call_eval, depth + 1)
            if r is not None and r:
                return 1
            if l is None or r is None:
                return None
            return 0
        r = eval_in(store, x["r"], fn, call_eval, depth + 1)
        if l is None or r is None:
            return None
        try:
            v = {"+": lambda: l + r, "-": lambda: l - r, "*": lambda: l * r,
                 "/": lambda: _cdiv(l, r), "%": lambda: l - _cdiv(l, r) * r,
                 "<<": lambda: l << r, ">>": lambda: l >> r, "&": lambda: l & r, "|": lambda: l | r, "^": lambda: l ^ r,
                 "<": lambda: int(l < r), "<=": lambda: int(l <= r), ">": lambda: int(l > r), ">=": lambda: int(l >= r),
                 "==": lambda: int(l == r), "!=": lambda: int(l != r)}[op]()
        except Exception:
            return None
        # the arithmetic is done in the type the compiler gave the expression: unsigned results wrap, signed ones are kept in range
        w = x.get("w")
        if w and op in ("+", "-", "*", "<<", "&", "|", "^") and isinstance(v, int):
            v &= (1 << w) - 1
            if x.get("s") and v >= (1 << (w - 1)):
                v -= 1 << w
        return v
    if k == "cond":
        c = eval_in(store, x["c"], fn, call_eval, depth + 1)
        if c is None:
            return None
        if x.get("T") is None:
            return c if c else eval_in(store, x["F"], fn, call_eval, depth + 1)
        return eval_in(store, x["T"] if c else x["F"], fn, call_eval, depth + 1)
    return None


class AbsWalk:
    def __init__(self, fn, tracked, init=None, effect=None, call_eval=None, assume=None, max_states=200000, widen=None):
        """tracked: set of lvalue texts whose constant values are followed.
        effect(b, i, x, store) -> None | dict of ghost updates (value None removes); x is the
        element with references to earlier elements left in place, so every call is seen once.
        assume(b, si, cond, store) -> None|dict: refine the store on a branch edge
        (e.g. learn `v == C` on the true edge of `v == C`)."""
        self.fn = fn
        self.cfg = fn.cfg
        self.tracked = set(tracked)
        self.init = dict(init or {})
        self.effect = effect
        self.call_eval = call_eval
        self.assume = assume
        self.max_states = max_states
        self.widen = widen
        self.exit_stores = []
        self.visited = set()
        self.forks = 0

    def _apply(self, b, i, x, store):
        if self.effect:
            upd = self.effect(b, i, x, store)
            if upd:
                for k, v in upd.items():
                    if v is None:
                        store.pop(k, None)
                    else:
                        store[k] = v
        # only top-level semantics: assignments in this element (sub-elements were applied at their own position).  A declaration keeps
        # its initialiser whole (clang's CFG does not split it): side effects nested in the initialiser (`c = str[i++]`) happen before
        # the declared variable gets its value, and eval_in() reads `i++` off the post-state
        ws = list(writes(x))
        if isinstance(x, dict) and x.get("k") == "decl":
            ws = [w_ for w_ in ws if w_[1] != "decl"] + [w_ for w_ in ws if w_[1] == "decl"]
        elif len(ws) > 1:
            # `res = (*iter)++`: the increment nested in the right-hand side happens first, eval_in() reads the operand off the post-state
            inner = set()
            for l_, k_, n_ in ws:
                if k_ in ("assign", "compound") and isinstance(n_.get("r"), dict):
                    for q in walk(n_["r"]):
                        if q.get("k") == "un" and q.get("op") in ("post++", "post--", "pre++", "pre--"):
                            inner.add(id(q))
            if inner:
                ws = [w_ for w_ in ws if w_[1] == "incdec" and id(w_[2]) in inner] + [w_ for w_ in ws if not (w_[1] == "incdec" and id(w_[2]) in inner)]
        for l, kind, n in ws:
            t = lv(l)
            hit = [k for k in list(store) if k == t or k.startswith(t + ".") or k.startswith(t + "->") or k.startswith(t + "[")]
            if kind == "decl":
                if t in self.tracked and n.get("init") is not None:
                    v = eval_in(store, self.cfg.resolve(n["init"]), self.fn, self.call_eval)
                    cp = self._struct_copy(self.cfg.resolve(n["init"]), t, store) if v is None else None
                    for k in hit:
                        store.pop(k, None)
                    if v is not None:
                        store[t] = v
                    elif cp:
                        store.update(cp)
                    # aggregate initialisers: track fields
                    ini = strip_casts(self.cfg.resolve(n["init"]))
                    if isinstance(ini, dict) and ini.get("k") == "init":
                        self._init_fields(t, ini, store)
                else:
                    for k in hit:
                        store.pop(k, None)
                continue
            if n.get("k") == "bin" and n["op"] == "=" and t in self.tracked:
                v = eval_in(store, n["r"], self.fn, self.call_eval)
                cp = self._struct_copy(n["r"], t, store) if v is None else None
                for k in hit:
                    store.pop(k, None)
                if v is not None:
                    bits = strip_casts(l).get("bits") if isinstance(strip_casts(l), dict) else None
                    if bits:
                        v &= (1 << bits) - 1
                        if (strip_casts(l).get("t") or "").startswith(("int", "signed")) and v >= (1 << (bits - 1)):
                            v -= 1 << bits
                    store[t] = v
                elif cp:
                    store.update(cp)
            elif n.get("k") == "bin" and t in self.tracked and t in store and n["op"] in ("+=", "-=", "|=", "&=", "<<=", ">>=", "^=", "*=", "/=", "%="):
                r = eval_in(store, n["r"], self.fn, self.call_eval)
                cur = store.pop(t)
                if r is not None:
                    try:
                        val = {"+=": lambda: cur + r, "-=": lambda: cur - r, "|=": lambda: cur | r, "&=": lambda: cur & r,
                               "<<=": lambda: cur << r, ">>=": lambda: cur >> r, "^=": lambda: cur ^ r, "*=": lambda: cur * r,
                               "/=": lambda: _cdiv(cur, r), "%=": lambda: cur - _cdiv(cur, r) * r}[n["op"]]()
                    except Exception:
                        val = None
                    if val is not None:
                        w_ = n.get("w")
                        if w_:
                            val &= (1 << w_) - 1
                            if n.get("s") and val >= (1 << (w_ - 1)):
                                val -= 1 << w_
                        store[t] = val
            elif n.get("k") == "un" and t in self.tracked and t in store:
                store[t] = store[t] + (1 if "++" in n["op"] else -1)
            else:
                for k in hit:
                    store.pop(k, None)
        for l in addr_taken(x):
            t = lv(l)
            for k in [k for k in list(store) if k == t or k.startswith(t + ".") or k.startswith(t + "[")]:
                if not k.startswith("$"):
                    store.pop(k, None)

    @staticmethod
    def _struct_copy(rhs, t, store):
        """`t = s` for an aggregate s whose members are in the store: the members go along."""
        r = strip_casts(rhs)
        if not isinstance(r, dict) or r.get("k") not in ("ref", "mem", "idx"):
            return None
        src = lv(r)
        if not src or src == t:
            return None
        out = {}
        for k, v_ in store.items():
            if k.startswith(src + ".") and not k.startswith("$"):
                out[t + k[len(src):]] = v_
        return out

    def _init_fields(self, base, ini, store):
        for name, val in ini["fs"]:
            if str(name).isdigit():
                # array initialiser: element constants
                v = 0 if val is None else eval_in(store, val, self.fn, self.call_eval)
                if v is not None and int(name) < 256:
                    store["%s[%d]" % (base, int(name))] = v
                continue
            t = "%s.%s" % (base, name)
            if t in self.tracked:
                v = 0 if val is None else eval_in(store, val, self.fn, self.call_eval)
                if v is not None:
                    store[t] = v

    @staticmethod
    def _needs_resolve(x):
        for n in walk(x):
            if n.get("k") == "elem":
                return True
        return False

    def run(self, start_block=None, on_exit=None, stop_at=()):
        """stop_at: blocks at which a path ends when *entered through an edge* (e.g. the target of a
        back edge, to walk exactly one step of a cascade)."""
        cfg = self.cfg
        start = cfg.entry if start_block is None else start_block
        stop_at = set(stop_at)
        work = [(start, dict(self.init))]
        while work:
            b, store = work.pop()
            key = (b, tuple(sorted(store.items())))
            if key in self.visited:
                continue
            self.visited.add(key)
            if len(self.visited) > self.max_states:
                raise AnalysisBroken("abstract walk of %s exceeded %d states" % (self.fn.name, self.max_states))
            blk = cfg.blocks[b]
            store = dict(store)
            for i, e in enumerate(blk.elems):
                self._apply(b, i, e["x"], store)
            # widening: a counter that runs away is dropped to unknown so that the state space stays finite
            if self.widen is not None:
                for k_ in [k_ for k_, v_ in store.items() if isinstance(v_, int) and not k_.startswith("$") and abs(v_) > self.widen]:
                    if abs(store[k_]) < 10 ** 8:
                        del store[k_]
            if b == cfg.exit:
                self.exit_stores.append(store)
                if on_exit:
                    on_exit(store)
                continue
            succs = [(si, s) for si, s in enumerate(blk.succs) if s is not None and si not in blk.dead]
            c = cfg.cond(b)
            if c is not None and len(blk.succs) == 2:
                v = eval_in(store, c, self.fn, self.call_eval)
                if v is not None:
                    succs = [(si, s) for si, s in succs if si == (0 if v else 1)]
                else:
                    self.forks += 1
            elif blk.term and blk.term["kind"] == "switch":
                on = blk.term.get("on")
                v = eval_in(store, cfg.resolve(on), self.fn, self.call_eval) if on is not None else None
                if v is not None:
                    chosen = None
                    default = None
                    for si, s in succs:
                        lab = cfg.blocks[s].label
                        if lab and lab["k"] == "case":
                            lo = lab.get("lo")
                            hi = lab.get("hi", lo)
                            if lo is not None and lo <= v <= hi:
                                chosen = (si, s)
                        elif lab and lab["k"] == "default":
                            default = (si, s)
                        else:
                            default = default or (si, s)
                    pick = chosen or default
                    if pick:
                        succs = [pick]
            for si, s in succs:
                st = dict(store)
                if self.assume and c is not None:
                    upd = self.assume(b, si, c, st)
                    if upd == "infeasible":
                        continue
                    if upd:
                        st.update(upd)
                if s in stop_at:
                    st["$stopped_at"] = s
                    self.exit_stores.append(st)
                    if on_exit:
                        on_exit(st)
                    continue
                work.append((s, st))
        return self
