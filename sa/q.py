"""Element-level CFG queries used by the rules."""
from collections import namedtuple

from .facts import walk, strip, strip_casts, lv, show, writes, addr_taken, int_value, is_int, calls
from .snapshot import AnalysisBroken

Site = namedtuple("Site", "b i node line")


def call_sites(fn, names):
    if isinstance(names, str):
        names = (names,)
    out = []
    for b, i, c, line in fn.all_calls():
        if c.get("fn") in names:
            out.append(Site(b, i, c, line))
    return out


def indirect_call_sites(fn, field=None):
    out = []
    for b, i, c, line in fn.all_calls():
        if c.get("fn") is None:
            ce = strip_casts(c.get("ce"))
            if field is None or (isinstance(ce, dict) and ce.get("k") == "mem" and ce["f"] == field):
                out.append(Site(b, i, c, line))
    return out


def node_sites(fn, pred):
    """Sites of arbitrary nodes: pred(node) -> bool."""
    out = []
    for b, i, x, line in fn.cfg.all_elems():
        for n in walk(x):
            if pred(n):
                out.append(Site(b, i, n, n.get("line", line)))
    return out


def site_before(cfg, s1, s2):
    """s1 is evaluated before s2 on every path that reaches s2 (dominance at
    element granularity)."""
    if s1.b == s2.b:
        return s1.i < s2.i
    return cfg.dominates(s1.b, s2.b)


def chain_elems(cfg, start):
    """Elements of the straight-line region that begins with block `start`: follow single live successors until a block with a
    branch, the exit, or a join (a block with more than one live predecessor) is reached.  Yields (block, index, elem dict).
    A region that a helper extraction / inlining spread over several blocks reads like the one block it used to be."""
    b = start
    seen = set()
    while b is not None and b not in seen:
        seen.add(b)
        blk = cfg.blocks[b]
        if b != start and len(cfg.lpreds.get(b, [])) > 1:
            return
        for i, e in enumerate(blk.elems):
            yield b, i, e
        ls = blk.live_succs()
        if len(ls) != 1 or b == cfg.exit:
            return
        b = ls[0]


def forward_scan(cfg, start, visit, include_start=False):
    """Walk all live paths forward from site/position `start` = (b, i).
    visit(b, i, x) returns 'stop' to cut the path after this element, 'hit' to
    record it and cut, or None to continue.  Returns (hits, reached_exit)."""
    b0, i0 = start
    hits = []
    reached_exit = False
    seen = set()
    work = [(b0, i0 if include_start else i0 + 1)]
    while work:
        b, i = work.pop()
        blk = cfg.blocks[b]
        cut = False
        for j in range(i, len(blk.elems)):
            r = visit(b, j, blk.elems[j]["x"])
            if r == "hit":
                hits.append((b, j))
                cut = True
                break
            if r == "stop":
                cut = True
                break
        if cut:
            continue
        if b == cfg.exit:
            reached_exit = True
            continue
        for s in blk.live_succs():
            if s not in seen:
                seen.add(s)
                work.append((s, 0))
    return hits, reached_exit


def backward_scan(cfg, start, visit):
    """Walk all live paths backward from position (b, i) (exclusive).
    Returns (hits, reached_entry)."""
    b0, i0 = start
    hits = []
    reached_entry = False
    seen = set()
    work = [(b0, i0 - 1)]
    while work:
        b, i = work.pop()
        blk = cfg.blocks[b]
        cut = False
        j = i
        while j >= 0:
            r = visit(b, j, blk.elems[j]["x"])
            if r == "hit":
                hits.append((b, j))
                cut = True
                break
            if r == "stop":
                cut = True
                break
            j -= 1
        if cut:
            continue
        if b == cfg.entry:
            reached_entry = True
            continue
        for p in cfg.lpreds[b]:
            if p not in seen:
                seen.add(p)
                work.append((p, len(cfg.blocks[p].elems) - 1))
    return hits, reached_entry


def elem_has_call(x, names):
    if isinstance(names, str):
        names = (names,)
    for c in calls(x):
        if c.get("fn") in names:
            return True
    return False


def must_pass_to_exit(cfg, start, pred):
    """Every live path from `start` (exclusive) to the function exit passes an
    element with pred(x) true."""
    hits, reached = forward_scan(cfg, start, lambda b, i, x: "hit" if pred(x) else None)
    return not reached


def exists_path_to(cfg, start, target_pred, blocker_pred=None):
    """Is there a live path from start (exclusive) to an element satisfying
    target_pred that passes no element satisfying blocker_pred?"""
    def visit(b, i, x):
        if target_pred(b, i, x):
            return "hit"
        if blocker_pred and blocker_pred(b, i, x):
            return "stop"
        return None
    hits, _ = forward_scan(cfg, start, visit)
    return hits


def edge_start(cfg, b, si):
    """Position representing the start of successor si of block b."""
    s = cfg.blocks[b].succs[si]
    return (s, -1)


def local_decl_init(fn, name, decl_id=None):
    """Initialiser expressions of local `name` (of the declaration `decl_id` when given: several scopes may
    declare the same name) and the number of other writes."""
    inits = []
    other = 0
    for b, i, x, line in fn.cfg.all_elems():
        for l, kind, n in writes(x):
            if lv(l) == name:
                if kind == "decl":
                    if decl_id is None or n.get("id") == decl_id:
                        inits.append(n.get("init"))
                else:
                    lr = strip_casts(l)
                    if decl_id is None or lr.get("id") in (None, decl_id):
                        other += 1
    return inits, other


def const_eval(fn, x, depth=0):
    """Integer value of expression x if it is a compile-time constant or a
    local that is initialised once with a constant and never written again."""
    if depth > 12:
        return None
    x = strip_casts(x)
    if not isinstance(x, dict):
        return None
    k = x.get("k")
    v = int_value(x)
    if v is not None:
        return v
    if k == "elem" and fn is not None:
        return const_eval(fn, fn.cfg.resolve(x), depth + 1)
    if k == "ref" and x.get("dk") in ("local", "slocal") and fn is not None:
        inits, other = local_decl_init(fn, x["n"], x.get("id"))
        if other == 0 and len(inits) == 1 and inits[0] is not None:
            return const_eval(fn, inits[0], depth + 1)
        return None
    if k == "un":
        e = const_eval(fn, x["e"], depth + 1)
        if e is None:
            return None
        if x["op"] == "-":
            return -e
        if x["op"] == "~":
            return ~e
        if x["op"] == "!":
            return int(not e)
        if x["op"] == "+":
            return e
        return None
    if k == "bin":
        l = const_eval(fn, x["l"], depth + 1)
        r = const_eval(fn, x["r"], depth + 1)
        if l is None or r is None:
            return None
        op = x["op"]
        try:
            if op == "+":
                return l + r
            if op == "-":
                return l - r
            if op == "*":
                return l * r
            if op == "/":
                return int(l / r) if r else None
            if op == "%":
                return l - int(l / r) * r if r else None
            if op == "<<":
                return l << r
            if op == ">>":
                return l >> r
            if op == "|":
                return l | r
            if op == "&":
                return l & r
            if op == "^":
                return l ^ r
            if op == "<":
                return int(l < r)
            if op == "<=":
                return int(l <= r)
            if op == ">":
                return int(l > r)
            if op == ">=":
                return int(l >= r)
            if op == "==":
                return int(l == r)
            if op == "!=":
                return int(l != r)
            if op == "&&":
                return int(bool(l) and bool(r))
            if op == "||":
                return int(bool(l) or bool(r))
        except Exception:
            return None
    if k == "cond":
        c = const_eval(fn, x["c"], depth + 1)
        if c is None:
            return None
        if x.get("T") is None:
            return c if c else const_eval(fn, x["F"], depth + 1)
        return const_eval(fn, x["T"] if c else x["F"], depth + 1)
    return None


def str_value(prog, fn, x):
    """String literal value of x: literal, or a (static) const char array
    initialised with a literal."""
    x = strip_casts(x)
    if not isinstance(x, dict):
        return None
    if x.get("k") == "str":
        return x["v"]
    if x.get("k") == "elem" and fn is not None:
        return str_value(prog, fn, fn.cfg.resolve(x))
    if x.get("k") == "ref":
        # static/global table
        cands = [t for t in prog.tables.get(x["n"], []) if t["scope"] == "file" or (fn and t["scope"] == "function:" + fn.name)]
        for t in cands:
            ini = t.get("init")
            if isinstance(ini, dict) and ini.get("k") == "str":
                return ini["v"]
            v = t.get("values")
            if isinstance(v, dict) and "str" in v:
                return v["str"]
            if isinstance(v, list) and all(isinstance(c, int) for c in v):
                bs = bytes(c & 0xff for c in v)
                return bs.split(b"\0")[0].decode("latin-1")
        if fn is not None and x.get("dk") == "local":
            inits, other = local_decl_init(fn, x["n"])
            if other == 0 and len(inits) == 1 and inits[0] is not None:
                return str_value(prog, fn, inits[0])
    return None


def reaching_format(prog, fn, bufname, pos, fmt_fns=("snprintf", "sprintf")):
    """Formats that may have produced the contents of char buffer `bufname` at
    position pos=(b,i): backward scan for snprintf(buf, ...) calls; any other
    write to the buffer (or passing it to another call before) yields '?'.
    Returns (set_of_formats, call_sites)."""
    fmts = set()
    sites = []

    def visit(b, i, x):
        for c in calls(x):
            if c.get("fn") in fmt_fns and c["a"] and lv(c["a"][0]) == bufname:
                if c.get("fn") == "snprintf":
                    f = str_value(prog, fn, c["a"][2]) if len(c["a"]) > 2 else None
                else:
                    f = str_value(prog, fn, c["a"][1]) if len(c["a"]) > 1 else None
                fmts.add(f if f is not None else "?")
                sites.append(Site(b, i, c, c.get("line")))
                return "hit"
        for l, kind, n in writes(x):
            t = lv(l)
            if t == bufname or t.startswith(bufname + "["):
                fmts.add("?")
                return "hit"
        return None

    hits, reached_entry = backward_scan(fn.cfg, pos, visit)
    if reached_entry:
        fmts.add(None)  # may be unformatted (parameter / uninitialised)
    return fmts, sites
