"""Snapshot of /repo's working tree, regeneration of built sources, compile
database and parallel fact extraction (pipeline of DESIGN 2.1)."""
import hashlib
import json
import os
import re
import shutil
import subprocess
import sys
import tempfile
from concurrent.futures import ThreadPoolExecutor

VERIF = os.path.dirname(os.path.dirname(os.path.abspath(__file__)))
REPO = os.environ.get("ECHSE_REPO", "/repo")
EXTRACTOR = os.path.join(VERIF, "build", "echse-facts")
RESOURCE_DIR = "/usr/lib/llvm-14/lib/clang/14.0.6"


class AnalysisBroken(Exception):
    """The analysis cannot be trusted (exit 2): parse error, vanished anchor,
    instance count below the confirmed minimum, fixture not firing."""


def _run(cmd, **kw):
    return subprocess.run(cmd, stdout=subprocess.PIPE, stderr=subprocess.PIPE, text=True, **kw)


def parse_makefile_am(path):
    """Return {target: {'sources': [...], 'cppflags': [...]}} from src/Makefile.am.
    Conditionals (HAVE_LIBEV, HAVE_RT_FUNS) are taken as true: the sandbox build
    has both, and the daemon/executor units are in scope of the properties."""
    vars_ = {}
    text = open(path).read().replace("\\\n", " ")
    for line in text.splitlines():
        line = line.split("#", 1)[0].rstrip()
        m = re.match(r"^([A-Za-z0-9_]+)\s*(\+?=)\s*(.*)$", line)
        if not m:
            continue
        name, op, val = m.groups()
        if op == "=":
            vars_[name] = val.split()
        else:
            vars_.setdefault(name, []).extend(val.split())

    def expand(tokens, depth=0):
        out = []
        for t in tokens:
            m = re.fullmatch(r"\$\(([A-Za-z0-9_]+)\)", t)
            if m and depth < 8:
                out.extend(expand(vars_.get(m.group(1), []), depth + 1))
            else:
                out.append(t)
        return out

    declared = set()
    for name, val in vars_.items():
        if name.endswith("_PROGRAMS") or name.endswith("_LTLIBRARIES"):
            declared.update(re.sub(r"[^A-Za-z0-9_]", "_", v) for v in val)
    targets = {}
    for name in list(vars_):
        m = re.match(r"^(EXTRA_)?([A-Za-z0-9_]+)_SOURCES$", name)
        if not m or m.group(1):
            continue
        tgt = m.group(2)
        if tgt not in declared:
            continue
        srcs = [s for s in expand(vars_[name]) if s.endswith(".c")]
        cpp = expand(vars_.get(tgt + "_CPPFLAGS", vars_.get("AM_CPPFLAGS", [])))
        cpp = [f for f in cpp if f.startswith("-D") or f.startswith("-U")]
        targets[tgt] = {"sources": sorted(set(srcs)), "cppflags": cpp}
    return targets


class Snapshot:
    def __init__(self, repo=REPO, keep=False):
        self.repo = repo
        self.keep = keep
        self.dir = tempfile.mkdtemp(prefix="echse-sa-")
        self.src = os.path.join(self.dir, "src")
        self.facts_dir = os.path.join(self.dir, "facts")
        os.makedirs(self.facts_dir)
        self.units = []  # list of dicts: file, target, flags, out
        self.notes = []

    def close(self):
        if not self.keep:
            shutil.rmtree(self.dir, ignore_errors=True)

    def __enter__(self):
        return self

    def __exit__(self, *a):
        self.close()

    # ------------------------------------------------------------------
    def take(self):
        os.makedirs(self.src)
        srcdir = os.path.join(self.repo, "src")
        for fn in sorted(os.listdir(srcdir)):
            if fn.endswith((".c", ".h", ".erf", ".yuck", ".yucc", ".am", ".in")):
                shutil.copy2(os.path.join(srcdir, fn), os.path.join(self.src, fn))
        # top-level files some units include
        for fn in ("version.mk", "README.md"):
            p = os.path.join(self.repo, fn)
            if os.path.exists(p):
                shutil.copy2(p, os.path.join(self.dir, fn))
        if not os.path.exists(os.path.join(self.src, "config.h")):
            raise AnalysisBroken("src/config.h missing: the tree has not been configured")
        self._regenerate()
        self._compdb()
        h = hashlib.sha256()
        for fn in sorted(os.listdir(self.src)):
            h.update(fn.encode())
            with open(os.path.join(self.src, fn), "rb") as f:
                h.update(f.read())
        self.hash = h.hexdigest()[:16]
        return self

    def _regenerate(self):
        gperf = shutil.which("gperf")
        for fn in sorted(os.listdir(self.src)):
            if fn.endswith(".erf"):
                out = os.path.join(self.src, fn[:-4] + ".c")
                if gperf:
                    r = _run([gperf, "-L", "ANSI-C", fn, "--output-file", os.path.basename(out)], cwd=self.src)
                    if r.returncode != 0:
                        raise AnalysisBroken("gperf failed on %s: %s" % (fn, r.stderr[:300]))
                elif not os.path.exists(out):
                    raise AnalysisBroken("no gperf and no generated %s" % out)
                else:
                    self.notes.append("gperf missing; trusting generated " + os.path.basename(out))
        yuck = os.path.join(self.repo, "build-aux", "yuck")
        for fn in sorted(os.listdir(self.src)):
            if fn.endswith(".yuck"):
                out = fn[:-5] + ".yucc"
                if os.access(yuck, os.X_OK):
                    r = _run([yuck, "gen", "-o", out, fn], cwd=self.src)
                    if r.returncode != 0:
                        if os.path.exists(os.path.join(self.src, out)):
                            self.notes.append("yuck gen failed on %s; using generated copy" % fn)
                        else:
                            raise AnalysisBroken("yuck gen failed on %s: %s" % (fn, r.stderr[:300]))
                elif not os.path.exists(os.path.join(self.src, out)):
                    raise AnalysisBroken("no yuck and no generated %s" % out)

    def _compdb(self):
        am = os.path.join(self.src, "Makefile.am")
        targets = parse_makefile_am(am)
        seen = {}
        order = ["libechse_la", "echse", "echsq", "echsx", "echsd"]
        for tgt in order + sorted(t for t in targets if t not in order):
            info = targets.get(tgt)
            if not info:
                continue
            for s in info["sources"]:
                s = os.path.basename(s)
                if s in ("version.c",):
                    continue
                if not os.path.exists(os.path.join(self.src, s)):
                    continue
                key = (s, tuple(info["cppflags"]))
                if s in seen:
                    continue  # first target wins (library build of shared units)
                seen[s] = True
                flags = ["-std=gnu11", "-DHAVE_CONFIG_H", "-UNDEBUG", "-I" + self.src, "-I" + self.dir,
                         "-resource-dir", RESOURCE_DIR, "-Wno-everything"] + info["cppflags"]
                self.units.append({"file": s, "target": tgt, "flags": flags,
                                   "out": os.path.join(self.facts_dir, s + ".json")})
        if len(self.units) < 20:
            raise AnalysisBroken("compile database has only %d units" % len(self.units))

    def extract(self, only=None, jobs=16):
        if not os.access(EXTRACTOR, os.X_OK):
            raise AnalysisBroken("extractor %s not built: run MANIFEST.setup_cmd" % EXTRACTOR)
        units = [u for u in self.units if only is None or u["file"] in only]

        def one(u):
            cmd = [EXTRACTOR, "--root=" + self.src, "-o", u["out"], os.path.join(self.src, u["file"]), "--"] + u["flags"]
            r = _run(cmd)
            return u, r

        with ThreadPoolExecutor(max_workers=jobs) as ex:
            results = list(ex.map(one, units))
        for u, r in results:
            if r.returncode != 0 or not os.path.exists(u["out"]):
                raise AnalysisBroken("extractor failed on %s (rc=%d): %s" % (u["file"], r.returncode, r.stderr[-600:]))
        return [u for u, _ in results]


def extract_fixture(path, out, extra_flags=()):
    """Run the extractor on a stand-alone fixture file."""
    root = os.path.dirname(os.path.abspath(path))
    cmd = [EXTRACTOR, "--root=" + root, "-o", out, path, "--", "-std=gnu11", "-resource-dir", RESOURCE_DIR,
           "-Wno-everything"] + list(extra_flags)
    r = _run(cmd)
    if r.returncode != 0:
        raise AnalysisBroken("extractor failed on fixture %s: %s" % (path, r.stderr[-400:]))
    return json.load(open(out))
