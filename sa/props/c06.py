"""C06 — checkpoint file is never torn (DESIGN section 3, C06)."""
from ..facts import table_py, walk, strip, strip_casts, lv, show, writes, calls, int_value
from ..flow import cond_atoms, MustFacts
from ..q import (Site, call_sites, site_before, forward_scan, backward_scan, const_eval, str_value, reaching_format,
                 edge_start, must_pass_to_exit, elem_has_call)
from ..snapshot import AnalysisBroken
from ..absw import AbsWalk

UNITS = None
DAEMON = "echsd.c"
LIVE_FMT = "echsq_%u.ics"
DOT_FMT = "." + LIVE_FMT
JOURNAL_FMT = "echsj_%u.ics"
O_WRONLY, O_RDWR, O_CREAT, O_TRUNC, O_APPEND = 0o1, 0o2, 0o100, 0o1000, 0o2000
WRITERS = ("echs_task_icalify", "echs_icalify_init", "echs_unsc_icalify", "fdprintf", "fdwrite", "fdputc", "fdbang",
           "write", "dprintf", "pwrite", "writev", "sendfile", "splice")

EXPLANATION = (
    "Static rules over echsd.c's resolved CFGs. R06.1: in every function that renames into the spool, each path to the rename "
    "passes echs_icalify_fini(fd) -> close(fd) -> renameat(qdirfd, X, qdirfd, X+1) in that order, X last formatted with the dot-file "
    "pattern for the uid paired with that descriptor, results of close/rename tested, failure edges pass unlinkat(X) and an error "
    "result, nothing uses fd after close, nothing writes between fini and close. R06.2: the only create/truncate/unlink/rename sites "
    "relative to the spool directory are the dot-file, and the journal without O_TRUNC; the live name is only a rename target or read. "
    "R06.3: every checkpoint-path call that reaches write(2) makes a failure observable to the rename decision. R06.4: dirty marking "
    "and shutdown checkpoint. R06.5: reload filter literals agree with the rename target and the owner keyword is read back. R06.7: a user whose queue became empty still gets his file rewritten - by the per-user checkpoint (a "
    "feasible path writes a header-only file) and by the all-users dump (which must learn of such users from something other than the task "
    "table). R06.8: a value read from the per-user slot array is not passed on after the index has moved. R06.6 (= R05.6): the buffered writer "
    "behind every checkpoint never formats from a consumed va_list, so a task larger than the 4096-byte buffer cannot crash the writer "
    "half-way through a file.")
NOT_DECIDED = ("that a reloaded daemon schedules exactly the accepted set (needs execution of a reload); atomicity of rename(2) "
               "is an OS guarantee and an assumption")
TRUSTED = ["clang 14 parser/CFG builder", "echse-facts extractor", "python rule engines in /verif/sa", "POSIX rename(2) atomicity"]
LEVEL_TEXT = ("Static verdict on necessary structural clauses of C06 for every path of the checkpoint code: the write-close-rename "
              "protocol and its failure edges, the set of sites that may create/truncate/unlink/rename spool files, observability of "
              "write errors before the rename, dirty marking on every acknowledged change, checkpoint on shutdown, and agreement of the "
              "reload filter with the writer. It decides those clauses (which every crash point and single failing syscall relies on), "
              "not the reload behaviour itself.")
LEVEL_NOTE = ("Trusted: clang 14 front end/CFG, extractor, rule engines; rename(2) atomicity is assumed. Value-level behaviour of a reload "
              "is not decided.")
TECHNIQUE = "static analysis: must-pass-through / dominance on clang CFGs, who-may-call rule over resolved call sites, format-string agreement"


def _arg_is_qdirfd(a):
    a = strip_casts(a)
    return isinstance(a, dict) and a.get("k") == "ref" and a["n"] == "qdirfd"


def _daemon_fns(prog):
    fl = [f for f in prog.fns_in(DAEMON) if f.cfg]
    if len(fl) < 60:
        raise AnalysisBroken("echsd.c: only %d functions extracted" % len(fl))
    return fl


def _tested_negative(fn, site):
    """Is the call at `site` the operand of a `< 0` test that is the branch
    condition of its block (possibly through UNLIKELY)?  Returns the
    successor index of the failure edge or None."""
    cfg = fn.cfg
    c = cfg.cond(site.b)
    if c is None:
        return None
    # the condition must be (call < 0) or contain the assignment (v = call) < 0
    for truth in (True, False):
        for a in cond_atoms(c, truth):
            if len(a) == 5 and a[0] == "<" and int_value(a[4]) == 0:
                l = a[3]
                for n in walk(l):
                    if n.get("k") == "call" and n.get("fn") == site.node.get("fn") and n.get("line") == site.node.get("line"):
                        return 0 if truth else 1
    return None


def _worlds(f, S, is_unlink, is_errmark, reformat):
    """Path-sensitive consequences of the call at site S failing (-1) or succeeding (0): constant propagation carries the result through
    conditions and temporaries alike.  Returns (fail_exits, succ_bad): fail_exits = [(unlinked, errored)] for every exit reached after
    a failing evaluation of S; succ_bad = a successful evaluation is followed by an unlink of the same name before it is re-formatted."""
    cfg = f.cfg
    # result carriers: locals that receive the value of close()/renameat() (directly or in a chain of plain copies)
    tracked = set()
    for b, i, x, line in cfg.all_elems():
        for l, kind, n in writes(x):
            rhs = n.get("init") if kind == "decl" else (n.get("r") if n.get("k") == "bin" and n["op"] == "=" else None)
            if rhs is None:
                continue
            if any(c.get("fn") in ("close", "renameat") for c in calls(cfg.resolve(rhs))):
                tracked.add(lv(l))
    # ... and status flags: locals that only ever receive integer constants or copies of tracked values
    defs = {}
    for b, i, x, line in cfg.all_elems():
        for l, kind, n in writes(x):
            rhs = n.get("init") if kind == "decl" else (n.get("r") if n.get("k") == "bin" and n["op"] == "=" else None)
            defs.setdefault(lv(l), []).append(None if rhs is None and kind != "decl" else rhs)
    changed = True
    while changed:
        changed = False
        for v, ds in defs.items():
            if v in tracked or not v or "->" in v or "." in v or "[" in v:
                continue
            ok = True
            for d in ds:
                if d is None:
                    continue   # declaration without initialiser
                d_ = strip_casts(cfg.resolve(d))
                if int_value(d_) is not None or (d_.get("k") == "un" and d_["op"] == "-" and int_value(strip_casts(d_["e"])) is not None):
                    continue
                if lv(d_) in tracked:
                    continue
                ok = False
            if ok and any(d is not None for d in ds):
                tracked.add(v)
                changed = True
    def is_site(x):
        return isinstance(x, dict) and x.get("k") == "call" and x.get("fn") == S.node.get("fn") and x.get("line") == S.node.get("line")
    out = {}
    for world in (-1, 0):
        def call_eval(x, store, _w=world):
            return _w if is_site(x) else None

        def effect(b, i, x, store, _w=world):
            upd = {}
            if is_site(x):
                upd.update({"$done": 1, "$unl": 0, "$err": 0, "$armed": 1})
            if is_unlink(x):
                upd["$unl"] = 1
                if store.get("$armed") and _w == 0:
                    upd["$bad"] = 1
            if is_errmark(x):
                upd["$err"] = 1
            if reformat(x):
                upd["$armed"] = 0
            return upd or None
        w = AbsWalk(f, tracked, init={}, effect=effect, call_eval=call_eval, max_states=400000)
        w.run(start_block=S.b)
        out[world] = [st for st in w.exit_stores if st.get("$done")]
    fail_exits = [(bool(st.get("$unl")), bool(st.get("$err"))) for st in out[-1]]
    succ_bad = any(st.get("$bad") for st in out[0])
    return fail_exits, succ_bad


def r06_1(prog, rep):
    rid = "R06.1"
    fl = _daemon_fns(prog)
    renamers = [f for f in fl if call_sites(f, ("renameat", "rename", "renameat2"))]
    if len(renamers) < 2:
        rep.broken_("rule=R06.1 expected >=2 functions renaming into the spool, found %d" % len(renamers))
    for f in renamers:
        cfg = f.cfg
        for R in call_sites(f, ("renameat", "rename", "renameat2")):
            a = R.node["a"]
            pre = "%s/rename" % f.name
            if R.node["fn"] != "renameat" or len(a) != 4:
                rep.fail(rid, pre + "/form", f.loc(R.line), "rename into the spool is not renameat(qdirfd, X, qdirfd, X + 1): %s" % show(R.node))
                continue
            src = strip_casts(a[1])
            dst = strip_casts(a[3])
            X = lv(src)
            ok = (_arg_is_qdirfd(a[0]) and _arg_is_qdirfd(a[2]) and dst.get("k") == "bin" and dst["op"] == "+"
                  and lv(dst["l"]) == X and int_value(dst["r"]) == 1)
            if ok:
                rep.ok(rid, pre + "/args", f.loc(R.line), "renameat(qdirfd, %s, qdirfd, %s + 1)" % (X, X))
            else:
                rep.fail(rid, pre + "/args", f.loc(R.line), "rename arguments are not (qdirfd, X, qdirfd, X + 1): %s" % show(R.node))
            # 2. format of X at the rename
            fmts, fsites = reaching_format(prog, f, X, (R.b, R.i))
            if fmts == {DOT_FMT}:
                rep.ok(rid, pre + "/source-format", f.loc(R.line), "name buffer %s holds %r on every path to the rename" % (X, DOT_FMT))
            else:
                rep.fail(rid, pre + "/source-format", f.loc(R.line),
                         "name buffer %s at the rename may hold %s (required: exactly %r so that X+1 is the live name %r)" % (
                             X, sorted(map(str, fmts)), DOT_FMT, LIVE_FMT))
            # 3. close before rename on every path
            closes = []

            def vclose(b, i, x):
                for c in calls(x):
                    if c.get("fn") == "close":
                        closes.append(Site(b, i, c, c.get("line")))
                        return "hit"
                for c in calls(x):
                    if c.get("fn") in WRITERS:
                        return "hit"  # recorded as a non-close hit below
                return None
            hits, reached_entry = backward_scan(cfg, (R.b, R.i), vclose)
            nonclose = [h for h in hits if not any((s.b, s.i) == h for s in closes)]
            if reached_entry or nonclose or not closes:
                rep.fail(rid, pre + "/close-before", f.loc(R.line),
                         "a path reaches the rename without close() of the written descriptor immediately before it"
                         + (" (writer call between close and rename)" if nonclose else ""))
                continue
            rep.ok(rid, pre + "/close-before", f.loc(R.line), "every path to the rename passes close(%s)" % ", ".join(sorted({lv(c.node["a"][0]) for c in closes})))
            # results of close and rename decide (checked below through their failure worlds)
            sites_to_fail = [("rename", R)]
            for C in closes:
                FD = lv(C.node["a"][0])
                sites_to_fail.append(("close", C))
                # 4. fini before close, no writer in between
                finis = []

                def vfini(b, i, x):
                    for c in calls(x):
                        if c.get("fn") == "echs_icalify_fini" and lv(c["a"][0]) == FD:
                            finis.append(Site(b, i, c, c.get("line")))
                            return "hit"
                    for c in calls(x):
                        if c.get("fn") in WRITERS:
                            return "hit"
                    for l, kind, n in writes(x):
                        if lv(l) == FD and kind != "decl":
                            return "hit"
                    return None
                hits, reached_entry = backward_scan(cfg, (C.b, C.i), vfini)
                bad = [h for h in hits if not any((s.b, s.i) == h for s in finis)]
                if reached_entry or bad or not finis:
                    what = "a writer call or reassignment of the descriptor lies between the flush and close" if bad else \
                        "a path reaches close(%s) without echs_icalify_fini(%s) (footer + flush)" % (FD, FD)
                    rep.fail(rid, "%s/fini-before-close" % f.name, f.loc(C.line), what)
                else:
                    rep.ok(rid, "%s/fini-before-close" % f.name, f.loc(C.line),
                           "every path to close(%s) passes echs_icalify_fini(%s) with no write in between" % (FD, FD))
                # 7. no use of fd after close
                def vuse(b, i, x):
                    for l, kind, n in writes(x):
                        if lv(l) == FD:
                            return "stop"
                    for c in calls(x):
                        if any(lv(a_) == FD for a_ in c["a"]):
                            return "hit"
                    return None
                uses, _ = forward_scan(cfg, (C.b, C.i), vuse)
                if uses:
                    b_, i_ = uses[0]
                    rep.fail(rid, "%s/no-use-after-close" % f.name, f.loc(cfg.blocks[b_].elems[i_].get("line")),
                             "descriptor %s is used after close: %s" % (FD, show(cfg.resolve(cfg.elem(b_, i_)))))
                else:
                    rep.ok(rid, "%s/no-use-after-close" % f.name, f.loc(C.line), "no call takes %s after close until it is redefined" % FD)
            # 6. failure edges
            retvars = set()
            for b, i, x, line in cfg.all_elems():
                if isinstance(x, dict) and x.get("k") == "ret" and x.get("e") is not None:
                    e = strip_casts(cfg.resolve(x["e"]))
                    if e.get("k") == "ref":
                        retvars.add(e["n"])

            def is_unlink(x):
                for c in calls(x):
                    if c.get("fn") == "unlinkat" and len(c["a"]) == 3 and _arg_is_qdirfd(c["a"][0]) and lv(c["a"][1]) == X:
                        return True
                return False

            def is_errmark(x):
                x = cfg.resolve(x)
                if x.get("k") == "ret" and x.get("e") is not None:
                    v = const_eval(f, x["e"])
                    return v is not None and v < 0
                for l, kind, n in writes(x):
                    if lv(l) in retvars and n.get("k") == "bin" and n["op"] == "=":
                        v = const_eval(f, n["r"])
                        if v is not None and v < 0:
                            return True
                return False
            def reformat(x):
                for c in calls(x):
                    if c.get("fn") in ("snprintf",) and c["a"] and lv(c["a"][0]) == X:
                        return True
                return False
            for what, S in sites_to_fail:
                fail_exits, succ_bad = _worlds(f, S, is_unlink, is_errmark, reformat)
                kc = (pre + "/rename-checked") if what == "rename" else ("%s/close-checked" % f.name)
                k1 = "%s/%s-failure/unlink" % (f.name, what)
                k2 = "%s/%s-failure/error-result" % (f.name, what)
                if not fail_exits:
                    rep.fail(rid, kc, f.loc(S.line), "no path evaluates %s() and reaches the exit (cannot follow its result)" % S.node["fn"])
                    continue
                if any(not u and not e for u, e in fail_exits):
                    rep.fail(rid, kc, f.loc(S.line), "a failing %s() can reach the exit exactly like a successful one: its result does not decide "
                             "between success and failure%s" % (S.node["fn"], " before the rename" if what == "close" else ""))
                else:
                    rep.ok(rid, kc, f.loc(S.line), "a negative result of %s() never reaches the exit on the success path" % S.node["fn"])
                if all(u for u, e in fail_exits):
                    rep.ok(rid, k1, f.loc(S.line), "failure of %s passes unlinkat(qdirfd, %s, 0)" % (what, X))
                else:
                    rep.fail(rid, k1, f.loc(S.line), "a path on which %s has failed reaches the exit without unlinkat(qdirfd, %s, 0)" % (what, X))
                if all(e for u, e in fail_exits):
                    rep.ok(rid, k2, f.loc(S.line), "failure of %s reaches a negative result" % what)
                else:
                    rep.fail(rid, k2, f.loc(S.line), "a path on which %s has failed returns without a negative result" % what)
                if what == "rename":
                    if succ_bad:
                        rep.fail(rid, pre + "/success-keeps-file", f.loc(R.line), "after a successful rename the same name is unlinked")
                    else:
                        rep.ok(rid, pre + "/success-keeps-file", f.loc(R.line), "a successful rename is never followed by an unlink of that name")
            # 8. descriptor / uid pairing
            _pairing(prog, rep, rid, f, R, X, closes, fsites)


def _pairing(prog, rep, rid, f, R, X, closes, fsites):
    """The uid formatted into the renamed name is the uid the closed descriptor was opened for."""
    cfg = f.cfg
    key = "%s/descriptor-uid-pairing" % f.name
    opens = []
    for O in call_sites(f, "openat"):
        fl = const_eval(f, O.node["a"][2]) if len(O.node["a"]) > 2 else None
        if fl is not None and (fl & O_TRUNC) and lv(O.node["a"][1]) == X:
            opens.append(O)
    if not opens or not closes or not fsites:
        rep.fail(rid, key, f.loc(R.line), "cannot find the truncating openat / close / snprintf triple for the renamed name")
        return
    problems = []
    for O in opens:
        ofm, osites = reaching_format(prog, f, X, (O.b, O.i))
        if ofm != {DOT_FMT}:
            problems.append("openat(O_TRUNC) at line %s may open %s" % (O.line, sorted(map(str, ofm))))
            continue
        # variable the descriptor is stored in
        el = cfg.resolve(cfg.elem(O.b, len(cfg.blocks[O.b].elems) - 1)) if False else None
        fdvar = None
        for b, i, x, line in cfg.all_elems():
            for l, kind, n in writes(cfg.resolve(x) if b == O.b else x):
                if n.get("k") == "bin" and n["op"] == "=":
                    r = strip_casts(n["r"])
                    if r.get("k") == "call" and r.get("fn") == "openat" and r.get("line") == O.line:
                        fdvar = lv(l)
        uidO = {show(s.node["a"][3]) for s in osites if len(s.node["a"]) > 3}
        uidR = {show(s.node["a"][3]) for s in fsites if len(s.node["a"]) > 3}
        cfd = {lv(c.node["a"][0]) for c in closes}
        same_format_site = {(s.b, s.i) for s in osites} == {(s.b, s.i) for s in fsites}
        if same_format_site and cfd == {fdvar}:
            continue  # chkpnt1 shape: one buffer, one descriptor, formatted once
        # chkpnta shape: (uid, fd) travel together through one array element
        pair_store = None
        for b, i, x, line in cfg.all_elems():
            x = cfg.resolve(x)
            for l, kind, n in writes(x):
                if n.get("k") == "bin" and n["op"] == "=" and strip_casts(n["r"]).get("k") == "init":
                    fs = {p[0]: p[1] for p in strip_casts(n["r"])["fs"] if p[1] is not None}
                    vals = {k_: lv(v) for k_, v in fs.items()}
                    if fdvar in vals.values() and any(v in uidO for v in vals.values()):
                        pair_store = (lv(strip_casts(l).get("b", l)) if strip_casts(l).get("k") == "idx" else lv(l), vals)
        if pair_store is None:
            problems.append("descriptor %s opened at line %s is not stored together with its uid" % (fdvar, O.line))
            continue
        arr, vals = pair_store
        fld_fd = [k_ for k_, v in vals.items() if v == fdvar]
        fld_uid = [k_ for k_, v in vals.items() if v in uidO]
        # rename side: close(fdv) and snprintf(.., uidv) where fdv <- arr[i].fld_fd and uidv <- arr[i].fld_uid, same i
        def origin(varname):
            outs = set()
            for b, i, x, line in cfg.all_elems():
                for l, kind, n in writes(x):
                    if lv(l) == varname and kind == "decl" and n.get("init") is not None:
                        outs.add(lv(cfg.resolve(n["init"])))
            return outs
        ok = False
        for cv in cfd:
            for uv in uidR:
                for oc in origin(cv):
                    for ou in origin(uv):
                        if oc.startswith(arr + "[") and ou.startswith(arr + "[") and oc.rsplit(".", 1)[0] == ou.rsplit(".", 1)[0] \
                                and oc.rsplit(".", 1)[1] in fld_fd and ou.rsplit(".", 1)[1] in fld_uid:
                            ok = True
        if not ok:
            problems.append("the uid formatted for the rename (%s) and the closed descriptor (%s) are not read from the same %s[] element "
                            "(.%s/.%s)" % (sorted(uidR), sorted(cfd), arr, "/".join(fld_uid), "/".join(fld_fd)))
    if problems:
        rep.fail(rid, key, f.loc(R.line), "; ".join(problems))
    else:
        rep.ok(rid, key, f.loc(R.line), "renamed name is formatted for the uid the closed descriptor was opened for")


def r06_2(prog, rep):
    """Who may write the spool."""
    rid = "R06.2"
    n = 0
    for f in _daemon_fns(prog):
        for S in call_sites(f, ("openat", "open", "creat", "fopen", "mkstemp", "mkostemp", "unlinkat", "unlink", "rename",
                                "renameat", "truncate", "ftruncate", "linkat", "symlinkat", "openat64", "open64", "remove")):
            c = S.node
            fnm = c["fn"]
            key = "%s/%s(%s)" % (f.name, fnm, ", ".join(lv(a) for a in c["a"][:2]))
            spool = any(_arg_is_qdirfd(a) for a in c["a"])
            name_arg = None
            if fnm in ("openat", "unlinkat", "openat64"):
                name_arg = c["a"][1]
            elif fnm in ("open", "creat", "fopen", "unlink", "truncate", "remove", "open64", "mkstemp", "mkostemp"):
                name_arg = c["a"][0]
            fmts = set()
            if name_arg is not None:
                nm = strip_casts(name_arg)
                s = str_value(prog, f, nm)
                if s is not None:
                    fmts = {s}
                elif nm.get("k") == "ref" and nm.get("dk") in ("local", "slocal"):
                    fmts, _ = reaching_format(prog, f, nm["n"], (S.b, S.i))
                else:
                    fmts = {None}
            touches_queue_name = any(isinstance(x, str) and "echsq_" in x for x in fmts)
            if fnm in ("renameat", "rename"):
                n += 1
                if spool or touches_queue_name:
                    rep.ok(rid, key, f.loc(S.line), "rename into the spool: protocol checked by R06.1")
                continue
            if not spool and not touches_queue_name:
                rep.ok(rid, key, f.loc(S.line), "not relative to the spool directory (%s)" % sorted(map(str, fmts)), nontrivial=False)
                n += 1
                continue
            n += 1
            if fnm in ("openat", "open", "openat64", "open64"):
                fi = 2 if fnm.startswith("openat") else 1
                fl = const_eval(f, c["a"][fi]) if len(c["a"]) > fi else None
                if fl is None:
                    rep.fail(rid, key, f.loc(S.line), "open flags are not a compile-time constant: %s" % show(c["a"][fi]))
                    continue
                writing = fl & (O_WRONLY | O_RDWR | O_CREAT | O_TRUNC | O_APPEND)
                if not writing:
                    rep.ok(rid, key, f.loc(S.line), "read-only open of %s" % sorted(map(str, fmts)))
                elif fmts == {DOT_FMT}:
                    if (fl & O_TRUNC) and (fl & O_CREAT) and (fl & O_WRONLY):
                        rep.ok(rid, key, f.loc(S.line), "dot-file opened O_WRONLY|O_CREAT|O_TRUNC")
                    else:
                        rep.fail(rid, key, f.loc(S.line), "dot-file opened with flags %#o: a stale dot-file would not be truncated" % fl)
                elif fmts == {JOURNAL_FMT} and not (fl & O_TRUNC):
                    rep.ok(rid, key, f.loc(S.line), "journal opened without O_TRUNC")
                else:
                    rep.fail(rid, key, f.loc(S.line),
                             "%s opens %s in the spool with write flags %#o; only the dot-file %r (and the journal without O_TRUNC) may be written" % (
                                 fnm, sorted(map(str, fmts)), fl, DOT_FMT))
            elif fnm in ("unlinkat", "unlink", "remove", "truncate"):
                if fmts == {DOT_FMT}:
                    rep.ok(rid, key, f.loc(S.line), "removes the dot-file only")
                else:
                    rep.fail(rid, key, f.loc(S.line), "%s may remove/truncate %s in the spool; only the dot-file may be removed" % (fnm, sorted(map(str, fmts))))
            else:
                rep.fail(rid, key, f.loc(S.line), "%s creates a file in the spool outside the checkpoint protocol" % fnm)
    return n


# ---------------------------------------------------------------------------
# R06.3 error discipline: may-fail writers on the checkpoint path


def _reaches_write(prog, memo, name, depth=0):
    """Does function `name` transitively call write(2)?"""
    if name in memo:
        return memo[name]
    memo[name] = False
    if name in ("write", "pwrite", "writev"):
        memo[name] = True
        return True
    if depth > 8:
        return False
    res = False
    for f in prog.functions.get(name, []):
        if not f.cfg:
            continue
        for b, i, c, line in f.all_calls():
            cn = c.get("fn")
            if cn and _reaches_write(prog, memo, cn, depth + 1):
                res = True
                break
            if cn is None:
                ce = strip_casts(c.get("ce"))
                if isinstance(ce, dict) and ce.get("k") == "mem" and ce["f"] == "seria":
                    res = True  # stream serialisers write through fdprintf/fdwrite
                    break
        if res:
            break
    memo[name] = res
    return res


def r06_3(prog, rep):
    rid = "R06.3"
    memo = {}
    n = 0
    for fname in ("chkpnt1", "chkpnta"):
        f = prog.fn(fname, DAEMON)
        cfg = f.cfg
        renames = call_sites(f, "renameat")
        if not renames:
            raise AnalysisBroken("R06.3: no renameat in %s" % fname)
        blind = []
        for b, i, c, line in f.all_calls():
            cn = c.get("fn")
            if not cn or cn in ("renameat", "close", "unlinkat", "openat", "snprintf", "chkpnt1"):
                continue
            if not _reaches_write(prog, memo, cn):
                continue
            # only calls from which a rename is reachable matter
            if not any(b == R.b and i < R.i or R.b in cfg.reach_from(b) for R in renames):
                continue
            n += 1
            callee = prog.functions.get(cn, [None])[0]
            returns_void = callee is not None and callee.ret.get("t") == "void"
            used = False
            for bb, ii, x, ln in cfg.all_elems():
                for nnode in walk(x):
                    if nnode.get("k") == "elem" and nnode["b"] == b and nnode["i"] == i and (bb, ii) != (b, i):
                        used = True
            if returns_void or not used:
                blind.append((cn, line, "returns void" if returns_void else "result discarded"))
        key = "%s/write-errors-unobservable" % fname
        if blind:
            rep.fail(rid, key, f.loc(blind[0][1]),
                     "calls that reach write(2) on the checkpoint descriptor cannot report failure to the rename decision: %s; "
                     "a failed/short write (ENOSPC, EIO) leaves a truncated dot-file that is then renamed over the live queue file" % (
                         ", ".join("%s() line %s (%s)" % t for t in sorted(set(blind)))),
                     {"calls": sorted(set(blind))})
        else:
            rep.ok(rid, key, f.loc(), "every writer on the checkpoint path returns a result that is consumed")
    # fdflush itself: a short write must be visible in its result and the result must be propagated by its callers
    return n


def r06_4(prog, rep):
    """Dirty marking and shutdown checkpoint."""
    rid = "R06.4"
    f = prog.fn("cmd_ical", DAEMON)
    cfg = f.cfg
    succ = prog.enumerator("INSVERB_SUCC")
    # path-sensitive walk: ghost $acked is set when a reply is serialised while ins.v == SUCC (or unknown),
    # ghost $marked when add_chkpnt() runs; no exit may have $acked without $marked.
    nsucc = 0
    for b, i, x, line in cfg.all_elems():
        for l, kind, nn in writes(x):
            if lv(l).endswith(".v") and nn.get("k") == "bin" and nn["op"] == "=" and int_value(nn["r"]) == succ:
                nsucc += 1
    if nsucc < 2:
        rep.broken_("rule=R06.4 expected >=2 success assignments in cmd_ical, found %d" % nsucc)
    flags = {l_["n"] for l_ in f.locals if l_.get("t") in ("bool", "_Bool")}

    def effect(b, i, x, store):
        upd = {}
        for c in calls(x):
            if c.get("fn") == "cmd_ical_rpl":
                a1 = strip_casts(c["a"][1]) if len(c["a"]) > 1 else {}
                if a1.get("k") == "init":
                    vv = dict((p_[0], p_[1]) for p_ in a1["fs"]).get("v")
                    verb = int_value(vv) if vv is not None else 0
                elif a1.get("k") == "ref":
                    verb = store.get(a1["n"] + ".v", succ)  # unknown verb: assume it may acknowledge
                else:
                    verb = succ
                if verb == succ:
                    upd["$acked"] = 1
            elif c.get("fn") == "add_chkpnt":
                upd["$marked"] = 1
        return upd

    def assume(b, si, cond, store):
        return None
    w = AbsWalk(f, {"ins.v"} | flags, init={}, effect=effect).run()
    bad = [s_ for s_ in w.exit_stores if s_.get("$acked") and not s_.get("$marked")]
    if not w.exit_stores:
        rep.broken_("rule=R06.4 abstract walk of cmd_ical reached no exit")
    if bad:
        rep.fail(rid, "cmd_ical/ack-implies-dirty-mark", f.loc(),
                 "a feasible path serialises a success reply and leaves cmd_ical without add_chkpnt (store at exit: %s)" % bad[0])
    else:
        rep.ok(rid, "cmd_ical/ack-implies-dirty-mark", f.loc(),
               "on all %d abstract paths (%d states, %d forks) a success reply implies add_chkpnt before return" % (
                   len(w.exit_stores), len(w.visited), w.forks))
    # add_chkpnt argument is the peer's uid
    for S in call_sites(f, "add_chkpnt"):
        a = lv(S.node["a"][0])
        if a.endswith("cred.u") or a == "cred.u":
            rep.ok(rid, "cmd_ical/add_chkpnt-arg", f.loc(S.line), "dirty mark is for the peer's uid (%s)" % a)
        else:
            rep.fail(rid, "cmd_ical/add_chkpnt-arg", f.loc(S.line), "dirty mark uses %s, not the peer credential's uid" % a)
    # add_chkpnt itself: the only way out without recording the uid is a full slot table (which means "dump everybody")
    ac = prog.fn("add_chkpnt", DAEMON)
    acfg = ac.cfg
    upar = ac.params[0]["n"]

    def records(x):
        for l, kind, nn in writes(x):
            if lv(l).endswith(".key") and nn.get("k") == "bin" and lv(acfg.resolve(nn["r"])) == upar:
                return True
        return False
    cap = None
    for b in acfg.blocks:
        c = acfg.cond(b)
        if c is None:
            continue
        for a in cond_atoms(c, True):
            if len(a) == 5 and a[0] == "<" and a[1] == "ichkpnts":
                cap = b
    if cap is None:
        rep.fail(rid, "add_chkpnt/records-uid", ac.loc(), "no capacity test `ichkpnts < countof(chkpnts)` found in add_chkpnt")
    else:
        # every path from entry reaches the capacity test, and its true edge always records
        hits, reached = forward_scan(acfg, (acfg.entry, -1), lambda b_, i_, x_: "stop" if b_ == cap else None)
        early = reached  # an exit reachable without passing the capacity test
        rec_ok = must_pass_to_exit(acfg, edge_start(acfg, cap, 0), records)
        if not early and rec_ok:
            rep.ok(rid, "add_chkpnt/records-uid", ac.loc(), "every call either records the uid or finds the slot table full (then everybody is dumped)")
        else:
            rep.fail(rid, "add_chkpnt/records-uid", ac.loc(),
                     "add_chkpnt can return without recording the uid although slots are free (%s): an acknowledged change of that user is never checkpointed" % (
                         "early return before the capacity test" if early else "the non-full branch does not store the uid"))
    # chkpnt() resets the slot counter after the dump
    ck = prog.fn("chkpnt", DAEMON)
    if must_pass_to_exit(ck.cfg, (ck.cfg.entry, -1), lambda x: any(lv(l) == "ichkpnts" and nn.get("k") == "bin" and int_value(nn["r"]) == 0 for l, k_, nn in writes(x))):
        rep.ok(rid, "chkpnt/resets-slots", ck.loc(), "every exit of chkpnt() clears the dirty-user counter")
    else:
        rep.fail(rid, "chkpnt/resets-slots", ck.loc(), "chkpnt() can return without clearing the dirty-user counter")
    # unsched reaches add_chkpnt
    u = prog.fn("unsched", DAEMON)
    if must_pass_to_exit(u.cfg, (u.cfg.entry, -1), lambda y: elem_has_call(y, "add_chkpnt")):
        rep.ok(rid, "unsched/add_chkpnt", u.loc(), "retiring a task marks its owner dirty on every path")
    else:
        rep.fail(rid, "unsched/add_chkpnt", u.loc(), "unsched() can return without add_chkpnt")
    # free_echsd: chkpnt before free_task_ht / free_task_pools
    fe = prog.fn("free_echsd", DAEMON)
    ck = call_sites(fe, "chkpnt")
    for victim in ("free_task_ht", "free_task_pools"):
        vs = call_sites(fe, victim)
        key = "free_echsd/chkpnt-before-%s" % victim
        if not vs:
            rep.note(rid, key, fe.loc(), "%s not called here" % victim)
            continue
        for V in vs:
            if ck and all(site_before(fe.cfg, C, V) for C in ck[:1]):
                rep.ok(rid, key, fe.loc(V.line), "shutdown checkpoints before the task table is freed")
            else:
                rep.fail(rid, key, fe.loc(V.line), "task table is freed on a path that has not run chkpnt()")
    # main reaches free_echsd after echsd_run on every path
    m = prog.fn("main", DAEMON)
    runs = call_sites(m, "echsd_run") or call_sites(m, "ev_loop") or call_sites(m, "ev_run")
    if not runs:
        # the loop may be entered inline
        rep.note(rid, "main/free_echsd", m.loc(), "no echsd_run call found; skipping")
    for S in runs:
        if must_pass_to_exit(m.cfg, (S.b, S.i), lambda y: elem_has_call(y, "free_echsd")):
            rep.ok(rid, "main/free_echsd-after-run", m.loc(S.line), "every exit after the event loop passes free_echsd()")
        else:
            rep.fail(rid, "main/free_echsd-after-run", m.loc(S.line), "main can exit after the event loop without free_echsd() (no shutdown checkpoint)")


def r06_5(prog, rep):
    """Reload filter agrees with the writer."""
    rid = "R06.5"
    f = prog.fn("echsd_inject_queues", DAEMON)
    prfx = prog.table("prfx", DAEMON, "function:echsd_inject_queues")
    sufx = prog.table("sufx", DAEMON, "function:echsd_inject_queues")

    def sval(t):
        if isinstance(t.get("init"), dict) and t["init"].get("k") == "str":
            return t["init"]["v"]
        v = t.get("values")
        if isinstance(v, dict):
            return v.get("str")
        return bytes(c & 0xff for c in v).split(b"\0")[0].decode("latin-1")
    p, s = sval(prfx), sval(sufx)
    live = LIVE_FMT
    lp, ls = live.split("%u")
    if p == lp and s == ls:
        rep.ok(rid, "inject_queues/prefix-suffix", f.loc(), "reload accepts %r...%r = the rename target pattern %r" % (p, s, live))
    else:
        rep.fail(rid, "inject_queues/prefix-suffix", f.loc(), "reload filter %r...%r does not match the live name %r" % (p, s, live))
    if DOT_FMT.startswith(p):
        rep.fail(rid, "inject_queues/rejects-dotfile", f.loc(), "the reload filter would also accept the dot-file being written")
    else:
        rep.ok(rid, "inject_queues/rejects-dotfile", f.loc(), "dot-file %r does not match prefix %r" % (DOT_FMT, p))
    # both strncmp tests must guard the call to _inject_file
    inj = call_sites(f, "_inject_file")
    cmps = call_sites(f, "strncmp")
    if len(cmps) >= 2 and inj and all(site_before(f.cfg, c, inj[0]) for c in cmps):
        # each strncmp's non-zero edge must avoid _inject_file
        good = True
        for c in cmps:
            cond = f.cfg.cond(c.b)
            if cond is None:
                good = False
                continue
            st = edge_start(f.cfg, c.b, 0)  # strncmp != 0 -> true edge
            blk = f.cfg.blocks[c.b]
            # true edge must not reach _inject_file before the loop's next readdir
            hits, _ = forward_scan(f.cfg, st, lambda b, i, x: "hit" if elem_has_call(x, "_inject_file") else ("stop" if elem_has_call(x, "readdir") else None))
            if hits:
                good = False
        if good:
            rep.ok(rid, "inject_queues/filter-guards-load", f.loc(inj[0].line), "prefix and suffix mismatches both skip _inject_file")
        else:
            rep.fail(rid, "inject_queues/filter-guards-load", f.loc(inj[0].line), "a name failing the prefix/suffix test can still be loaded")
    else:
        rep.fail(rid, "inject_queues/filter-guards-load", f.loc(), "expected two strncmp tests dominating _inject_file")
    # _inject_file loads with NOT_A_UID so the owner recorded in the file is used
    jf = prog.fn("_inject_file", DAEMON)
    inj1 = call_sites(jf, "_inject_task1")
    if not inj1:
        rep.fail(rid, "_inject_file/_inject_task1", jf.loc(), "reload no longer injects tasks")
    for S in inj1:
        a = S.node["a"][-1]
        v = const_eval(jf, a)
        if v is not None and (v & 0xffffffff) == 0xffffffff:
            rep.ok(rid, "_inject_file/owner-from-file", jf.loc(S.line), "reload passes NOT_A_UID: the owner recorded in the file decides")
        else:
            rep.fail(rid, "_inject_file/owner-from-file", jf.loc(S.line), "reload injects with uid %s instead of NOT_A_UID" % show(a))
    # the owner keyword the writer emits is a reader keyword
    wl = _gperf_words(prog, "evical-gp.c")
    init = prog.fn("echs_icalify_init", "evical.c")
    emitted = []
    for b, i, c, line in init.all_calls():
        if c.get("fn") in ("fdprintf", "fdwrite"):
            sv = str_value(prog, init, c["a"][0])
            if sv:
                emitted.append(sv)
    owner_lines = [e for e in emitted if "OWNER" in e]
    if not owner_lines:
        rep.fail(rid, "icalify_init/owner-emitted", init.loc(), "the checkpoint header no longer records the owner")
    for e in owner_lines:
        kw = e.split(":")[0].split(";")[0].strip()
        if kw in wl:
            rep.ok(rid, "icalify_init/owner-keyword", init.loc(), "%s is written by the checkpoint header and is a reader keyword" % kw)
        else:
            rep.fail(rid, "icalify_init/owner-keyword", init.loc(), "%s is written by the checkpoint header but the reader does not know it" % kw)


def _gperf_words(prog, file):
    out = set()
    for t in prog.tables.get("wordlist", []):
        if t["file"].endswith(file.replace(".c", ".erf")) or t["file"].endswith(file):
            for ent in table_py(t) or []:
                if isinstance(ent, dict):
                    for v in ent.values():
                        if isinstance(v, str) and v:
                            out.add(v)
    return out


def r06_7(prog, rep):
    """A user whose queue became empty still gets his file rewritten.  The per-user checkpoint does (it writes an empty calendar when no
    task of the user is found); the all-users dump, taken when the change list overflowed and the names of the changed users are therefore
    incomplete, must find such users some other way than through the task table (the change list, the spool directory)."""
    rid = "R06.7"
    one = prog.fn("chkpnt1", DAEMON)
    # chkpnt1: the header is written even if no task matched (a path from entry to the rename that passes no echs_task_icalify)
    R1 = call_sites(one, "renameat")
    if not R1:
        raise AnalysisBroken("R06.7: chkpnt1 has no renameat")
    # path-sensitive (the `header already written` flag correlates the loop with what follows it)
    flags = set()
    for b, i, x, line in one.cfg.all_elems():
        for l, kind, n in writes(x):
            l_ = strip_casts(l)
            if l_.get("k") == "ref" and l_.get("dk") == "local" and any(w_ in (l_.get("t") or n.get("t") or "") for w_ in ("bool", "_Bool")):
                flags.add(l_["n"])
    seen_empty = []

    def effect(b, i, x, store, _s=seen_empty):
        if isinstance(x, dict) and x.get("k") == "call":
            if x.get("fn") == "echs_task_icalify":
                return {"$task": 1}
            if x.get("fn") == "renameat" and not store.get("$task"):
                _s.append(x.get("line"))
        return None
    AbsWalk(one, flags, effect=effect, max_states=100000).run()
    if seen_empty:
        rep.ok(rid, "chkpnt1/empty-queue-written", one.loc(R1[0].line), "a user without tasks still gets a (header-only) queue file")
    else:
        rep.fail(rid, "chkpnt1/empty-queue-written", one.loc(R1[0].line), "the rename is reached only after at least one task was written: "
                 "a user who cancelled his last task keeps his old queue file")
    alln = prog.fn("chkpnta", DAEMON)
    cfg = alln.cfg
    sources = set()
    for b, i, x, line in cfg.all_elems():
        for n in walk(cfg.resolve(x)):
            if n.get("k") == "call" and n.get("fn") in ("readdir", "opendir", "fdopendir", "scandir"):
                sources.add(n["fn"])
            if n.get("k") == "idx" and lv(strip_casts(n["b"])) == "chkpnts":
                sources.add("chkpnts[]")
    key = "chkpnta/covers-emptied-users"
    if sources:
        rep.ok(rid, key, alln.loc(), "the all-users dump also looks at %s for users who own no task any more" % ", ".join(sorted(sources)))
    else:
        rep.fail(rid, key, alln.loc(),
                 "the all-users dump derives the users it writes from the task table alone: a user who cancelled his last task in a window with "
                 ">= 16 change notices keeps his old queue file, and the cancelled task is scheduled again after a restart")


def r06_9(prog, rep):
    """The change list saturates: add_chkpnt() records a user only while the counter is below the list's capacity, so the counter never
    exceeds the capacity.  The all-users dump that makes up for dropped notices must therefore be triggered AT the capacity."""
    rid = "R06.9"
    from ..absw import eval_in
    add = prog.fn("add_chkpnt", DAEMON)
    cap = None
    ctr = None
    for b in add.cfg.blocks:
        c = add.cfg.cond(b)
        if c is None:
            continue
        for a in cond_atoms(c, True):
            if len(a) == 5 and a[0] == "<":
                v = const_eval(add, a[4])
                if v is not None:
                    cap, ctr = v, a[1]
    if cap is None:
        raise AnalysisBroken("R06.9: add_chkpnt no longer guards the counter with a constant capacity")
    ck = prog.fn("chkpnt", DAEMON)
    cfg = ck.cfg
    trig = None
    for b in cfg.blocks:
        c = cfg.cond(b)
        if c is None:
            continue
        for si, sb in enumerate(cfg.blocks[b].succs):
            if sb is None:
                continue
            hits, _ = forward_scan(cfg, (sb, -1), lambda bb, ii, x: "hit" if elem_has_call(x, "chkpnta") else ("stop" if elem_has_call(x, "chkpnt1") else None))
            other = cfg.blocks[b].succs[1 - si] if len(cfg.blocks[b].succs) == 2 else None
            if hits and other is not None:
                h2, _ = forward_scan(cfg, (other, -1), lambda bb, ii, x: "hit" if elem_has_call(x, "chkpnta") else None)
                if not h2:
                    trig = (b, si, c)
    if trig is None:
        rep.fail(rid, "chkpnt/full-dump-trigger", ck.loc(), "no branch of chkpnt() selects the all-users dump")
        return
    b, si, c = trig
    st_ = {ctr: cap}
    v = eval_in(st_, c, ck)
    if v is None:
        # the counter read through locals with one definition (`const size_t npending = ichkpnts;`)
        locs_ = {l_["n"] for l_ in ck.locals}
        defs_ = {}
        for b_, i_, x_, line_ in cfg.all_elems():
            if isinstance(x_, dict):
                for l_, kind_, n_ in writes(x_):
                    if lv(l_) in locs_:
                        defs_.setdefault(lv(l_), []).append(n_.get("init") if kind_ == "decl" else (n_.get("r") if n_.get("k") == "bin" and n_["op"] == "=" else None))
        for _ in range(2):
            for nm_, ds_ in defs_.items():
                if len(ds_) == 1 and ds_[0] is not None and nm_ not in st_:
                    val_ = eval_in(st_, cfg.resolve(ds_[0]), ck)
                    if val_ is not None:
                        st_[nm_] = val_
        v = eval_in(st_, c, ck)
    key = "chkpnt/full-dump-trigger"
    if v is None:
        rep.broken_("rule=R06.9 cannot evaluate the dump trigger `%s` at %s = %d" % (show(c), ctr, cap))
    elif bool(v) == (si == 0):
        rep.ok(rid, key, ck.loc(cfg.blocks[b].elems[-1].get("line")), "with %s == %d (the most add_chkpnt() lets it reach) `%s` selects the all-users dump" % (ctr, cap, show(c)))
    else:
        rep.fail(rid, key, ck.loc(cfg.blocks[b].elems[-1].get("line")),
                 "add_chkpnt() stops counting at %s == %d, but `%s` selects the all-users dump only beyond that: the dump never runs, and every "
                 "user whose notice was dropped from the full list is never checkpointed - not even at a clean shutdown" % (ctr, cap, show(c)))


def r06_8(prog, rep):
    """Values read from the per-user slot array are current: a local initialised from `snds[i].f` is not used as a call argument after
    the index has moved on (must-fact `v is snds[i]`, killed by any write to the index or to v).  Locals are told apart by declaration."""
    rid = "R06.8"
    f = prog.fn("chkpnta", DAEMON)
    cfg = f.cfg

    def vid(ref):
        return "%s#%s" % (ref.get("n"), ref.get("id"))
    derived = {}    # var#id -> (array, index var#id, plain names)
    for b, i, x, line in cfg.all_elems():
        if not (isinstance(x, dict) and x.get("k") == "decl"):
            continue
        for d in x["ds"]:
            if d.get("init") is None:
                continue
            ini = strip_casts(cfg.resolve(d["init"]))
            if ini.get("k") == "mem":
                base = strip_casts(ini["b"])
                if base.get("k") == "idx" and strip_casts(base["i"]).get("k") == "ref":
                    ix = strip_casts(base["i"])
                    derived["%s#%s" % (d["n"], d.get("id"))] = (lv(strip_casts(base["b"])), vid(ix), d["n"], ix["n"])
    if not derived:
        raise AnalysisBroken("R06.8: no local derived from an indexed slot in chkpnta")

    def gen_after(x):
        out = set()
        if isinstance(x, dict) and x.get("k") == "decl":
            for d in x["ds"]:
                k = "%s#%s" % (d["n"], d.get("id"))
                if k in derived and d.get("init") is not None:
                    out.add(("cur", k))
        return out

    def kills(x):
        ks = set()
        for l, kind, n in writes(x):
            if kind == "decl":
                continue
            l_ = strip_casts(l)
            if l_.get("k") != "ref":
                continue
            t = vid(l_)
            for v, (arr, idx, vn, ixn) in derived.items():
                if t == idx or t == v:
                    ks.add(v)
        return ks
    from ..flow import MustFacts as _MF
    mf = _MF(cfg, gen=lambda c, t: set(), kills=kills, extra_gen=gen_after, closure=None, disjunctive=False)
    n = 0
    for b, i, x, line in cfg.all_elems():
        if not (isinstance(x, dict) and x.get("k") == "call"):
            continue
        for a in x["a"]:
            ar = strip_casts(cfg.resolve(a))
            if ar.get("k") == "ref" and vid(ar) in derived:
                n += 1
                v = vid(ar)
                arr, idx, vn, ixn = derived[v]
                key = "chkpnta/%s(%s)@%d" % (x.get("fn"), vn, n)
                facts = mf.at(b, i) or set()
                if ("cur", v) in facts:
                    rep.ok(rid, key, f.loc(line), "%s still is %s[%s].… when it is passed to %s()" % (vn, arr, ixn, x.get("fn")))
                else:
                    rep.fail(rid, key, f.loc(line),
                             "%s was read from %s[%s] but %s has moved on when %s(%s) is called: every remaining slot is handled with the first "
                             "slot's value (the users behind it are never checkpointed)" % (vn, arr, ixn, ixn, x.get("fn"), vn))
    if n < 2:
        rep.broken_("rule=R06.8 expected >=2 uses of slot-derived values in chkpnta, found %d" % n)


def r06_10(prog, rep, rid="R06.10"):
    """write(2) may write less than it was asked to (a full pipe, a signal, a nearly full disk) without that being an error.  The
    writers of this code base resume behind the part that was written: `write(fd, buf + done, total - done)`.  The offset added to the
    buffer and the amount taken off the length must be the same expression — a resumed write with the full length appends what lies
    behind the valid part of the buffer (stale records, NULs) to the file, and no error is seen, so the rename goes ahead."""
    n = 0
    seen = set()
    for f in prog.all_fns():
        if not f.cfg:
            continue
        for b, i, x, line in f.cfg.all_elems():
            if not isinstance(x, dict):
                continue
            for c in calls(x):
                if c.get("fn") not in ("write", "send", "pwrite") or len(c.get("a", ())) < 3:
                    continue
                buf = strip_casts(f.cfg.resolve(c["a"][1]))
                ln = strip_casts(f.cfg.resolve(c["a"][2]))
                if not (buf.get("k") == "bin" and buf["op"] == "+"):
                    continue
                off = strip_casts(buf["r"])
                if int_value(off) is not None or not any(r_.get("k") == "ref" and r_.get("dk") in ("local", "param") for r_ in walk(off)):
                    continue
                sig = (f.file, f.name, c.get("line", line), show(buf))
                if sig in seen:
                    continue
                seen.add(sig)
                n += 1
                k_ = sum(1 for s_ in seen if s_[1] == f.name and s_[0] == f.file)
                key = "%s/resumed-write#%d(%s)" % (f.name, k_, show(off)[:20])
                good = ln.get("k") == "bin" and ln["op"] == "-" and show(strip_casts(ln["r"])) == show(off)
                if good:
                    rep.ok(rid, key, f.loc(c.get("line", line)), "offset %s is taken off the length (%s)" % (show(off), show(ln)[:40]))
                else:
                    rep.fail(rid, key, f.loc(c.get("line", line)), "the write resumes at `%s` but its length `%s` is not reduced by %s: after a "
                             "short write the bytes behind the valid part of the buffer are written out too — the file holds stale "
                             "fragments, no error is seen and it is renamed over the live one" % (show(buf)[:40], show(ln)[:30], show(off)[:20]))
    if n < 1:
        rep.broken_("rule=%s expected the resumed write of fdflush(), found %d" % (rid, n))


def r06_11(prog, rep, rid="R06.11"):
    """The all-users dump remembers the users it has opened a file for in an array of nodes that are linked into a trie: the trie holds
    the nodes' addresses.  When the array is grown with realloc() the nodes may move; whatever holds their addresses must be seeded
    afresh before it is used again, or the next look-up walks freed memory — and a look-up that misses opens the user's file a
    second time, truncating what the dump has written for him so far."""
    from ..flow import must_pass
    KEEPS_NOTHING = {"memcpy", "memmove", "memset", "memcmp", "qsort", "free", "realloc", "snprintf", "sizeof"}
    n = 0
    for f in prog.fns_in(DAEMON):
        if not f.cfg:
            continue
        cfg = f.cfg
        # arrays grown in place: A = realloc(A, ..) directly or through a temporary
        tmp = {}
        grown = {}
        for b, i, x, line in list(cfg.all_elems()) * 2:         # twice: the temporary may be met behind its use
            if not isinstance(x, dict):
                continue
            for l, kind, nn in writes(x):
                rhs = nn.get("init") if kind == "decl" else (nn.get("r") if nn.get("k") == "bin" and nn["op"] == "=" else None)
                r = strip_casts(cfg.resolve(rhs)) if rhs is not None else None
                if not isinstance(r, dict):
                    continue
                if r.get("k") == "call" and r.get("fn") == "realloc":
                    src = lv(strip_casts(cfg.resolve(r["a"][0])))
                    if lv(l) == src:
                        grown[src] = (b, i, nn.get("line", line))
                    else:
                        tmp[lv(l)] = src
                elif r.get("k") == "ref" and r.get("n") in tmp and tmp[r["n"]] == lv(l):
                    grown[lv(l)] = (b, i, nn.get("line", line))
        for arr, (gb, gi, gline) in grown.items():
            sites = []
            for b, i, x, line in cfg.all_elems():
                if not isinstance(x, dict):
                    continue
                for c in calls(x):
                    if c.get("fn") in KEEPS_NOTHING or not c.get("fn"):
                        continue
                    for a in c.get("a", []):
                        a_ = strip_casts(cfg.resolve(a))
                        el = None
                        # the array under its own name or under the name of the temporary that took realloc()'s result
                        def is_arr(e_):
                            t_ = lv(strip_casts(e_))
                            return t_ == arr or tmp.get(t_) == arr
                        if a_.get("k") == "bin" and a_["op"] == "+" and is_arr(a_["l"]):
                            el = a_
                        elif a_.get("k") == "un" and a_["op"] == "&" and strip_casts(a_["e"]).get("k") == "idx" and is_arr(strip_casts(a_["e"])["b"]):
                            el = a_
                        if el is not None:
                            sites.append((b, i, c["fn"], c.get("line", line)))
            if not sites:
                continue
            n += 1
            key = "%s/element-addresses-of-%s-survive-its-growth" % (f.name, arr)
            # a re-seeding hand-over R: it runs only behind a growth, and every other hand-over that the growth reaches lies behind it
            reseed = None
            for (rb, ri, rfn, rl) in sites:
                if rb != gb and rb not in cfg.reach_from(gb):
                    continue
                if not must_pass(cfg, cfg.entry, rb, {gb}):
                    continue
                # the re-seeding is a loop over the elements: a path that runs it zero times (no element yet) still passes its header
                via = {rb}
                for h_, blks_ in cfg.natural_loops().items():
                    if rb in blks_ and must_pass(cfg, cfg.entry, h_, {gb}):
                        via.add(h_)
                if all((sb, si) == (rb, ri) or fn2 != rfn or (sb != gb and sb not in cfg.reach_from(gb)) or must_pass(cfg, gb, sb, via)
                       for (sb, si, fn2, sl) in sites):
                    reseed = (rfn, rl)
            bad = None if reseed else (sites[0][2], sites[0][3])
            if bad:
                rep.fail(rid, key, f.loc(gline), "%s is grown with realloc() while %s() has been handed addresses of its elements (line %s) and nothing "
                         "hands them over again behind the growth: the holder points into freed memory when the array moves (more than 16 "
                         "users in one dump), a look-up that misses re-opens the user's file with O_TRUNC" % (arr, bad[0], bad[1]))
            else:
                rep.ok(rid, key, f.loc(gline), "behind the growth the elements of %s are handed over again before the next use" % arr)
    if n < 1:
        rep.broken_("rule=%s expected the grown node array of the all-users dump, found none" % rid)


def r06_12(prog, rep, rid="R06.12"):
    """A queue file starts with a header whose X-ECHS-OWNER (and calendar-wide defaults) come from the task handed to
    echs_icalify_init(); the tasks behind it carry no owner of their own.  In the per-user checkpoint that task must be one of the
    user the file is written for: where the instruction is built, `echs_task_owner(<that task>) == <the uid parameter>` (or the
    ownership predicate) holds on every path — otherwise the file is complete and parseable, and the restarted daemon arms the user's
    tasks under somebody else's uid."""
    n = 0
    for f in prog.fns_in(DAEMON):
        if not f.cfg or not f.params or "uid_t" not in (f.params[0].get("t") or ""):
            continue
        cfg = f.cfg
        up = f.params[0]["n"]
        sites = call_sites(f, "echs_icalify_init")
        if not sites:
            continue
        mf = MustFacts(cfg)
        for S in sites:
            a = strip_casts(cfg.resolve(S.node["a"][1])) if len(S.node.get("a", ())) > 1 else None
            ini = a
            if isinstance(a, dict) and a.get("k") == "ref":
                for b, i, x, line in cfg.all_elems():
                    for l, kind, nn in writes(x):
                        if kind == "decl" and lv(l) == a["n"] and nn.get("init") is not None:
                            ini = strip_casts(cfg.resolve(nn["init"]))
                            at = (b, i)
            else:
                at = (S.b, S.i)
            if not (isinstance(ini, dict) and ini.get("k") == "init"):
                continue
            def flat(ini_):
                for k_, v_ in ini_["fs"]:
                    v2 = strip_casts(v_) if isinstance(v_, dict) else v_
                    if k_ == "" and isinstance(v2, dict) and v2.get("k") == "init":
                        yield from flat(v2)         # members of an anonymous union/struct
                    else:
                        yield k_, v_
            tsk = [v_ for k_, v_ in flat(ini) if k_ == "t" and v_ is not None]
            if not tsk:
                continue        # the header of an empty queue: no task, no owner taken from one
            n += 1
            ttxt = show(strip_casts(tsk[0]))
            facts = mf.at(*at) or set()
            key = "%s/header-task-belongs-to-the-user" % f.name
            good = any(fa[0] == "eq" and up in (fa[1], fa[2]) and ("echs_task_owner(%s)" % ttxt) in (fa[1], fa[2]) for fa in facts) or \
                any(fa[0] == "true" and fa[1].replace(" ", "") == ("echs_task_owned_by_p(%s,%s)" % (ttxt, up)).replace(" ", "") for fa in facts)
            if good:
                rep.ok(rid, key, f.loc(S.line), "the header is written from a task whose owner was found to be %s" % up)
            else:
                rep.fail(rid, key, f.loc(S.line), "the header of user %s's queue file is written from `%s` without that task having been found to belong to "
                         "%s: X-ECHS-OWNER names whoever owns the first task in the table, and after a restart %s's tasks are armed under that uid" % (
                             up, ttxt[:40], up, up))
    if n < 1:
        rep.broken_("rule=%s the per-user checkpoint no longer writes its header from a task" % rid)


def run(prog, rep, tier, snap):
    rep.rule("R06.1", "write-close-rename protocol in every function that renames into the spool", 12)
    rep.call(r06_1, prog, rep)
    rep.rule("R06.2", "who may create/truncate/unlink/rename files of the spool", 10)
    n = rep.call(r06_2, prog, rep)
    rep.rule("R06.3", "write errors on the checkpoint path are observable before the rename", 2)
    rep.call(r06_3, prog, rep)
    rep.rule("R06.4", "dirty marking on success replies, retirement and shutdown", 5)
    rep.call(r06_4, prog, rep)
    rep.rule("R06.5", "reload filter agrees with the rename target; owner keyword read back", 5)
    rep.call(r06_5, prog, rep)
    rep.rule("R06.7", "a user whose queue became empty still gets his file rewritten (per-user and all-users checkpoint)", 2)
    rep.call(r06_7, prog, rep)
    rep.rule("R06.8", "values read from the per-user slot array are not used after the index has moved on", 2)
    rep.call(r06_8, prog, rep)
    rep.rule("R06.10", "a write resumed after a short write continues with the rest, not with the full length again", 1)
    rep.call(r06_10, prog, rep)
    rep.rule("R06.11", "addresses of elements of an array grown by realloc() are handed over again behind the growth", 1)
    rep.call(r06_11, prog, rep)
    rep.rule("R06.12", "the per-user checkpoint writes its header from a task of that user", 1)
    rep.call(r06_12, prog, rep)
    rep.rule("R06.9", "the all-users dump is triggered at the capacity at which the change list saturates", 1)
    rep.call(r06_9, prog, rep)
    from ..rules import valist
    rep.rule("R06.6", "the buffered writer never formats from a consumed va_list (records larger than the write buffer)", 1)
    valist.r_valist(prog, rep, "R06.6", only=("fdprintf",))
    rep.call(valist.r_stale_room, prog, rep, "R06.6")
    rep.rule("R06.13", "the buffered writer reports success only when the text fitted the room it was formatted into (value-fixed walk around the buffer's end)", 1)
    rep.call(valist.r_fits, prog, rep, "R06.13")
READY = True

# texts brought up to date with the rules added in the last rounds
LEVEL_TEXT = LEVEL_TEXT + ' Also: a resumed write continues with the rest; element addresses handed to a holder are handed over again when their array is grown by realloc(); the per-user checkpoint writes its header from a task of that user; the buffered writer reports success only when the text fitted.'
TECHNIQUE = (TECHNIQUE if isinstance(TECHNIQUE, str) else TECHNIQUE) + '; must-pass rules over realloc growth; value-fixed walk of the buffered writer'

