"""C03 — merged stream is chronological, complete, duplicate-free; peek never consumes."""
import re

from ..facts import walk, strip, strip_casts, lv, show, writes, calls, int_value, root_var, table_py
from ..flow import MustFacts, cond_atoms
from ..q import (Site, call_sites, indirect_call_sites, site_before, forward_scan, backward_scan, const_eval, edge_start, elem_has_call, chain_elems)
from ..absw import AbsWalk
from ..order import PureEval
from ..snapshot import AnalysisBroken

UNITS = None
EXPLANATION = (
    "R03.1 peek purity: in the `next` method of every stream class in scope, each state-advancing effect on the delivered element "
    "(cursor increment, pop of the stream the returned event came from) is dominated by the true edge of `popp`; unconditional pops are "
    "accepted only by effect (discard-and-re-peek of the same stream into the same cache slot, or a pop whose result becomes the pending "
    "exception). R03.2 merge step: the per-slot cascade of next_evmux is evaluated over all relations of (cached event, best so far) "
    "{null, <, = same UID, = other UID, >} and must give {skip, replace, consume-duplicate, keep, keep}; slot/stream index pairing; the "
    "scan covers all slots; end-of-stream only when all slots are null; the returned event comes from the cache. R03.3 construction: "
    "heap arrays indexed below a capacity are allocated as capacity * sizeof(element). R03.4: all rule streams made for one event by "
    "__make_evrrul start from the same proto state (event, zone, scale, empty cache) - sibling agreement of the per-rule initialisers.")
NOT_DECIDED = "completeness of the merge over whole streams (induction over run-time stream contents); the behaviour itself"
TRUSTED = ["clang 14 parser/CFG builder", "echse-facts extractor", "python rule engines in /verif/sa"]
LEVEL_TEXT = ("Static verdict on necessary structural clauses of C03: peek purity of all stream classes on every path, the complete "
              "per-slot decision table of the k-way merge, index pairing, and allocation sizes of the mux constructors. It decides one merge "
              "step and purity, not whole-stream completeness.")
LEVEL_NOTE = "Trusted: clang 14 front end/CFG, extractor, rule engines; comparison predicates are evaluated from their extracted bodies."
TECHNIQUE = "static analysis: dominance by the popp edge (must-facts), order-type table of the merge cascade, allocation-size agreement"

IN_SCOPE = ("evical_cls", "evrrul_cls", "evmux_cls", "evfilt_cls")
POP, PEEK = "echs_evstrm_pop", "echs_evstrm_next"


def classes(prog):
    out = {}
    for name, ts in prog.tables.items():
        for t in ts:
            if "echs_evstrm_class_s" in t["t"]:
                out[name] = {k: v.get("fn") for k, v in (table_py(t) or {}).items() if isinstance(v, dict)}
    if len(out) < 4:
        raise AnalysisBroken("found only %d stream classes" % len(out))
    return out


def r03_1(prog, rep):
    rid = "R03.1"
    cls = classes(prog)
    for cname, slots in sorted(cls.items()):
        nxt = slots.get("next")
        if cname not in IN_SCOPE:
            rep.note(rid, "%s/%s" % (cname, nxt), "src", "stream class outside the properties' language (MRULE movers): not examined")
            continue
        f = prog.fn(nxt)
        cfg = f.cfg
        popp = f.params[1]["n"]
        this = None
        for l in f.locals:
            if l["t"].startswith("struct ") and l["t"].rstrip("restict *").strip() and "*" in l["t"]:
                this = this or l["n"]

        def gen(c, truth):
            out = set()
            for a in cond_atoms(c, truth):
                if len(a) == 3 and a[1] == popp and a[0] == "true":
                    out.add(("popp",))
            return out
        mf = MustFacts(cfg, gen=gen, kills=lambda x: set())
        n = 0
        for b, i, x, line in cfg.all_elems():
            facts = mf.at(b, i)
            if facts is None:
                continue
            effects = []
            for l, kind, nn in writes(x):
                t = lv(l)
                if this and t.startswith(this + "->") and (kind == "incdec" or (kind == "compound" and nn["op"] in ("+=", "-="))):
                    effects.append(("advance %s" % t, nn.get("line", line), None))
            for c in calls(x):
                if c.get("fn") == POP:
                    effects.append(("pop %s" % lv(cfg.resolve(c["a"][0])), c.get("line", line), c))
                elif c.get("fn") is None:
                    ce = strip_casts(c.get("ce"))
                    if isinstance(ce, dict) and ce.get("k") == "mem" and ce["f"] == "next" and len(c["a"]) == 2 and const_eval(f, c["a"][1]) != 0:
                        effects.append(("pop %s" % lv(cfg.resolve(c["a"][0])), c.get("line", line), c))
            for what, ln, c in effects:
                n += 1
                key = "%s/%s" % (f.name, what)
                if ("popp",) in facts:
                    rep.ok(rid, key, f.loc(ln), "%s only on the true edge of %s" % (what, popp))
                    continue
                if c is not None:
                    verdict = _legit_unconditional_pop(f, b, i, c)
                    if verdict:
                        rep.ok(rid, key + " [%s]" % verdict[0], f.loc(ln), verdict[1])
                        continue
                rep.fail(rid, key, f.loc(ln),
                         "%s in %s is reachable in peek mode (not dominated by the true edge of `%s`): peeking consumes an occurrence" % (what, f.name, popp),
                         {"function": f.name, "element": show(cfg.resolve(x))})
        if n == 0:
            rep.fail(rid, "%s/advances" % f.name, f.loc(), "no state-advancing effect found in %s: the stream can never advance" % f.name)


def _legit_unconditional_pop(f, b, i, c):
    """Pops that are legitimate in peek mode, recognised by effect."""
    cfg = f.cfg
    strm = lv(cfg.resolve(c["a"][0]))
    blk = cfg.blocks[b]
    # is the pop's result used (assigned) or discarded?
    user = None
    derived = {i}       # the pop's value and what is computed from it without being stored (echs_event_range(pop(...)))
    for j in range(i + 1, len(blk.elems)):
        hit = any(n.get("k") == "elem" and n["b"] == b and n["i"] in derived for n in walk(blk.elems[j]["x"]))
        if hit:
            if any(True for _ in writes(blk.elems[j]["x"])):
                user = (j, blk.elems[j]["x"])
                break
            derived.add(j)
            user = user or (j, blk.elems[j]["x"])
    if user:
        ux = user[1]
        ws = [(lv(l), kind) for l, kind, n in writes(ux)]
        if ws:
            # result kept: legitimate only if it becomes state that is not the delivered candidate, e.g. the pending exception
            tgt = ws[0][0]
            # later in the same block the value must flow into a `this->...` field and the popped stream must not be
            # the one whose peek is returned
            returned = _returned_streams(f)
            if strm not in returned:
                return ("pending-exception", "pop of %s (not the stream the delivered event is peeked from) refreshes %s" % (strm, tgt))
            return None
    # discarded pop: must be immediately followed by a re-peek of the same stream whose result replaces the candidate that is
    # re-examined (the returned variable itself) or a cache slot other than the one the returned event is delivered from
    delivery_idx = _delivery_index(f)
    returned = _returned_vars(f)
    for j in range(i + 1, len(blk.elems)):
        for cc in calls(blk.elems[j]["x"]):
            if cc.get("fn") == PEEK and lv(cfg.resolve(cc["a"][0])) == strm:
                # the peek result must be assigned
                for jj in range(j + 1, len(blk.elems)):
                    for l, kind, n in writes(blk.elems[jj]["x"]):
                        if n.get("k") == "bin" and n["op"] == "=":
                            r = strip_casts(n["r"])
                            if r.get("k") == "elem" and r["b"] == b and r["i"] == j:
                                tgt = lv(l)
                                if tgt in returned:
                                    return ("discard-and-repeek", "discarded pop of %s immediately followed by a re-peek into the candidate %s that is re-examined" % (strm, tgt))
                                if "[" in tgt and tgt.split("[")[-1].rstrip("]") not in delivery_idx and not any(tgt.startswith(rv) for rv in returned):
                                    return ("discard-and-repeek", "discarded duplicate of %s, re-peeked into cache slot %s (not the delivery slot %s)" % (
                                        strm, tgt, "/".join(sorted(delivery_idx)) or "-"))
                                return None
            if cc.get("fn") == POP:
                return None
    return None


def _returned_vars(f):
    out = set()
    for b, i, x, line in f.cfg.all_elems():
        if isinstance(x, dict) and x.get("k") == "ret" and x.get("e") is not None:
            out.add(lv(f.cfg.resolve(x["e"])))
    return out


def _delivery_index(f):
    """Index expressions of the cache slot / stream popped on the true edge of popp."""
    cfg = f.cfg
    popp = f.params[1]["n"]
    out = set()
    for b in cfg.blocks:
        c = cfg.cond(b)
        if c is not None and lv(strip(c)) == popp:
            tb = cfg.blocks[b].succs[0]
            for e in cfg.blocks[tb].elems:
                for l, kind, n in writes(e["x"]):
                    t = lv(l)
                    if "[" in t and kind != "decl":
                        out.add(t.split("[")[-1].rstrip("]"))
    return out


def _returned_streams(f):
    """Streams whose peeked event can be the returned value."""
    cfg = f.cfg
    rets = set()
    for b, i, x, line in cfg.all_elems():
        if isinstance(x, dict) and x.get("k") == "ret" and x.get("e") is not None:
            rets.add(lv(cfg.resolve(x["e"])))
    out = set()
    for b, i, x, line in cfg.all_elems():
        for l, kind, n in writes(x):
            if lv(l) in rets:
                rhs = n.get("init") if kind == "decl" else (n.get("r") if n.get("k") == "bin" else None)
                if rhs is not None:
                    r = strip_casts(cfg.resolve(rhs))
                    if r.get("k") == "call" and r.get("fn") == PEEK:
                        out.add(lv(r["a"][0]))
    return out


def r03_2(prog, rep):
    rid = "R03.2"
    f = prog.fn("next_evmux", "evstrm.c")
    cfg = f.cfg
    pe = PureEval(prog)
    # the scan loop: block that declares the current slot's event from this->ev[i] and tests it
    body = None
    for b, i, x, line in cfg.all_elems():
        if isinstance(x, dict) and x.get("k") == "decl":
            for d in x["ds"]:
                ini = d.get("init")
                m_ = re.search(r"->ev\[([A-Za-z_][\w$]*)\]$", lv(cfg.resolve(ini))) if ini is not None else None
                if m_ and d["t"] == "echs_event_t":
                    body = (b, d["n"])
                    scan_i = m_.group(1)
    if body is None:
        raise AnalysisBroken("next_evmux: scan loop over the cache not found")
    bb, ecur = body
    loops = cfg.natural_loops()
    hdr = [h for h, blks in loops.items() if bb in blks]
    if not hdr:
        raise AnalysisBroken("next_evmux: the scan block is not inside a loop")
    hdr = sorted(hdr, key=lambda h: len(loops[h]))[0]
    best = None
    for b, i, x, line in cfg.all_elems():
        if isinstance(x, dict) and x.get("k") == "ret" and x.get("e") is not None:
            r = lv(cfg.resolve(x["e"]))
            if r not in ("nul",) and "{" not in r:
                best = r
    if best is None:
        raise AnalysisBroken("next_evmux: returned variable not found")
    cases = {
        "null": ({"from": 0, "dur": 0, "oid": 0}, {"from": 5, "dur": 0, "oid": 1}),
        "cur<best": ({"from": 3, "dur": 0, "oid": 2}, {"from": 5, "dur": 0, "oid": 1}),
        "cur=best,same-uid": ({"from": 5, "dur": 0, "oid": 1}, {"from": 5, "dur": 0, "oid": 1}),
        "cur=best,other-uid": ({"from": 5, "dur": 0, "oid": 2}, {"from": 5, "dur": 0, "oid": 1}),
        "cur>best": ({"from": 7, "dur": 0, "oid": 2}, {"from": 5, "dur": 0, "oid": 1}),
    }
    want = {"null": "skip", "cur<best": "replace", "cur=best,same-uid": "consume-duplicate", "cur=best,other-uid": "keep", "cur>best": "keep"}
    # the index that goes with `best`: the local that takes the scan index in a block that also replaces `best` (found by role, not by name)
    bidx = set()
    for bb_, blk_ in cfg.blocks.items():
        ws_ = [(lv(l), n) for e_ in blk_.elems for l, kind, n in writes(e_["x"])]
        if any(t_ == best for t_, n_ in ws_):
            bidx |= {t_ for t_, n_ in ws_ if t_ != best and n_.get("k") == "bin" and n_["op"] == "=" and lv(cfg.resolve(n_["r"])) == scan_i
                     and t_ in {l_["n"] for l_ in f.locals}}
    if len(bidx) != 1:
        raise AnalysisBroken("next_evmux: the index kept with the best event was not found (%s)" % sorted(bidx))
    besti = next(iter(bidx))
    for cname, (cv, bv) in cases.items():
        objs = {ecur: cv, best: bv}
        acts = []

        def obj(expr):
            expr = strip_casts(cfg.resolve(expr))
            t = lv(expr)
            if t in objs:
                return objs[t]
            if expr.get("k") == "mem":
                return obj(expr["b"])[expr["f"]]
            raise AnalysisBroken("next_evmux: cannot model operand %s" % show(expr))

        def call_eval(c, store):
            fn = c.get("fn")
            if fn and fn.endswith("_p"):
                return int(bool(pe.call(fn, [obj(a) for a in c["a"]])))
            return None

        def effect(b, i, x, store):
            for l, kind, n in writes(x):
                if lv(l) == best and n.get("k") == "bin" and lv(n["r"]) == ecur:
                    acts.append("replace")
                if lv(l) == besti:
                    acts.append("replace-index:" + lv(cfg.resolve(n["r"])) if n.get("k") == "bin" else "replace-index:?")
            for c in calls(x):
                if c.get("fn") == POP:
                    acts.append("pop:" + _strm_index(f, b, c))
                if c.get("fn") == PEEK:
                    acts.append("repeek:" + _strm_index(f, b, c))
            for l, kind, n in writes(x):
                t = lv(l)
                if "->ev[" in t and n.get("k") == "bin":
                    acts.append("cache:" + t.split("->ev[")[1].rstrip("]"))
            return None
        per_mode = []
        for mode in (0, 1):
            del acts[:]
            w = AbsWalk(f, {f.params[1]["n"]}, init={f.params[1]["n"]: mode}, effect=effect, call_eval=call_eval)
            w.run(start_block=bb, stop_at={hdr} | set(cfg.blocks[hdr].preds) - loops[hdr] | {b for b in loops[hdr] if cfg.blocks[b].succs == [hdr]})
            if w.forks:
                raise AnalysisBroken("next_evmux: scan cascade branches on something the model does not decide (%s)" % cname)
            per_mode.append(list(acts))
        if per_mode[0] != per_mode[1]:
            rep.fail(rid, "next_evmux/scan/%s" % cname, f.loc(),
                     "merge step for relation `%s` depends on peek/pop mode: peek does %s, pop does %s (peek and pop must see the same merged stream)" % (
                         cname, per_mode[0] or ["keep"], per_mode[1] or ["keep"]))
            continue
        a = [x for x in per_mode[0]]
        if not a:
            got = "keep" if cname != "null" else "skip"
        elif a[0] == "replace":
            got = "replace" if "replace-index:" + scan_i in a else "replace-without-index"
        elif a and a[0].startswith("pop:"):
            idx = a[0].split(":")[1]
            if a == ["pop:%s" % idx, "repeek:%s" % idx, "cache:%s" % idx] and idx == scan_i:
                got = "consume-duplicate"
            else:
                got = "pop-mispaired %s" % a
        else:
            got = str(a)
        key = "next_evmux/scan/%s" % cname
        if got == want[cname]:
            rep.ok(rid, key, f.loc(), "slot relation %s -> %s" % (cname, got))
        else:
            rep.fail(rid, key, f.loc(), "merge step for a cached event with relation `%s` to the best so far does `%s`; the statement requires `%s` "
                     "(minimum of the non-null cached events; identical occurrence of the same UID consumed exactly once)" % (cname, got, want[cname]),
                     {"actions": a})
    # popp branch: pop + re-peek + cache write all use the index of the returned event
    pb = [b for b in cfg.blocks if cfg.cond(b) is not None and lv(strip(cfg.cond(b))) == f.params[1]["n"]]
    if len(pb) != 1:
        rep.fail(rid, "next_evmux/popp-branch", f.loc(), "expected one test of popp, found %d" % len(pb))
    else:
        tb = cfg.blocks[pb[0]].succs[0]
        seq = []
        for eb, ei, e in chain_elems(cfg, tb):
            for c in calls(e["x"]):
                if c.get("fn") in (POP, PEEK):
                    seq.append((c["fn"], _strm_index(f, eb, c)))
            for l, kind, n in writes(e["x"]):
                if "->ev[" in lv(l):
                    seq.append(("cache", lv(l).split("->ev[")[1].rstrip("]")))
        if seq == [(POP, besti), (PEEK, besti), ("cache", besti)]:
            rep.ok(rid, "next_evmux/popp-branch", f.loc(), "pop mode consumes and re-peeks exactly the stream of the returned event (index %s)" % besti)
        else:
            rep.fail(rid, "next_evmux/popp-branch", f.loc(), "pop mode does %s; required pop/re-peek/cache of index %s" % (seq, besti))
    # first scan starts at 0, the second continues after the first hit up to ns; end-of-stream only if all null
    _scan_coverage(prog, rep, rid, f, bb, best)


def _strm_index(f, b, c):
    """Index expression of the stream a pop/peek call operates on: `this->s[IDX]` possibly through a local."""
    cfg = f.cfg
    a = strip_casts(cfg.resolve(c["a"][0]))
    t = lv(a)
    if "->s[" in t:
        return t.split("->s[")[1].rstrip("]")
    # local: find its declaration in the same block
    for e in cfg.blocks[b].elems:
        x = e["x"]
        if isinstance(x, dict) and x.get("k") == "decl":
            for d in x["ds"]:
                if d["n"] == t and d.get("init") is not None:
                    tt = lv(cfg.resolve(d["init"]))
                    if "->s[" in tt:
                        return tt.split("->s[")[1].rstrip("]")
    return "?"


def _scan_coverage(prog, rep, rid, f, bb, best):
    cfg = f.cfg
    # the scans: loops `v < this->ns` whose body reads the cached event this->ev[v]
    loops = cfg.natural_loops()
    scans = []
    for h, blks in loops.items():
        c = cfg.cond(h)
        if c is None:
            continue
        for a in cond_atoms(c, True):
            if len(a) == 5 and a[0] == "<" and a[2].endswith("->ns") and re.fullmatch(r"[A-Za-z_][\w$]*", a[1]):
                v = a[1]
                reads = False
                for b in blks:
                    for e in cfg.blocks[b].elems:
                        for l, kind, n in writes(e["x"]):
                            rhs = n.get("init") if kind == "decl" else (n.get("r") if n.get("k") == "bin" else None)
                            if rhs is not None and any(nn.get("k") == "idx" and lv(nn).endswith("->ev[%s]" % v) for nn in walk(cfg.resolve(rhs))):
                                reads = True
                if reads:
                    scans.append((h, v))
    if len(scans) != 2:
        rep.fail(rid, "next_evmux/scan-loops", f.loc(), "expected two scans over the cache (first non-null, then the rest), found %d" % len(scans))
        return
    (first, v1), (second, v2) = sorted(scans, reverse=True)  # clang numbers blocks backwards: higher id = earlier in source
    if second not in cfg.reach_from(first):
        (first, v1), (second, v2) = (second, v2), (first, v1)
    # first loop is entered with v1 = 0
    pre = [p for p in cfg.lpreds[first] if p not in loops[first]]
    init_ok = False
    for p in pre:
        for e in cfg.blocks[p].elems:
            for l, kind, n in writes(e["x"]):
                if lv(l) == v1 and ((n.get("k") == "bin" and int_value(n["r"]) == 0) or (kind == "decl" and n.get("init") is not None and int_value(n["init"]) == 0)):
                    init_ok = True
    if init_ok:
        rep.ok(rid, "next_evmux/first-scan-from-0", f.loc(), "the search for the first non-null cached event starts at slot 0")
    else:
        rep.fail(rid, "next_evmux/first-scan-from-0", f.loc(), "the first scan does not start at slot 0: leading streams are ignored")
    # the second scan starts one past the slot the first one stopped at: `v1++`, or `v2 = w + 1` with w = v1 or a copy taken at the break
    copies = {v1}
    for b in cfg.blocks:        # the copy is taken in the break block, which is not part of the natural loop
        for e in cfg.blocks[b].elems:
            for l, kind, n in writes(e["x"]):
                if n.get("k") == "bin" and n["op"] == "=" and lv(strip_casts(cfg.resolve(n["r"]))) == v1:
                    copies.add(lv(l))
    pre2 = [p for p in cfg.lpreds[second] if p not in loops[second]]
    ok = False
    for p in pre2:
        ws = [(lv(l), kind, n) for e in cfg.blocks[p].elems for l, kind, n in writes(e["x"]) if lv(l) == v2]
        if len(ws) != 1:
            continue
        if v2 == v1 and ws[0][1] == "incdec" and "++" in ws[0][2]["op"]:
            ok = True
        rhs = ws[0][2].get("init") if ws[0][1] == "decl" else (ws[0][2].get("r") if ws[0][2].get("k") == "bin" and ws[0][2]["op"] == "=" else None)
        if rhs is not None:
            r = strip_casts(cfg.resolve(rhs))
            if r.get("k") == "bin" and r["op"] == "+" and int_value(r["r"]) == 1 and lv(strip_casts(r["l"])) in copies:
                ok = True
    if ok:
        rep.ok(rid, "next_evmux/second-scan-continues", f.loc(), "the second scan continues at the slot after the first non-null one")
    else:
        rep.fail(rid, "next_evmux/second-scan-continues", f.loc(), "the second scan does not continue at the slot after the first hit")
    # end of stream: `i >= ns` test between the scans guards the nul return
    eos = None
    for b in cfg.blocks:
        c = cfg.cond(b)
        if c is None or b in loops[first] or b in loops[second]:
            continue
        for a in cond_atoms(c, True):
            if len(a) == 5 and a[0] == "<=" and a[2] == v1 and a[1].endswith("->ns"):
                eos = b
    if eos is None:
        rep.fail(rid, "next_evmux/end-only-when-all-null", f.loc(), "no `i >= ns` test guards the end-of-stream return")
    else:
        # every return of a nul event (other than the already-finished shortcut) is dominated by the true edge of that test
        ok = True
        for b, i, x, line in cfg.all_elems():
            if isinstance(x, dict) and x.get("k") == "ret":
                r = lv(cfg.resolve(x["e"]))
                if r == best:
                    continue
                from ..flow import edge_dominates
                if not edge_dominates(cfg, eos, 0, b):
                    # the shortcut `this->s == NULL` (stream already finished)
                    c0 = cfg.cond(cfg.lpreds[b][0]) if cfg.lpreds[b] else None
                    if c0 is not None and "->s" in show(c0) and "0" in show(c0):
                        continue
                    ok = False
        if ok:
            rep.ok(rid, "next_evmux/end-only-when-all-null", f.loc(), "a nul event is returned only when no cached event is non-null (or the mux already finished)")
        else:
            rep.fail(rid, "next_evmux/end-only-when-all-null", f.loc(), "a nul event can be returned while a cached event is still pending")
    # priming: precache fills ev[j] from a *peek* of s[j] for all j < ns
    prim = []
    for b, i, x, line in cfg.all_elems():
        for l, kind, n in writes(x):
            t = lv(l)
            if "->ev[" in t and n.get("k") == "bin":
                r = strip_casts(cfg.resolve(n["r"]))
                if r.get("k") == "call":
                    prim.append((t.split("->ev[")[1].rstrip("]"), r.get("fn"), _strm_index(f, b, r)))
    if any(fn_ == PEEK and a_ == c_ and a_ not in ({v1, v2} | copies) for a_, fn_, c_ in prim):
        rep.ok(rid, "next_evmux/priming", f.loc(), "the cache is primed by peeking stream j into slot j")
    else:
        rep.fail(rid, "next_evmux/priming", f.loc(), "cache priming is not ev[j] = peek(s[j]): %s" % prim)


def r03_3(prog, rep):
    """Array capacity discipline in the constructors."""
    rid = "R03.3"
    n = 0
    for fname in ("echs_evstrm_mux", "echs_evstrm_mux_clon", "echs_evstrm_vmux", "echs_evstrm_vmux_clon", "make_evmux", "clone_evmux"):
        f = prog.fn(fname, "evstrm.c")
        cfg = f.cfg
        for b, i, x, line in cfg.all_elems():
            for l, kind, nn in writes(x):
                rhs = nn.get("init") if kind == "decl" else (nn.get("r") if nn.get("k") == "bin" and nn["op"] == "=" else None)
                if rhs is None:
                    continue
                r = strip_casts(cfg.resolve(rhs))
                if not (r.get("k") == "call" and r.get("fn") in ("malloc", "calloc", "realloc")):
                    continue
                arr = lv(l)
                size = r["a"][-1] if r["fn"] != "calloc" else None
                n += 1
                key = "%s/%s=%s" % (fname, arr, r["fn"])
                if r["fn"] == "calloc":
                    rep.ok(rid, key, f.loc(nn.get("line", line)), "calloc(count, size) form")
                    continue
                # find the capacity variable the array index is compared with: `idx >= cap` / `idx < cap` guarding stores arr[idx]
                caps = _capacity_vars(f, arr)
                sz = _size_form(_follow_local(f, cfg.resolve(size)))
                if not caps:
                    # sized exactly for a count: must be count * sizeof(elem) (+ header)
                    if sz["mult"]:
                        rep.ok(rid, key, f.loc(nn.get("line", line)), "allocated as %s" % sz["text"])
                    elif _is_indexed(f, arr):
                        rep.fail(rid, key, f.loc(nn.get("line", line)),
                                 "array %s is filled by index but allocated as %s bytes: no count * sizeof(element) term" % (arr, sz["text"]))
                    else:
                        rep.ok(rid, key, f.loc(nn.get("line", line)), "not an indexed array (%s)" % sz["text"], nontrivial=False)
                    continue
                cap = sorted(caps)[0]
                if any(m[0] == cap or (m[0].startswith("(" + cap)) for m in sz["mult"]):
                    rep.ok(rid, key, f.loc(nn.get("line", line)), "%s slots guarded by %s, allocated as %s" % (arr, cap, sz["text"]))
                else:
                    rep.fail(rid, key, f.loc(nn.get("line", line)),
                             "array %s is indexed up to the capacity %s but allocated as %s bytes: capacity is added to, not multiplied by, the element size "
                             "(24 bytes for 16 slots: the 4th stream overruns the heap block)" % (arr, cap, sz["text"]),
                             {"size": sz["text"], "capacity": cap})
    return n


def _capacity_vars(f, arr):
    """Variables that bound the index of stores arr[idx] via a guard idx >= cap (grow) or idx < cap."""
    cfg = f.cfg
    idxs = set()
    for b, i, x, line in cfg.all_elems():
        for l, kind, n in writes(x):
            l_ = strip_casts(l)
            if l_.get("k") == "idx" and lv(l_["b"]) == arr:
                iv = strip_casts(l_["i"])
                if iv.get("k") == "un":
                    iv = strip_casts(iv["e"])
                if iv.get("k") == "ref":
                    idxs.add(iv["n"])
    caps = set()
    for b in cfg.blocks:
        c = cfg.cond(b)
        if c is None:
            continue
        for truth in (True,):
            for a in cond_atoms(c, truth):
                if len(a) == 5 and ((a[0] == "<" and a[1] in idxs) or (a[0] == "<=" and a[2] in idxs)):
                    r = strip_casts(a[4] if a[0] == "<" else a[3])
                    if r.get("k") == "ref" and r.get("dk") == "local":
                        # a capacity is a local that is also assigned in the function (allocz = 16, allocz *= 2)
                        caps.add(r["n"])
    return caps


def _follow_local(f, x):
    """Replace a reference to a local that has exactly one definition by that definition."""
    x = strip_casts(x)
    if isinstance(x, dict) and x.get("k") == "ref" and x.get("dk") == "local":
        defs = []
        for b, i, e, line in f.cfg.all_elems():
            for l, kind, n in writes(e):
                if lv(l) == x["n"]:
                    rhs = n.get("init") if kind == "decl" else (n.get("r") if n.get("k") == "bin" and n["op"] == "=" else None)
                    defs.append(rhs)
        if len(defs) == 1 and defs[0] is not None:
            return f.cfg.resolve(defs[0])
    return x


def _is_indexed(f, arr):
    for b, i, x, line in f.cfg.all_elems():
        for l, kind, n in writes(x):
            l_ = strip_casts(l)
            if l_.get("k") == "idx" and lv(l_["b"]) == arr:
                return True
        for c in calls(x):
            if c.get("fn") in ("memcpy", "memmove") and lv(f.cfg.resolve(c["a"][0])) == arr:
                return True
    return False


def _size_form(x):
    """Decompose a size expression into additive terms; record multiplicative ones (factor text, sizeof)."""
    x = strip_casts(x)
    terms = []

    def add_terms(e):
        e = strip_casts(e)
        if e.get("k") == "bin" and e["op"] == "+":
            add_terms(e["l"])
            add_terms(e["r"])
        else:
            terms.append(e)
    add_terms(x)
    mult = []
    for t in terms:
        if t.get("k") == "bin" and t["op"] == "*":
            l, r = strip_casts(t["l"]), strip_casts(t["r"])
            if r.get("k") == "sizeof":
                mult.append((show(l), r.get("v")))
            elif l.get("k") == "sizeof":
                mult.append((show(r), l.get("v")))
    return {"text": show(x), "mult": mult, "terms": [show(t) for t in terms]}


def r03_3b(prog, rep):
    """__make_evrrul: shared allocation calloc(nr + 1, sizeof(*this)+sizeof(this)) covers this[i], that[i] for i < nr."""
    rid = "R03.3"
    f = prog.fn("__make_evrrul", "evical.c")
    cfg = f.cfg
    cs = call_sites(f, "calloc")
    if not cs:
        rep.fail(rid, "__make_evrrul/shared-allocation", f.loc(), "no calloc found")
        return
    c = cs[0].node
    cnt = show(strip_casts(cfg.resolve(c["a"][0]))).replace(" ", "")
    duo = const_eval(f, c["a"][1])
    rec = prog.record("evrrul_s")
    need = rec["size"] + 8
    nr = f.params[2]["n"]
    if cnt in ("(%s+1)" % nr, "(1+%s)" % nr) and duo is not None and duo >= need:
        rep.ok(rid, "__make_evrrul/shared-allocation", f.loc(cs[0].line),
               "calloc(%s, %d): %s streams of %d bytes plus %s back pointers fit ((nr+1)*%d >= nr*%d + nr*8)" % (cnt, duo, nr, rec["size"], nr, duo, rec["size"]))
    else:
        rep.fail(rid, "__make_evrrul/shared-allocation", f.loc(cs[0].line),
                 "shared allocation calloc(%s, %s) does not cover %s streams (%d bytes each) plus %s pointers" % (cnt, duo, nr, rec["size"], nr))
    # that = (void*)(this + nr)
    ok = False
    for b, i, x, line in cfg.all_elems():
        for l, kind, n in writes(x):
            if lv(l) == "that" and n.get("k") == "bin":
                r = show(strip_casts(cfg.resolve(n["r"]))).replace(" ", "")
                ok = r in ("(this+%s)" % nr,)
    if ok:
        rep.ok(rid, "__make_evrrul/pointer-array-offset", f.loc(), "the pointer array starts after the nr-th stream")
    else:
        rep.fail(rid, "__make_evrrul/pointer-array-offset", f.loc(), "the pointer array no longer starts at this + nr")


def r03_4(prog, rep):
    """Sibling completeness: every rule stream of the shared allocation starts with all the state the first one is given."""
    rid = "R03.4"
    f = prog.fn("__make_evrrul", "evical.c")
    cfg = f.cfg
    f0, fi = set(), set()
    whole = False
    idxvar = None
    for b, i, x, line in cfg.all_elems():
        for l, kind, n in writes(cfg.resolve(x)):
            t = lv(l)
            if t.startswith("this->"):
                f0.add(t[len("this->"):].split(".")[0])
            m = re.match(r"^this\[(\w+)\](\.(\w+))?", t)
            if m and m.group(1) != "0":
                idxvar = m.group(1)
                if m.group(3):
                    fi.add(m.group(3))
                elif n.get("k") == "bin" and n["op"] == "=" and lv(n["r"]) in ("this[0]", "*this"):
                    whole = True
    if not f0 or idxvar is None:
        rep.fail(rid, "__make_evrrul/sibling-streams", f.loc(), "cannot identify the initialisation of the first and of the further rule streams")
        return
    per_stream = {"rrul", "seq"}
    missing = set() if whole else (f0 - fi - {"ref"})
    if whole and per_stream <= fi:
        rep.ok(rid, "__make_evrrul/sibling-streams", f.loc(), "streams 1..n-1 copy stream 0 whole, then set their own %s" % sorted(per_stream))
    elif not whole and not missing and per_stream <= fi:
        rep.ok(rid, "__make_evrrul/sibling-streams", f.loc(), "streams 1..n-1 set every field stream 0 is given: %s" % sorted(f0))
    else:
        rep.fail(rid, "__make_evrrul/sibling-streams", f.loc(),
                 "rule streams 1..n-1 of a multi-RRULE event are not given %s, which stream 0 is given (proto offset/zone/scale decide where their occurrences land)" % (
                     sorted(missing) or sorted(per_stream - fi)))


def r03_6(prog, rep, rid="R03.6", files=("evstrm.c", "evfilt.c", "evical.c", "evrrul.c", "evmrul.c", "echsd.c", "event.h", "range.h")):
    """Instants are ordered only through the comparators of instant.h: the packed word of an instant does not sort chronologically by
    itself (the all-day and all-second markers are all-ones fields that the comparators wrap to the front of their day/second).  A raw
    `<`/`>` between two packed instants anywhere else puts all-day occurrences behind the timed ones of the same day."""
    n = 0
    bad = 0
    from ..order import wrapped_compare
    for f in prog.all_fns():
        if not f.cfg or f.file not in files:
            continue
        if wrapped_compare(f) is not None:
            continue        # the comparators' own idiom written out: both copies wrapped before their packed words are compared
        for b, i, x, line in f.cfg.all_elems():
            for nd in walk(x):
                if nd.get("k") == "bin" and nd["op"] in ("<", ">", "<=", ">="):
                    sides = [strip_casts(f.cfg.resolve(nd["l"])), strip_casts(f.cfg.resolve(nd["r"]))]
                    packed = [s_ for s_ in sides if s_.get("k") == "mem" and s_.get("f") == "u" and "instant" in (s_.get("rec") or "")]
                    if not packed:
                        continue
                    n += 1
                    if len(packed) == 2:
                        bad += 1
                        rep.fail(rid, "%s/raw-compare(%s)" % (f.name, show(nd)[:50]), f.loc(nd.get("line", line)),
                                 "two packed instants are compared with `%s` directly: the all-day / all-second markers are not wrapped, so an all-day "
                                 "occurrence sorts behind the timed occurrences of its day (use echs_instant_lt_p / echs_event_lt_p)" % nd["op"])
    if not bad:
        rep.ok(rid, "raw-instant-comparisons", "src/evstrm.c", "no `<`/`>` between two packed instants outside instant.h (%d comparisons of a packed "
               "instant with a constant seen)" % n)


def r03_5(prog, rep, rid="R03.5"):
    """The mux constructors take a NULL-terminated list.  Every argument in front of the terminator must be known to be non-NULL at the
    call (a NULL there ends the list early: the streams behind it are silently left out, and a NULL first argument yields no stream at all)."""
    from ..flow import MustFacts
    n = 0
    for f in prog.all_fns():
        if not f.cfg or f.file.endswith(".h"):
            continue
        sites = [S for S in call_sites(f, ("echs_evstrm_mux", "echs_evstrm_mux_clon"))]
        if not sites:
            continue
        mf = MustFacts(f.cfg)
        for S in sites:
            args = [strip_casts(f.cfg.resolve(a)) for a in S.node["a"]]
            if not args or int_value(args[-1]) != 0:
                rep.fail(rid, "%s/%s-terminator" % (f.name, S.node["fn"]), f.loc(S.line), "the argument list of %s() does not end in NULL" % S.node["fn"])
                continue
            facts = mf.at(S.b, S.i) or set()
            for ai, a in enumerate(args[:-1]):
                n += 1
                t = lv(a)
                key = "%s/%s(arg %d: %s)" % (f.name, S.node["fn"], ai + 1, t)
                if ("ne", t, "0") in facts or ("true", t) in facts:
                    rep.ok(rid, key, f.loc(S.line), "%s is known to be non-NULL at the call" % t)
                else:
                    rep.fail(rid, key, f.loc(S.line),
                             "%s may be NULL when it is passed in front of the terminator of %s(): the list ends there, the streams behind it "
                             "(or, for the first argument, all of them) are silently left out of the merge" % (t, S.node["fn"]))
    if n < 4:
        rep.broken_("rule=%s expected >=4 list arguments of the mux constructors, found %d" % (rid, n))
    # callee side: the named first stream is part of the list — it must be taken (stored / handed on) before va_arg overwrites it
    m = 0
    for f in prog.fns_in("evstrm.c"):
        if not f.cfg:
            continue
        cfg = f.cfg
        for S in call_sites(f, "__builtin_va_start"):
            if len(S.node["a"]) < 2:
                continue
            p_ = strip_casts(cfg.resolve(S.node["a"][1]))
            if p_.get("k") != "ref" or p_.get("dk") != "param":
                continue
            pn = p_["n"]
            m += 1

            def visit(b_, i_, x_, _pn=pn):
                if not isinstance(x_, dict):
                    return None
                taken = False
                for c in calls(x_):
                    if (c.get("fn") or "").startswith("__builtin_"):
                        continue        # va_start(ap, s), __builtin_expect(s == NULL, 0): tests, not uses
                    if any(nn.get("k") == "ref" and nn.get("n") == _pn for a in c["a"] for nn in walk(cfg.resolve(a))):
                        taken = True
                over = False
                for l, kind, nn in writes(x_):
                    rhs = nn.get("init") if kind == "decl" else (nn.get("r") if nn.get("k") == "bin" else None)
                    if lv(l) == _pn:
                        over = True
                    elif rhs is not None and any(q.get("k") == "ref" and q.get("n") == _pn for q in walk(cfg.resolve(rhs))):
                        taken = True
                if taken:
                    return "stop"
                return "hit" if over else None
            hits, _ = forward_scan(cfg, (cfg.entry, -1), visit)
            key = "%s/first-stream-taken(%s)" % (f.name, pn)
            if hits:
                hb, hi = hits[0]
                rep.fail(rid, key, f.loc(cfg.blocks[hb].elems[hi].get("line")),
                         "the named argument %s of %s() is overwritten by the next list element before it has been taken: the first stream of every "
                         "merge is silently left out" % (pn, f.name))
            else:
                rep.ok(rid, key, f.loc(S.line), "%s is stored before va_arg() replaces it" % pn)
    if m < 2:
        rep.broken_("rule=%s expected >=2 variadic mux constructors, found %d" % (rid, m))


def r03_3c(prog, rep):
    """A clone copies as many bytes as it allocates; the handle table of the rule streams maps slot i to element i."""
    rid = "R03.3"
    ncl = 0
    for cname, slots in sorted(classes(prog).items()):
        name = slots.get("clone")
        if not name or cname not in IN_SCOPE or not prog.functions.get(name):
            continue
        f = prog.fn(name)
        cfg = f.cfg
        allocs = {}
        for b, i, x, line in cfg.all_elems():
            for l, kind, n in writes(cfg.resolve(x)):
                rhs = n.get("init") if kind == "decl" else (n.get("r") if n.get("k") == "bin" and n["op"] == "=" else None)
                if rhs is None:
                    continue
                r = strip_casts(rhs)
                if r.get("k") == "call" and r.get("fn") in ("malloc", "calloc"):
                    size = show(strip_casts(r["a"][0])) if r["fn"] == "malloc" else "(%s * %s)" % (show(strip_casts(r["a"][0])), show(strip_casts(r["a"][1])))
                    nbytes = const_eval(f, r["a"][0]) if r["fn"] == "malloc" else (
                        None if const_eval(f, r["a"][0]) is None or const_eval(f, r["a"][1]) is None else const_eval(f, r["a"][0]) * const_eval(f, r["a"][1]))
                    allocs[lv(l)] = (r["fn"], size, [strip_casts(a) for a in r["a"]], nbytes)
        if not allocs:
            continue
        for S in call_sites(f, "memcpy"):
            dst = lv(strip_casts(cfg.resolve(S.node["a"][0])))
            if dst not in allocs:
                continue
            ncl += 1
            key = "%s/copies-what-it-allocates(%s)" % (name, dst)
            fn_, asize, aargs, abytes = allocs[dst]
            csize = show(strip_casts(cfg.resolve(S.node["a"][2])))
            cbytes = const_eval(f, cfg.resolve(S.node["a"][2]))
            asz = show(strip_casts(f.expand(aargs[0]))) if fn_ == "malloc" else None
            csz = show(strip_casts(f.expand(cfg.resolve(S.node["a"][2]))))
            same = (abytes == cbytes) if (abytes is not None and cbytes is not None) else (fn_ == "malloc" and asz == csz)
            if same:
                rep.ok(rid, key, f.loc(S.line), "the clone is allocated and copied with the same size %s" % csize)
            else:
                rep.fail(rid, key, f.loc(S.line),
                         "the clone %s is allocated as %s(%s) but only %s bytes of the original are copied: the state behind the header (the cached "
                         "events / occurrences and the read position) is lost, a cloned stream delivers nothing or resumes at the wrong place" % (dst, fn_, asize, csize))
        # a whole-object assignment `*clone = *original` copies everything by construction
        for b, i, x, line in cfg.all_elems():
            for l, kind, n in writes(cfg.resolve(x)):
                l_ = strip_casts(l)
                if kind == "assign" and n.get("k") == "bin" and n["op"] == "=" and l_.get("k") == "un" and l_.get("op") == "*" and lv(strip_casts(l_["e"])) in allocs:
                    r_ = strip_casts(n["r"])
                    if r_.get("k") == "un" and r_.get("op") == "*":
                        ncl += 1
                        rep.ok(rid, "%s/copies-what-it-allocates(%s)" % (name, lv(strip_casts(l_["e"]))), f.loc(n.get("line", line)), "whole-object copy `%s = %s`" % (lv(l_), lv(r_)))
    if ncl < 2:
        rep.broken_("rule=R03.3 expected >=2 stream clones that copy an allocated object, found %d" % ncl)
    f = prog.fn("__make_evrrul", "evical.c")
    cfg = f.cfg
    for b, i, x, line in cfg.all_elems():
        for l, kind, n in writes(cfg.resolve(x)):
            l_ = strip_casts(l)
            if kind != "assign" or l_.get("k") != "idx" or n.get("k") != "bin":
                continue
            r = strip_casts(n["r"])
            if r.get("k") == "bin" and r["op"] == "+" and lv(strip_casts(r["l"])) == "this":
                ia, ib = show(strip_casts(l_["i"])), show(strip_casts(r["r"]))
                key = "__make_evrrul/handle-table[%s]" % ia
                if ia == ib:
                    rep.ok(rid, key, f.loc(n.get("line", line)), "slot %s refers to element %s" % (ia, ib))
                else:
                    rep.fail(rid, key, f.loc(n.get("line", line)), "slot %s of the handle table refers to element %s of the shared allocation: "
                             "the rule streams behind it never enter the merge and one stream is merged twice" % (ia, ib))


def r03_7(prog, rep, rid="R03.7"):
    """A sorted array stays sorted until it is handed on: behind a call of echs_instant_sort(A, n) / echs_event_sort(A, n) no element
    of A is stored to on any path to the function's exit (another sort of A starts the question anew).  The date lists of RDATE/EXDATE
    get DTSTART's time of day pasted in and are converted to UTC element by element — both can change the order — and the merge
    relies on every constituent being sorted."""
    n = 0
    for f in prog.all_fns():
        if not f.cfg or f.file.endswith(("instant.c", "event.c", "wikisort.c")):
            continue
        cfg = f.cfg
        for b, i, c, line in f.all_calls():
            if c.get("fn") not in ("echs_instant_sort", "echs_event_sort") or not c.get("a"):
                continue
            arr = lv(strip_casts(cfg.resolve(c["a"][0])))
            n += 1
            key = "%s/%s(%s)" % (f.name, c["fn"], arr)
            late = []

            def visit(bb, ii, x, _arr=arr, _late=late, _c=c):
                if not isinstance(x, dict):
                    return None
                for cc in calls(x):
                    if cc is not _c and cc.get("fn") == _c["fn"] and cc.get("a") and lv(strip_casts(cfg.resolve(cc["a"][0]))) == _arr:
                        return "stop"
                for l, kind, nn in writes(x):
                    tl = strip_casts(l)
                    while tl.get("k") == "mem":     # a member of an element is the element
                        tl = strip_casts(tl["b"])
                    if tl.get("k") == "idx" and lv(strip_casts(tl["b"])) == _arr:
                        _late.append(nn.get("line", tl.get("line")))
                        return "hit"
                    if tl.get("k") == "un" and tl.get("op") == "*" and root_var(tl) == _arr.split("->")[0].split("[")[0] and "->" not in _arr:
                        _late.append(nn.get("line", tl.get("line")))
                        return "hit"
                return None
            forward_scan(cfg, (b, i), visit)
            if late:
                rep.fail(rid, key, f.loc(late[0]), "an element of %s is stored to behind the sort of line %s: the array leaves %s in an order the sort has not seen "
                         "(the merged stream is chronological only if every constituent is)" % (arr, line, f.name), {"stores": late})
            else:
                rep.ok(rid, key, f.loc(line), "no element of %s is stored to between the sort and the function's exit" % arr)
    if n < 2:
        rep.broken_("rule=%s expected >=2 sort calls outside the sort units, found %d" % (rid, n))


def run(prog, rep, tier, snap):
    rep.rule("R03.1", "peek purity of every stream class in scope", 5)
    rep.call(r03_1, prog, rep)
    rep.rule("R03.2", "merge step decision table, index pairing, scan coverage, end-of-stream, priming", 9)
    rep.call(r03_2, prog, rep)
    rep.rule("R03.3", "allocation sizes of the mux constructors and of the shared RRULE allocation", 6)
    rep.call(r03_3, prog, rep)
    rep.call(r03_3b, prog, rep)
    rep.call(r03_3c, prog, rep)
    rep.rule("R03.4", "all rule streams of one event start from the same proto state", 1)
    rep.call(r03_4, prog, rep)
    rep.rule("R03.5", "NULL-terminated stream lists: every argument in front of the terminator is non-NULL", 4)
    rep.call(r03_5, prog, rep)
    rep.rule("R03.6", "instants are ordered only through the comparators of instant.h", 1)
    rep.call(r03_6, prog, rep)
    rep.rule("R03.7", "a sorted array is not stored to between its sort and the function's exit", 2)
    rep.call(r03_7, prog, rep)
READY = True
LEVEL_TEXT = LEVEL_TEXT + " A sorted array is not stored to between its sort and the function's exit (date lists, rule cache)."
