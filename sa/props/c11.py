"""C11 — queue is a per-user map by UID; users cannot touch others' tasks."""
from ..facts import walk, strip, strip_casts, lv, show, writes, calls, int_value, root_var
from ..flow import MustFacts, cond_atoms, elem_kills
from ..q import (Site, call_sites, site_before, forward_scan, backward_scan, const_eval, str_value, edge_start)
from ..absw import AbsWalk, eval_in
from ..snapshot import AnalysisBroken

UNITS = None
DAEMON = "echsd.c"
NOT_A_UID = 0xffffffff

EXPLANATION = (
    "R11.1: in every function of echsd.c that obtains a task handle from the shared table (get_task(), task_ht[i].t), each effect on "
    "that handle (any call taking it, any store through it) is dominated on all paths by an ownership test relating that very task to a "
    "credential uid (forward must-facts with null/auth disjunction), the uid operand is a credential (parameter or ncred_t field), and "
    "cmd_http's uid gate dominates all output. R11.2: path-sensitive walk of cmd_ical: each acted-upon instruction gets exactly one reply "
    "whose verb matches the sign of _inject_task1/_eject_task1. R11.3: the run-as uid/gid handed to the executor derive only from "
    "dflt_cred, which is written only from compl_uid() of the authenticated uid. R11.4: every counted traversal of the shared task table runs over "
    "[0, table size), so no user's tasks are skipped by listing/checkpointing loops.")
NOT_DECIDED = "map semantics of the hash table under all histories (resize-until-separate is value-level); the behaviour itself"
TRUSTED = ["clang 14 parser/CFG builder", "echse-facts extractor", "python rule engines in /verif/sa"]
LEVEL_TEXT = ("Static verdict on necessary structural clauses of C11 over all paths of the daemon's command layer: authorisation dominates "
              "every effect on a looked-up task, one reply per instruction with the right polarity, run-as provenance. It decides those "
              "clauses, not the map semantics of the table. Also: the 12-row decision table of the submission gate (asker, owner, daemon uid) and the rule that table slot indices are not kept across a re-hash. The reply to an answered instruction names the request's own task (the reader sets the oid for every answered verb).")
LEVEL_NOTE = "Trusted: clang 14 front end/CFG, extractor, rule engines. Hash-table behaviour under collisions is not decided."
TECHNIQUE = "static analysis: dominance via forward must-facts on clang CFGs, path-sensitive abstract walk, def-use provenance; value-fixed decision-table walk of the submission gate"

OWN_PRED = "echs_task_owned_by_p"
OWNER_FN = "echs_task_owner"
LOOKUPS = ("get_task",)
FRESH = ("make_task",)
# calls that only read for diagnostics
HARMLESS = {OWN_PRED, OWNER_FN, "__builtin_expect", "obint_name", "strlen"}


def _handle_of(x):
    """Task handle text of an argument expression: `res->t` -> res, `task_ht[i].t->t` -> task_ht[i].t,
    `&res->w` -> res, `res` -> res."""
    x = strip_casts(x)
    if isinstance(x, dict) and x.get("k") == "un" and x["op"] == "&":
        x = strip_casts(x["e"])
    while isinstance(x, dict) and x.get("k") == "call" and x.get("fn") == "deconst":
        x = strip_casts(x["a"][0])
    if isinstance(x, dict) and x.get("k") == "mem" and x["arrow"]:
        return lv(x["b"])
    return lv(x)


def _is_log(c):
    if c.get("fn") is None:
        ce = strip_casts(c.get("ce"))
        if isinstance(ce, dict) and ce.get("k") == "un":
            ce = strip_casts(ce["e"])
        return isinstance(ce, dict) and ce.get("k") == "ref" and ce["n"] == "echs_log"
    return False


def _handles(f):
    """Handle texts in function f: variables assigned from a lookup, and the
    table expression task_ht[..].t when used directly."""
    hs = {}
    for b, i, x, line in f.cfg.all_elems():
        for l, kind, n in writes(x):
            rhs = None
            if kind == "decl":
                rhs = n.get("init")
            elif n.get("k") == "bin" and n["op"] == "=":
                rhs = n["r"]
            rhs = strip_casts(f.cfg.resolve(rhs)) if rhs is not None else None
            if isinstance(rhs, dict) and rhs.get("k") == "call" and rhs.get("fn") in LOOKUPS + FRESH:
                hs.setdefault(lv(l), set()).add(rhs["fn"])
        for n in walk(x):
            if n.get("k") == "mem" and n["f"] == "t" and not n["arrow"]:
                base = strip_casts(n["b"])
                if base.get("k") == "idx" and lv(base["b"]) == "task_ht":
                    hs.setdefault(lv(n), set()).add("task_ht[]")
    return hs


def _gen_factory(f, handles, creds, rep_uid):
    def handle_text(e):
        h = _handle_of(e)
        return h if h in handles else None

    def gen(c, truth):
        facts = set()
        for a in cond_atoms(c, truth):
            if len(a) == 3:
                kind, text, e = a
                e = strip(e)
                if isinstance(e, dict) and e.get("k") == "call" and e.get("fn") == OWN_PRED:
                    h = handle_text(e["a"][0])
                    if h and kind == "true":
                        facts.add(("auth", h))
                        rep_uid(h, e["a"][1], e)
                elif isinstance(e, dict) and e.get("k") in ("ref", "mem"):
                    h = lv(e)
                    if h in handles:
                        facts.add(("ne0", h) if kind == "true" else ("null", h))
                elif isinstance(e, dict) and e.get("k") == "bin" and e["op"] == "=":
                    h = lv(e["l"])
                    if h in handles:
                        facts.add(("ne0", h) if kind == "true" else ("null", h))
            else:
                op, lt, rt, le, re_ = a
                for x_, y_ in ((le, re_), (re_, le)):
                    x_ = strip(x_)
                    if isinstance(x_, dict) and x_.get("k") == "bin" and x_["op"] == "=":
                        tgt = lv(x_["l"])
                        rhs = strip_casts(x_["r"])
                        if isinstance(rhs, dict) and rhs.get("k") == "call" and rhs.get("fn") == OWNER_FN:
                            # (u = echs_task_owner(H->t)) ==/!= X : u names the owner of H afterwards
                            pass
                        x_cmp = x_["l"]
                    else:
                        x_cmp = x_
                    xc = strip(x_cmp)
                    # handle ==/!= NULL
                    if isinstance(xc, dict) and lv(xc) in handles and const_eval(f, y_) == 0:
                        if op == "==":
                            facts.add(("null", lv(xc)))
                        elif op == "!=":
                            facts.add(("ne0", lv(xc)))
                    # echs_task_owner(H->t) == uid
                    if isinstance(x_, dict) and x_.get("k") == "call" and x_.get("fn") == OWNER_FN and op == "==":
                        h = handle_text(x_["a"][0])
                        if h:
                            facts.add(("auth", h))
                            rep_uid(h, y_, x_)
        return facts
    return gen


def _closure(fs):
    fs = set(fs)
    for f in list(fs):
        if f[0] in ("null", "auth"):
            fs.add(("nullorauth", f[1]))
    for f in list(fs):
        if f[0] == "nullorauth" and ("ne0", f[1]) in fs:
            fs.add(("auth", f[1]))
    return fs


def r11_1(prog, rep):
    rid = "R11.1"
    total = 0
    fl = [f for f in prog.fns_in(DAEMON) if f.cfg]
    for f in fl:
        handles = _handles(f)
        if not handles:
            continue
        lookups = {h for h, src in handles.items() if src & (set(LOOKUPS) | {"task_ht[]"})}
        if not lookups:
            continue
        if f.name in ("get_task", "make_task", "free_task", "put_task_slot", "get_task_slot", "free_task_ht", "chkpnta"):
            # table maintenance, and the all-users dump (handled below)
            continue
        cfg = f.cfg
        creds = set()
        for p in f.params:
            if p["t"] in ("uid_t", "unsigned int", "ncred_t") or "ncred" in p["t"]:
                creds.add(p["n"])
        for l in f.locals:
            if "ncred_t" in (l.get("t") or "") or (l.get("t") == "uid_t"):
                creds.add(l["n"])
        uid_ok = {}

        def rep_uid(h, uexpr, node):
            u = strip_casts(uexpr)
            rv = root_var(u)
            good = rv is not None and rv["n"] in creds and not any(n.get("k") == "call" for n in walk(u))
            uid_ok[(h, show(u))] = (good, node.get("line"))

        gen = _gen_factory(f, handles, creds, rep_uid)

        def extra_gen(x):
            out = set()
            for l, kind, n in writes(x):
                rhs = n.get("init") if kind == "decl" else (n["r"] if n.get("k") == "bin" and n["op"] == "=" else None)
                rhs = strip_casts(cfg.resolve(rhs)) if rhs is not None else None
                if isinstance(rhs, dict) and rhs.get("k") == "call" and rhs.get("fn") in FRESH:
                    out.add(("fresh", lv(l)))
                    out.add(("auth", lv(l)))  # a freshly made table entry belongs to nobody yet
            return out

        def closure(fs):
            fs = _closure(fs)
            return fs
        mf = MustFacts(cfg, gen=gen, extra_gen=extra_gen, closure=closure)
        # `fresh` handles count as authorised once known non-null
        n_eff = 0
        for b, i, x, line in cfg.all_elems():
            facts = mf.at(b, i)
            if facts is None:
                continue
            facts = _closure(facts)
            effects = []
            for c in calls(x):
                if c.get("fn") in HARMLESS or _is_log(c) or c.get("fn") in LOOKUPS + FRESH:
                    continue
                for a in c["a"]:
                    a_ = strip_casts(cfg.resolve(a))
                    hs = {_handle_of(a_)} | {lv(n) for n in walk(a_) if n.get("k") in ("ref", "mem")}
                    for h in hs & lookups:
                        # a handle appearing only inside an ownership predicate argument is harmless
                        effects.append((h, "call %s(%s)" % (c.get("fn") or "(*)", ", ".join(show(q) for q in c["a"])), c.get("line", line)))
                        break
            for l, kind, n in writes(x):
                if kind == "decl":
                    continue
                l_ = strip_casts(l)
                if l_.get("k") == "mem" and l_["arrow"] and lv(l_["b"]) in lookups:
                    effects.append((lv(l_["b"]), "store %s" % show(n), n.get("line", line)))
            for h, what, ln in effects:
                n_eff += 1
                total += 1
                key = "%s/%s/%s" % (f.name, h, what.split("(")[0].replace("store ", "store:").split(" = ")[0])
                if ("auth", h) in facts or (("fresh", h) in facts):
                    rep.ok(rid, key, f.loc(ln), "%s on handle %s is dominated by an ownership test (or the handle is freshly made)" % (what, h))
                else:
                    rep.fail(rid, key, f.loc(ln),
                             "effect `%s` on task handle %s (from the shared table) is reachable without an ownership test of that task "
                             "against a credential uid; facts: %s" % (what, h, sorted(fx for fx in facts if fx[1] == h)),
                             {"function": f.name, "handle": h})
        for (h, utext), (good, ln) in sorted(uid_ok.items()):
            key = "%s/%s/owner-test-operand" % (f.name, h)
            if good:
                rep.ok(rid, key, f.loc(ln), "ownership of %s is tested against credential %s" % (h, utext))
            else:
                rep.fail(rid, key, f.loc(ln), "ownership of %s is tested against `%s`, which is not a credential of the peer "
                         "(parameter uid or ncred_t field)" % (h, utext))
    return total


def r11_1_gate(prog, rep):
    """cmd_http: the uid gate dominates every output and the served uid derives from the peer credential."""
    rid = "R11.1"
    f = prog.fn("cmd_http", DAEMON)
    cfg = f.cfg
    cred = None
    for p in f.params:
        if "ncred" in p["t"]:
            cred = p["n"]
    if cred is None:
        raise AnalysisBroken("cmd_http has no credential parameter")

    def is_gate(cond):
        """(u = c.u & X) != c.u  -> returns the gated variable, else None"""
        for a in cond_atoms(cond, True):
            if len(a) == 5:
                op, lt, rt, le, re_ = a
                le_ = strip(le)
                if op == "!=" and isinstance(le_, dict) and le_.get("k") == "bin" and le_["op"] == "=" and rt == cred + ".u":
                    r = strip_casts(le_["r"])
                    if r.get("k") == "bin" and r["op"] == "&" and (lv(r["l"]) == cred + ".u" or lv(r["r"]) == cred + ".u"):
                        return lv(le_["l"])
        return None
    gated = {"var": None}
    outputs = ("openat", "fstatat", "sendfile", "echs_task_icalify", "echs_http_send_sched", "echs_icalify_init", "chkpnt")
    seen = {}

    def effect(b, i, x, store):
        upd = {}
        for c in calls(x):
            if c.get("fn") in outputs:
                key = (c["fn"], c.get("line"))
                seen.setdefault(key, []).append(store.get("$gate"))
        for l, kind, n in writes(x):
            if gated["var"] and lv(l) == gated["var"] and store.get("$gate") is not None:
                r = strip_casts(cfg.resolve(n["r"])) if n.get("k") == "bin" and n["op"] == "=" else None
                if not (r is not None and r.get("k") == "cond" and r.get("T") is None and lv(r["c"]) == lv(l)):
                    upd["$gate"] = 0  # the gated uid is overwritten by something else than `u ?: cmd->uid`
        return upd

    def assume(b, si, cond, store):
        g = is_gate(cond)
        if g:
            gated["var"] = g
            return {"$gate": 0 if si == 0 else 1}
        # sign abstraction of descriptors: (fd = call(...)) < 0
        for truth in (True, False):
            for a in cond_atoms(cond, truth):
                if len(a) == 5 and a[0] == "<" and int_value(a[4]) == 0:
                    l = strip(a[3])
                    if isinstance(l, dict) and l.get("k") == "bin" and l["op"] == "=" and lv(l["l"]) in tracked:
                        return {lv(l["l"]): (-1 if (si == 0) == truth else 1000000)}
        return None
    tracked = {l_["n"] for l_ in f.locals if l_.get("t") in ("int", "const char *")}
    for b_, i_, x_, ln_ in cfg.all_elems():
        for l, kind, n in writes(x_):
            if kind in ("incdec", "compound"):
                tracked.discard(lv(l))  # counters are not configuration
    w = AbsWalk(f, tracked, effect=effect, assume=assume).run()
    if not w.exit_stores:
        rep.broken_("rule=R11.1 cmd_http: abstract walk reached no exit")
    if gated["var"] is None:
        rep.fail(rid, "cmd_http/gate", f.loc(), "the uid gate `(u = %s.u & cmd->uid) != %s.u` was not found" % (cred, cred))
    n = 0
    for (fnm, line), gates in sorted(seen.items(), key=str):
        n += 1
        key = "cmd_http/gate/%s" % fnm
        if all(g == 1 for g in gates):
            rep.ok(rid, key, f.loc(line), "%s is executed only on paths that passed the uid gate (%d abstract states)" % (fnm, len(gates)))
        else:
            rep.fail(rid, key, f.loc(line), "%s in cmd_http is reachable on a feasible path that did not pass the uid gate" % fnm)
    if n < 5:
        rep.broken_("rule=R11.1 cmd_http: expected >=5 gated outputs, found %d" % n)

    class _MF:
        def at(self, b, i):
            return {("gate", gated["var"])} if gated["var"] else set()
    mf = _MF()
    # the queue file name is formatted from the gated uid
    for S in call_sites(f, "snprintf"):
        fmt = str_value(prog, f, S.node["a"][2]) if len(S.node["a"]) > 2 else None
        if fmt and "echsq_" in fmt:
            arg = lv(S.node["a"][3])
            facts = mf.at(S.b, S.i) or set()
            if ("gate", arg) in facts:
                rep.ok(rid, "cmd_http/queue-file-uid", f.loc(S.line), "queue file name is formatted from the gated uid %s" % arg)
            else:
                rep.fail(rid, "cmd_http/queue-file-uid", f.loc(S.line), "queue file name is formatted from %s, which is not the gated uid" % arg)


def r11_1_dump(prog, rep):
    """chkpnta (all-users dump): the descriptor a task is written to is selected by that task's owner."""
    rid = "R11.1"
    f = prog.fn("chkpnta", DAEMON)
    cfg = f.cfg
    ic = [s for s in call_sites(f, "echs_task_icalify")]
    if len(ic) != 1:
        rep.fail(rid, "chkpnta/serialise-site", f.loc(), "expected one echs_task_icalify site, found %d" % len(ic))
        return
    S = ic[0]
    fdv = lv(S.node["a"][0])
    h = _handle_of(cfg.resolve(S.node["a"][1]))
    # every definition of fdv reaching S: seenp(&tree, U) or openat(qdirfd, fn formatted with U); U assigned from echs_task_owner(h->t)
    uvars = set()
    problems = []
    for b, i, x, line in cfg.all_elems():
        for l, kind, n in writes(x):
            if lv(l) != fdv or kind == "decl":
                continue
            r = strip_casts(cfg.resolve(n["r"])) if n.get("k") == "bin" else None
            if r is None:
                continue
            if r.get("k") == "call" and r["fn"] == "seenp":
                uvars.add(lv(r["a"][1]))
            elif r.get("k") == "call" and r["fn"] == "openat":
                from ..q import reaching_format
                fm, sites = reaching_format(prog, f, lv(r["a"][1]), (b, i))
                for s_ in sites:
                    uvars.add(lv(s_.node["a"][3]))
            elif const_eval(f, r) is not None:
                continue  # error marker (INT_MIN)
            else:
                problems.append("descriptor %s assigned from %s" % (fdv, show(r)))
    owner_src = set()
    for b, i, x, line in cfg.all_elems():
        for l, kind, n in writes(x):
            if lv(l) in uvars and n.get("k") == "bin" and n["op"] == "=":
                r = strip_casts(cfg.resolve(n["r"]))
                if r.get("k") == "call" and r["fn"] == OWNER_FN:
                    owner_src.add(_handle_of(r["a"][0]))
                else:
                    problems.append("uid %s assigned from %s" % (lv(l), show(r)))
    if len(uvars) == 1 and owner_src == {h} and not problems:
        rep.ok(rid, "chkpnta/descriptor-by-owner", f.loc(S.line),
               "task %s is written to the descriptor selected by %s = echs_task_owner(%s->t)" % (h, sorted(uvars)[0], h))
    else:
        rep.fail(rid, "chkpnta/descriptor-by-owner", f.loc(S.line),
                 "cannot show that the descriptor %s is the one opened for the owner of the serialised task %s (uid vars %s, owner of %s; %s)" % (
                     fdv, h, sorted(uvars), sorted(owner_src), "; ".join(problems)))


def r11_2(prog, rep):
    rid = "R11.2"
    f = prog.fn("cmd_ical", DAEMON)
    cfg = f.cfg
    SUCC = prog.enumerator("INSVERB_SUCC")
    FAIL = prog.enumerator("INSVERB_FAIL")
    ACT = ("_inject_task1", "_eject_task1")
    problems = []
    seen_ok = {"replies": 0}

    def effect(b, i, x, store):
        upd = {}
        for c in calls(x):
            fn = c.get("fn")
            if fn in ACT:
                if store.get("$pending"):
                    problems.append(("second action before a reply", c.get("line")))
                upd["$pending"] = 1
                upd["$res"] = None
            elif fn == "echs_evical_pull":
                if store.get("$pending"):
                    problems.append(("instruction acted upon but the next one is pulled without a reply", c.get("line")))
                upd["$pending"] = None
                upd["$res"] = None
            elif fn == "cmd_ical_rpl":
                a1 = strip_casts(c["a"][1]) if len(c["a"]) > 1 else {}
                if a1.get("k") == "init":
                    continue  # flush form (verb UNK)
                verb = store.get(lv(a1) + ".v")
                if not store.get("$pending"):
                    problems.append(("a reply is sent with no pending instruction (duplicate or spurious reply)", c.get("line")))
                    continue
                res = store.get("$res")
                if res == -1 and verb != FAIL:
                    problems.append(("failure of the action is answered with verb %s (expected INSVERB_FAIL)" % verb, c.get("line")))
                elif res == 0 and verb != SUCC:
                    problems.append(("success of the action is answered with verb %s (expected INSVERB_SUCC)" % verb, c.get("line")))
                elif res is None:
                    problems.append(("reply polarity not decided by the sign test of the action", c.get("line")))
                else:
                    seen_ok["replies"] += 1
                upd["$pending"] = None
                upd["$res"] = None
        return upd

    def assume(b, si, cond, store):
        # learn the sign of the action on the edges of `action(...) < 0`
        for truth in (True, False):
            for a in cond_atoms(cond, truth):
                if len(a) == 5 and a[0] == "<" and int_value(a[4]) == 0:
                    l = strip(a[3])
                    if isinstance(l, dict) and l.get("k") == "call" and l.get("fn") in ACT:
                        return {"$res": -1 if (si == 0) == truth else 0}
        return None

    def on_exit(store):
        if store.get("$pending"):
            problems.append(("instruction acted upon but cmd_ical returns without a reply", None))
    w = AbsWalk(f, {"ins.v"}, effect=effect, assume=assume).run(on_exit=on_exit)
    if not w.exit_stores:
        rep.broken_("rule=R11.2 abstract walk reached no exit")
    uniq = sorted(set(problems), key=str)
    if uniq:
        for msg, ln in uniq:
            rep.fail(rid, "cmd_ical/one-reply/%s" % msg.split(" (")[0][:60], f.loc(ln), msg)
    else:
        rep.ok(rid, "cmd_ical/one-reply-right-polarity", f.loc(),
               "over %d abstract states: every _inject_task1/_eject_task1 is followed by exactly one cmd_ical_rpl whose verb matches the sign (%d reply states)" % (
                   len(w.visited), seen_ok["replies"]))
        if seen_ok["replies"] < 2:
            rep.broken_("rule=R11.2 expected >=2 decided reply states, got %d" % seen_ok["replies"])
    # listed exception
    rep.note(rid, "cmd_ical/ins.t==NULL->continue", f.loc(), "allocation failure of the parser yields no reply (listed exception: nothing was acted upon)")
    # actions pass the peer's uid
    for S in call_sites(f, ACT):
        a = lv(S.node["a"][-1])
        if a == "cred.u":
            rep.ok(rid, "cmd_ical/%s-uid" % S.node["fn"], f.loc(S.line), "%s acts for the peer credential cred.u" % S.node["fn"])
        else:
            rep.fail(rid, "cmd_ical/%s-uid" % S.node["fn"], f.loc(S.line), "%s is called with uid %s instead of the peer credential" % (S.node["fn"], a))
    # the reply text agrees with the verb
    r = prog.fn("cmd_ical_rpl", DAEMON)
    _reply_text(prog, rep, rid, r, SUCC, FAIL)


def _reply_text(prog, rep, rid, r, SUCC, FAIL):
    """With the verb fixed (constant propagation; switch or if-chain alike), the status line written agrees with it."""
    cfg = r.cfg
    discr = None
    for b_, i_, x_, ln_ in cfg.all_elems():
        for n in walk(cfg.resolve(x_)):
            if n.get("k") == "mem" and n.get("f") == "v" and "instruc" in (n.get("rec") or ""):
                discr = lv(n)
    if discr is None:
        rep.fail(rid, "cmd_ical_rpl/SUCC-text", r.loc(), "cmd_ical_rpl never looks at the verb of the instruction")
        return

    def texts_for(val):
        out = []

        def effect(b, i, x, store, _o=out):
            if isinstance(x, dict) and x.get("k") == "call" and x.get("fn") in ("fdwrite", "fdprintf"):
                t = str_value(prog, r, x["a"][0])
                if t and "REQUEST-STATUS" in t:
                    _o.append(t)
            return None
        AbsWalk(r, {discr}, init={discr: val}, effect=effect).run()
        return out
    st = texts_for(SUCC)
    if st and all("2.0;Success" in t for t in st) and not any(":5." in t or ";5." in t for t in st):
        rep.ok(rid, "cmd_ical_rpl/SUCC-text", r.loc(), "with %s == INSVERB_SUCC the status written is REQUEST-STATUS:2.0;Success" % discr)
    else:
        rep.fail(rid, "cmd_ical_rpl/SUCC-text", r.loc(), "with %s == INSVERB_SUCC the status lines written are %s" % (discr, st or "none"))
    for nm, val in (("INSVERB_FAIL", FAIL), ("any other verb", 97)):
        ft = texts_for(val)
        if any("Success" in t for t in ft):
            rep.fail(rid, "cmd_ical_rpl/FAIL-text", r.loc(), "a failure verb (%s) writes a success status: %s" % (nm, ft))
            return
    rep.ok(rid, "cmd_ical_rpl/FAIL-text", r.loc(), "failure verbs never write a success status")

def r11_3(prog, rep):
    rid = "R11.3"
    v = prog.fn("vtodoify", DAEMON)
    cfg = v.cfg
    n = 0
    for S in call_sites(v, "fdprintf"):
        fmt = str_value(prog, v, S.node["a"][0]) or ""
        if fmt.startswith("X-ECHS-SETUID") or fmt.startswith("X-ECHS-SETGID"):
            n += 1
            fld = "u" if "UID" in fmt else "g"
            arg = strip_casts(cfg.resolve(S.node["a"][1]))
            src = lv(arg)
            key = "vtodoify/%s" % fmt.split(":")[0]
            ok = True
            why = []
            if src.endswith("dflt_cred." + fld):
                pass
            else:
                # local copy: every write to it must come from dflt_cred
                rv = root_var(arg)
                wr = []
                for b, i, x, line in cfg.all_elems():
                    for l, kind, nn in writes(x):
                        if lv(l) == src and nn.get("k") == "bin":
                            wr.append(lv(cfg.resolve(nn["r"])))
                        if kind == "decl" and rv is not None and lv(l) == rv["n"] and nn.get("init") is not None:
                            ini = strip_casts(cfg.resolve(nn["init"]))
                            if ini.get("k") == "init":
                                for name, val in ini["fs"]:
                                    if name == fld and val is not None:
                                        wr.append(lv(val))
                            else:
                                wr.append(lv(ini))
                if not wr or any(not w.endswith("dflt_cred." + fld) for w in wr):
                    ok = False
                    why.append("%s is written from %s" % (src, wr))
            if ok:
                rep.ok(rid, key, v.loc(S.line), "%s prints a value that derives only from _task_s.dflt_cred.%s" % (fmt.split(":")[0], fld))
            else:
                rep.fail(rid, key, v.loc(S.line), "%s may print a value not derived from dflt_cred: %s" % (fmt.split(":")[0], "; ".join(why)))
    if n != 2:
        rep.broken_("rule=R11.3 expected SETUID and SETGID lines in vtodoify, found %d" % n)
    # writers of dflt_cred.u/g in the whole daemon
    nw = 0
    for f in prog.fns_in(DAEMON):
        if not f.cfg:
            continue
        mf = None
        for b, i, x, line in f.cfg.all_elems():
            for l, kind, nn in writes(x):
                t = lv(l)
                if t.endswith("dflt_cred.u") or t.endswith("dflt_cred.g") or t.endswith("dflt_cred"):
                    nw += 1
                    key = "%s/write %s" % (f.name, t.split("->")[-1])
                    rhs = strip_casts(f.cfg.resolve(nn["r"])) if nn.get("k") == "bin" else None
                    src = lv(rhs) if rhs is not None else "?"
                    rv = root_var(rhs) if rhs is not None else None
                    good = False
                    if f.name == "_inject_task1" and rv is not None:
                        # source variable must only be assigned from compl_uid(...) or, guarded by == NOT_A_UID, from the owner
                        good = _only_from_compl_uid(f, rv["n"])
                    if good:
                        rep.ok(rid, key, f.loc(nn.get("line", line)), "%s = %s, and %s is only ever assigned from compl_uid() (or from the recorded owner when no peer uid is given)" % (t, src, rv["n"]))
                    else:
                        rep.fail(rid, key, f.loc(nn.get("line", line)), "run-as credential %s is written from %s outside the authenticated path" % (t, src))
    if nw < 2:
        rep.broken_("rule=R11.3 expected >=2 writes to dflt_cred.u/g, found %d" % nw)


def _only_from_compl_uid(f, var):
    cfg = f.cfg
    mf = MustFacts(cfg)
    for b, i, x, line in cfg.all_elems():
        for l, kind, nn in writes(x):
            t = lv(l)
            if t != var and not t.startswith(var + "."):
                continue
            if kind == "decl":
                if nn.get("init") is None:
                    continue
                rhs = strip_casts(cfg.resolve(nn["init"]))
            elif nn.get("k") == "bin" and nn["op"] == "=":
                rhs = strip_casts(cfg.resolve(nn["r"]))
            else:
                return False
            if rhs.get("k") == "call" and rhs.get("fn") == "compl_uid":
                # argument: the uid parameter or the variable's own .u
                a = lv(rhs["a"][0])
                if a in [p["n"] for p in f.params if p["t"] == "uid_t"] or a == var + ".u":
                    continue
                return False
            # allowed: var.u = <owner cred>.u only where var.u == NOT_A_UID holds
            facts = mf.at(b, i) or set()
            guarded = any(fx[0] == "eq" and fx[1] == t and _is_not_a_uid(fx[2]) for fx in facts)
            if t == var + ".u" and guarded:
                continue
            return False
    return True


def _is_not_a_uid(text):
    try:
        return int(text) in (NOT_A_UID, -1)
    except ValueError:
        return text in ("NOT_A_UID", "-1")


def r11_4(prog, rep):
    """Every counted traversal of the shared task table covers the whole table: `for (i = 0; i < ztask_ht; i++) task_ht[i]`."""
    rid = "R11.4"
    n = 0
    for f in prog.fns_in(DAEMON):
        if not f.cfg:
            continue
        cfg = f.cfg
        loops = cfg.natural_loops()
        seen = 0
        for h, blks in sorted(loops.items(), reverse=True):
            idxvars = set()
            for b in blks:
                for e in cfg.blocks[b].elems:
                    for nn in walk(e["x"]):
                        if nn.get("k") == "idx" and lv(nn["b"]) == "task_ht":
                            iv = strip_casts(nn["i"])
                            if iv.get("k") == "ref":
                                idxvars.add(iv["n"])
            # counters: stepped inside the loop
            counters = set()
            down = {}
            for b in blks:
                for e in cfg.blocks[b].elems:
                    for l, kind, nn in writes(e["x"]):
                        if kind == "incdec" and lv(l) in idxvars:
                            counters.add(lv(l))
                            if "--" in nn["op"]:
                                down[lv(l)] = nn
            # only the innermost loop that increments the counter
            if not counters or any(h2 != h and h2 in blks and counters & _incs_in(cfg, loops[h2]) for h2 in loops):
                continue
            c = cfg.cond(h)
            for v in sorted(counters):
                n += 1
                seen += 1
                key = "%s/task_ht-traversal#%d" % (f.name, seen)
                if v in down:
                    # a descending walk covers slot 0 only if the counter is tested BEFORE it is decremented (`i--`, `i-- > 0`) and starts at the size
                    start_ok = False
                    for p in cfg.lpreds[h]:
                        if p in blks:
                            continue
                        for e in cfg.blocks[p].elems:
                            for l, kind, nn in writes(e["x"]):
                                rhs = nn.get("init") if kind == "decl" else (nn.get("r") if nn.get("k") == "bin" else None)
                                if lv(l) == v and rhs is not None and lv(strip_casts(cfg.resolve(rhs))) == "ztask_ht":
                                    start_ok = True
                    post = down[v]["op"] == "post--" and c is not None and any(m is down[v] or (m.get("k") == "un" and m.get("op") == "post--" and lv(m.get("e")) == v) for m in walk(c))
                    if start_ok and post:
                        rep.ok(rid, key, f.loc(cfg.blocks[h].elems[-1].get("line") if cfg.blocks[h].elems else None), "%s runs down from ztask_ht - 1 to 0" % v)
                    else:
                        rep.fail(rid, key, f.loc(cfg.blocks[h].elems[-1].get("line") if cfg.blocks[h].elems else None),
                                 "descending traversal of the task table with counter %s (`%s`)%s: slot 0 (or the top slots) is never visited - the task "
                                 "stored there vanishes from listings, checkpoints or a resize" % (
                                     v, show(c) if c is not None else "?", "" if start_ok else " does not start at the table size"))
                    continue
                atoms = cond_atoms(c, True) if c is not None else []
                bound = [a for a in atoms if len(a) == 5 and a[0] == "<" and a[1] == v]
                init0 = False
                for p in cfg.lpreds[h]:
                    if p in blks:
                        continue
                    for e in cfg.blocks[p].elems:
                        for l, kind, nn in writes(e["x"]):
                            if lv(l) == v and (nn.get("init") is not None or nn.get("k") == "bin") and int_value(nn.get("init") if kind == "decl" else nn.get("r")) == 0:
                                init0 = True
                if bound and bound[0][2] == "ztask_ht" and init0:
                    rep.ok(rid, key, f.loc(cfg.blocks[h].elems[-1].get("line") if cfg.blocks[h].elems else None), "%s runs over 0 .. ztask_ht - 1" % v)
                else:
                    rep.fail(rid, key, f.loc(cfg.blocks[h].elems[-1].get("line") if cfg.blocks[h].elems else None),
                             "traversal of the task table with counter %s is bounded by `%s` starting at %s: slots outside that range are skipped (tasks vanish from "
                             "listings, checkpoints or a resize)" % (v, show(c) if c is not None else "?", "0" if init0 else "a non-zero index"))
    if n < 4:
        rep.broken_("rule=R11.4 expected >=4 counted traversals of task_ht, found %d" % n)


def _incs_in(cfg, blks):
    out = set()
    for b in blks:
        for e in cfg.blocks[b].elems:
            for l, kind, nn in writes(e["x"]):
                if kind == "incdec":
                    out.add(lv(l))
    return out


def r11_5(prog, rep):
    """Decision table of the submission gate.  _inject_task1() learns who asks (uc, from the socket credentials) and for whom (oc, the
    task's owner); either may be unset.  Walked with the three uids fixed to each row of the table (value-fixed walk; the rest forks):
    a submission may go on to the task table only when asker and owner agree, or when the one that is given is the daemon's own uid
    (or the daemon is root).  The defaulting of the unset side must therefore not happen before these tests."""
    rid = "R11.5"
    f = prog.fn("_inject_task1", DAEMON)
    cfg = f.cfg
    creds = {}
    for b, i, x, line in cfg.all_elems():
        for l, kind, nn in writes(x):
            rhs = nn.get("init") if kind == "decl" else (nn.get("r") if nn.get("k") == "bin" and nn["op"] == "=" else None)
            if rhs is None:
                continue
            r = strip_casts(cfg.resolve(rhs))
            if r.get("k") == "call" and r.get("fn") in ("compl_owner", "compl_uid") and strip_casts(l).get("k") == "ref":
                creds[r["fn"]] = lv(l)
    if set(creds) != {"compl_owner", "compl_uid"}:
        raise AnalysisBroken("R11.5: credentials of _inject_task1 not found (%s)" % creds)
    oc, uc = creds["compl_owner"], creds["compl_uid"]
    N = NOT_A_UID
    rows = [
        # (asker, owner, daemon uid, may proceed)
        (N, N, 1000, False), (N, N, 0, False),
        (N, 5, 1000, False), (N, 1000, 1000, True), (N, 5, 0, True),
        (5, N, 1000, False), (1000, N, 1000, True), (5, N, 0, True),
        (5, 6, 1000, False), (5, 6, 0, False), (5, 5, 1000, True), (5, 5, 0, True),
    ]
    n = 0
    for ucv, ocv, me, want in rows:
        reached = []
        val = {oc: ocv, uc: ucv}

        def effect(b, i, x, store):
            upd = {}
            for v_ in (oc, uc):
                if store.get("$pin:" + v_):
                    upd[v_ + ".u"] = val[v_]
                    upd["$pin:" + v_] = None
            for l, kind, nn in writes(x):
                if lv(l) in (oc, uc) and strip_casts(l).get("k") == "ref":
                    rhs = nn.get("init") if kind == "decl" else (nn.get("r") if nn.get("k") == "bin" else None)
                    if rhs is not None and strip_casts(cfg.resolve(rhs)).get("k") == "call":
                        upd["$pin:" + lv(l)] = 1
            for c in calls(x):
                if c.get("fn") in LOOKUPS + FRESH:
                    reached.append((b, i))
            return upd
        AbsWalk(f, {oc + ".u", uc + ".u", "meself.uid"}, init={"meself.uid": me}, effect=effect, max_states=50000).run()
        n += 1
        got = bool(reached)
        show_ = lambda v: "unset" if v == N else str(v)
        key = "_inject_task1/gate(asker=%s,owner=%s,daemon=%s)" % (show_(ucv), show_(ocv), me)
        if got == want:
            rep.ok(rid, key, f.loc(), "submission %s" % ("goes on to the task table" if got else "is refused before the task table is touched"), nontrivial=(n == 1))
        elif got:
            rep.fail(rid, key, f.loc(), "a submission with asker=%s, owner=%s reaches the task table of a daemon running as uid %s: "
                     "a user can queue (or replace) a task that runs as somebody else" % (show_(ucv), show_(ocv), me))
        else:
            rep.fail(rid, key, f.loc(), "a legitimate submission (asker=%s, owner=%s, daemon uid %s) is refused" % (show_(ucv), show_(ocv), me))


def r11_6(prog, rep):
    """Slot indices of the shared table are positions in *this* table: put_task_slot() re-hashes every entry into a larger table when
    two keys collide.  An index obtained from put_task_slot()/get_task_slot() may be used on the spot; stored into an object that
    outlives the call it goes stale with the next re-hash unless the re-hash loop rewrites that very field."""
    rid = "R11.6"
    SLOTFN = ("put_task_slot", "get_task_slot")
    nsrc = 0
    stored = []
    for f in prog.fns_in(DAEMON):
        if not f.cfg:
            continue
        cfg = f.cfg
        tainted = set()
        for b, i, x, line in cfg.all_elems():
            for l, kind, nn in writes(x):
                rhs = nn.get("init") if kind == "decl" else (nn.get("r") if nn.get("k") == "bin" and nn["op"] == "=" else None)
                if rhs is None:
                    continue
                r = strip_casts(cfg.resolve(rhs))
                if r.get("k") == "call" and r.get("fn") in SLOTFN and strip_casts(l).get("k") == "ref":
                    tainted.add(lv(l))
                    nsrc += 1
        if not tainted:
            continue
        for b, i, x, line in cfg.all_elems():
            for l, kind, nn in writes(x):
                l_ = strip_casts(l)
                rhs = nn.get("r") if nn.get("k") == "bin" and nn["op"] == "=" else None
                if rhs is None or l_.get("k") != "mem":
                    continue
                r = strip_casts(cfg.resolve(rhs))
                rv = root_var(l_)
                if r.get("k") == "ref" and r.get("n") in tainted and (l_.get("arrow") or (rv is not None and rv.get("dk") in ("global", "slocal"))):
                    stored.append((f, l_["f"], lv(l_), nn.get("line", line)))
    # an oid has exactly one place in the table: both lookup functions hand out nothing but `oid & (size - 1)` (or an error).  The
    # re-hash copies entries without a collision check, which is sound only as long as nobody is parked anywhere else.
    for fname in SLOTFN:
        g = prog.fn(fname, DAEMON)
        gcfg = g.cfg
        oidp = g.params[0]["n"]
        for b, i, x, line in gcfg.all_elems():
            if not (isinstance(x, dict) and x.get("k") == "ret" and x.get("e") is not None):
                continue
            e = strip_casts(gcfg.resolve(x["e"]))
            v = int_value(e)
            key = "%s/returns-home-slot@%s" % (fname, line)
            if v is not None:
                rep.ok(rid, key, g.loc(line), "returns the constant %d (error / no slot)" % v, nontrivial=False)
                continue
            if e.get("k") != "ref":
                rep.fail(rid, key, g.loc(line), "%s() returns `%s`, not the oid's home slot `oid & (size - 1)`: an entry parked elsewhere is lost "
                         "(or collides) at the next re-hash, which copies entries to their home slots without a collision check" % (fname, show(e)[:40]))
                continue
            defs = []
            for b2, i2, x2, l2 in gcfg.all_elems():
                if not isinstance(x2, dict):
                    continue
                for l, kind, nn in writes(x2):
                    if lv(l) == e["n"]:
                        rhs = nn.get("init") if kind == "decl" else (nn.get("r") if nn.get("k") == "bin" and nn["op"] == "=" else nn)
                        defs.append(strip_casts(gcfg.resolve(rhs)) if rhs is not None else None)
            def home(d):
                return isinstance(d, dict) and d.get("k") == "bin" and d["op"] == "&" and lv(strip_casts(d["l"])) == oidp
            if defs and all(d is None or home(d) for d in defs):
                rep.ok(rid, key, g.loc(line), "returns %s, which is only ever `%s & (size - 1)`" % (e["n"], oidp))
            else:
                odd = [show(d)[:40] for d in defs if d is not None and not home(d)]
                rep.fail(rid, key, g.loc(line), "%s() returns %s, which is also defined as %s — not the oid's home slot: an entry parked elsewhere is lost "
                         "(or collides) at the next re-hash, which copies entries to their home slots without a collision check" % (fname, e["n"], odd))
    if nsrc < 2:
        rep.broken_("rule=R11.6 expected >=2 uses of put_task_slot/get_task_slot results, found %d" % nsrc)
        return
    if not stored:
        rep.ok(rid, "task_ht/slot-not-kept", "src/echsd.c", "no slot index of the task table is stored beyond the call that obtained it (%d lookups)" % nsrc)
        return
    # the re-hash: the loop of put_task_slot that copies entries of task_ht into the new table
    pts = prog.fn("put_task_slot", DAEMON)
    rewrites = set()
    for b, i, x, line in pts.cfg.all_elems():
        for l, kind, nn in writes(x):
            l_ = strip_casts(l)
            if l_.get("k") == "mem":
                rewrites.add(l_["f"])
    for f, fld, text, line in stored:
        key = "%s/slot-kept(%s)" % (f.name, fld)
        if fld in rewrites:
            rep.ok(rid, key, f.loc(line), "%s keeps a slot index and the re-hash in put_task_slot() rewrites ->%s" % (text, fld))
        else:
            rep.fail(rid, key, f.loc(line), "%s keeps a slot index of task_ht, but put_task_slot() moves every entry when it grows the table and does not "
                     "update ->%s: after a re-hash the task is looked up at a stale position (cancel is acknowledged, the entry stays in the map)" % (text, fld))


def r11_6b(prog, rep, rid="R11.6"):
    """The re-hash moves every entry to its home slot in the larger table.  It is a copy from the old table into a fresh, zeroed one:
    done in place (the same storage grown by realloc), an entry that moves leaves a copy of itself behind in its old slot — lookups
    by UID still find the right one, but every listing, checkpoint and retirement that walks the table meets the task twice, and after
    a cancel the left-over points at a record the next submitter is given."""
    pts = prog.fn("put_task_slot", DAEMON)
    cfg = pts.cfg
    n = 0
    for b, i, x, line in cfg.all_elems():
        for l, kind, nn in writes(x):
            l_ = strip_casts(l)
            if not (kind == "assign" and l_.get("k") == "idx" and "tmap_s" in (l_.get("t") or "")):
                continue
            r = strip_casts(cfg.resolve(nn["r"]))
            if r.get("k") != "idx":
                continue
            n += 1
            dst, src = lv(strip_casts(l_["b"])), lv(strip_casts(r["b"]))
            key = "put_task_slot/re-hash-into-a-fresh-table"
            defs = []
            for b2, i2, x2, l2 in cfg.all_elems():
                for l3, k3, n3 in writes(x2):
                    if lv(l3) == dst:
                        rhs = n3.get("init") if k3 == "decl" else (n3.get("r") if n3.get("k") == "bin" and n3["op"] == "=" else None)
                        defs.append(strip_casts(cfg.resolve(rhs)) if rhs is not None else None)
            fresh = defs and all(isinstance(d, dict) and d.get("k") == "call" and d.get("fn") == "calloc" for d in defs)
            if dst != src and fresh:
                rep.ok(rid, key, pts.loc(nn.get("line", line)), "entries are copied from %s into %s, which comes from calloc()" % (src, dst))
            else:
                how = "the same table" if dst == src else "%s, which is %s" % (dst, "; ".join(show(d)[:40] for d in defs if d) or "not a fresh table")
                rep.fail(rid, key, pts.loc(nn.get("line", line)), "the re-hash copies entries of %s into %s: an entry that moves to a new slot stays in "
                         "its old one as well, so walks over the table (listing, checkpoint) meet the task twice and a cancelled task's "
                         "left-over points at a record that is handed to the next submitter" % (src, how))
    if n < 1:
        rep.broken_("rule=R11.6 the entry copy of the re-hash in put_task_slot() was not found")


def r11_7(prog, rep):
    """The reply names the task the request was about.  cmd_ical_rpl() prints `UID:` from the instruction's oid; for every verb that
    cmd_ical() answers, the reader of the request (echs_evical_pull) must have set that oid on every path that yields the verb.  Both
    sides are walked with their discriminant fixed to each enumerator (the request's METHOD, the instruction's verb)."""
    rid = "R11.7"
    ci = prog.fn("cmd_ical", DAEMON)
    ven = prog.enum(having="INSVERB_SCHE")
    men = prog.enum(having="METH_PUBLISH")
    if not ven or not men:
        raise AnalysisBroken("R11.7: verb / method enumerations not found")
    # verbs that are answered
    insv = None
    for b, i, x, line in ci.cfg.all_elems():
        for nn in walk(ci.cfg.resolve(x) if isinstance(x, dict) else {}):
            if nn.get("k") == "mem" and nn.get("f") == "v" and "ins" in lv(nn):
                insv = lv(nn)
    if insv is None:
        raise AnalysisBroken("R11.7: cmd_ical no longer dispatches on the instruction's verb")
    answered = {}
    for name, val in ven["enumerators"]:
        hit = []

        def eff(b, i, x, store, _h=hit, _v=val):
            upd = {}
            if not store.get("$pinned"):
                upd[insv] = _v
            for l, kind, nn in writes(x):
                if lv(l) == insv.split(".")[0]:
                    upd["$pin"] = 1
                elif lv(l) == insv:
                    upd["$pinned"] = 1      # the handler rewrites the verb into SUCC/FAIL: leave it alone from here on
            for c_ in (calls(x) if isinstance(x, dict) else []):
                # the reply to this instruction (the flush form passes a literal UNK instruction)
                if c_.get("fn") == "cmd_ical_rpl" and any(lv(strip_casts(ci.cfg.resolve(a_))) == insv.split(".")[0] for a_ in c_["a"]):
                    _h.append(1)
            return upd
        AbsWalk(ci, {insv}, init={}, effect=eff, max_states=20000, widen=8).run()
        if hit:
            answered[val] = name
    if len(answered) < 2:
        raise AnalysisBroken("R11.7: fewer than two answered verbs found (%s)" % answered)
    pull = prog.fn("echs_evical_pull", "evical.c")
    cfg = pull.cfg
    iv = methlv = None
    for b, i, x, line in cfg.all_elems():
        for nn in walk(cfg.resolve(x) if isinstance(x, dict) else {}):
            if nn.get("k") == "mem" and nn.get("f") == "meth":
                methlv = lv(nn)
        if isinstance(x, dict) and x.get("k") == "ret" and x.get("e") is not None:
            iv = lv(strip_casts(cfg.resolve(x["e"])))
    if methlv is None or iv is None:
        raise AnalysisBroken("R11.7: echs_evical_pull: method discriminant / result variable not found")
    n = 0
    for mname, mval in men["enumerators"]:
        w = AbsWalk(pull, {iv + ".v", iv, methlv}, init={methlv: mval},
                    effect=lambda b, i, x, store, _m=mval: dict({methlv: _m}, **({"$o": 1} if any(lv(l) == iv + ".o" for l, k_, n_ in writes(x)) else {})),
                    max_states=20000).run()
        for st in w.exit_stores:
            v = st.get(iv + ".v")
            if v in answered:
                n += 1
                key = "echs_evical_pull/%s->%s sets the oid" % (mname, answered[v])
                if st.get("$o"):
                    rep.ok(rid, key, pull.loc(), "METHOD %s yields %s with the instruction's oid set" % (mname, answered[v]))
                else:
                    rep.fail(rid, key, pull.loc(), "a %s request yields the verb %s, which cmd_ical() answers, but the instruction's oid is never set on that "
                             "path: the reply's `UID:` is obint_name(0) — the first string the daemon ever interned, e.g. another user's UID — instead of "
                             "the UID of the request" % (mname, answered[v]))
    if n < 3:
        rep.broken_("rule=R11.7 expected >=3 (method, answered verb) outcomes, found %d" % n)


_TIER = "quick"


def r11_8(prog, rep, rid="R11.8"):
    """A connection record carries the peer's credentials, its buffer and its parser state: the allocator must hand out a record that
    is free.  make_conn() is walked with the free-mask fixed (all free, the lower half busy, one record free at either end of each half,
    none free, ...): the record returned must be one whose bit was set, exactly that bit must be cleared, and NULL comes back only
    when no bit is set."""
    f = prog.fn("make_conn", DAEMON)
    cfg = f.cfg
    masks = [(1 << 64) - 1, 0xffffffff00000000, 1 << 63, 1 << 32, 1 << 31, 1, 0, 0x00000000fffffffe, 0x8000000000000001,
             0xfffffffe00000000, 0x0000000100000000 | (1 << 40)]
    if _TIER == "thorough":
        masks += [1 << k for k in range(64)] + [((1 << 64) - 1) ^ ((1 << k) - 1) for k in range(1, 64)] + [((1 << 64) - 1) ^ (1 << k) for k in range(64)]
    gl = None
    for b_ in cfg.blocks.values():
        for e_ in b_.elems:
            for n in walk(e_["x"]):
                if n.get("k") == "bin" and n.get("op") in ("^=", "&=", "|=", "=") and strip_casts(n["l"]).get("dk") == "global":
                    gl = lv(n["l"])
    if gl is None:
        raise AnalysisBroken("make_conn: the mask of free records is not written")

    def call_eval(c, store):
        nm = c.get("fn") or ""
        a = [eval_in(store, cfg.resolve(a_), f, call_eval) for a_ in c.get("a", [])]
        if nm in ("ffs", "__builtin_ffs", "ffsl", "__builtin_ffsl", "ffsll", "__builtin_ffsll") and a and a[0] is not None:
            w = 32 if nm.endswith("ffs") else 64
            v = a[0] & ((1 << w) - 1)
            return 0 if v == 0 else (v & -v).bit_length()
        if nm in ("__builtin_ctz", "__builtin_ctzl", "__builtin_ctzll") and a and a[0]:
            return (a[0] & -a[0]).bit_length() - 1
        return None
    bad = []
    for m in masks:
        outs = []

        def effect(b, i, x, store):
            if isinstance(x, dict) and x.get("k") == "ret" and x.get("e") is not None:
                e = strip_casts(cfg.resolve(x["e"]))
                if int_value(e) == 0:
                    outs.append((None, store.get(gl)))
                elif e.get("k") == "bin" and e["op"] == "+":
                    outs.append((eval_in(store, e["r"], f, call_eval), store.get(gl)))
                elif e.get("k") == "un" and e["op"] == "&" and strip_casts(e["e"]).get("k") == "idx":
                    outs.append((eval_in(store, strip_casts(e["e"])["i"], f, call_eval), store.get(gl)))
                else:
                    outs.append(("?", store.get(gl)))
            return None
        w = AbsWalk(f, {l_["n"] for l_ in f.locals} | {gl}, init={gl: m}, effect=effect, call_eval=call_eval, max_states=5000)
        w.run()
        if len(set(outs)) != 1 or outs[0][0] == "?" or outs[0][1] is None:
            raise AnalysisBroken("make_conn: no single outcome for the free-mask %#x (%s)" % (m, outs[:3]))
        ix, post = outs[0]
        if m == 0:
            if ix is not None or post != 0:
                bad.append("with no record free it returns record %s" % ix)
        elif ix is None:
            bad.append("with the free-mask %#018x it refuses although a record is free" % m)
        elif not (0 <= ix < 64) or not (m >> ix) & 1:
            bad.append("with the free-mask %#018x it hands out record %s, which is in use: two peers share one record, and the second "
                       "one's credentials, buffer and parser state replace the first one's" % (m, ix))
        elif post != m ^ (1 << ix):
            bad.append("with the free-mask %#018x it hands out record %d but leaves the mask at %#018x" % (m, ix, post))
    key = "make_conn/hands-out-a-free-record"
    if bad:
        rep.fail(rid, key, f.loc(), "; ".join(bad[:3]), {"cases": bad})
    else:
        rep.ok(rid, key, f.loc(), "%d free-masks: the record handed out is free and exactly its bit is cleared" % len(masks))


def r11_9(prog, rep, rid="R11.9"):
    """The table holds one record per UID hash.  A submission makes a *new* record only when the table has none under that hash; when
    there is one, it is either the submitter's (replace) or somebody else's (refuse).  The submission path is walked with the lookup
    fixed to `found`: make_task() — which hands back the existing slot for a hash that is already there — must not be reached, or the
    record of the other user is overwritten and he loses his task while the intruder is told `success`."""
    f = prog.fn("_inject_task1", DAEMON)
    cfg = f.cfg
    reached = {0: [], 1: []}
    looked = []
    for found in (0, 1):
        def call_eval(c, store, found=found):
            if c.get("fn") in LOOKUPS:
                return 777 if found else 0
            return None

        def effect(b, i, x, store, found=found):
            if isinstance(x, dict) and x.get("k") == "call":
                if x.get("fn") in FRESH:
                    reached[found].append(x.get("line"))
                if x.get("fn") in LOOKUPS:
                    looked.append(x.get("line"))
            return None
        AbsWalk(f, {l_["n"] for l_ in f.locals}, effect=effect, call_eval=call_eval, max_states=100000).run()
    if not looked or not reached[0]:
        raise AnalysisBroken("R11.9: _inject_task1 no longer looks the task up / makes a record when there is none (%s, %s)" % (looked[:1], reached))
    key = "_inject_task1/new-record-only-when-none"
    if reached[1]:
        rep.fail(rid, key, f.loc(reached[1][0]), "make_task() is reached although the table holds a task under this UID: the existing record — "
                 "another user's, on the path on which the ownership test fails — is overwritten with the submitter's task; its owner can "
                 "neither list nor cancel it any more and the submitter is told `success`")
    else:
        rep.ok(rid, key, f.loc(reached[0][0]), "with a task found under the UID no path reaches make_task()")


def r11_10(prog, rep, rid="R11.10"):
    """Everything the daemon does per user — listing, checkpoint, replace, cancel — finds a task's user through the owner slot of the task
    itself, as a number.  The submission path therefore overwrites whatever the submitted task says about its owner with the uid of
    the authenticated peer, unconditionally, before the task is bound into the record: a task that keeps a *name* there is owned by
    nobody — accepted, run, and out of everybody's reach."""
    from ..flow import must_pass
    f = prog.fn("_inject_task1", DAEMON)
    cfg = f.cfg
    tparam = f.params[-2]["n"] if len(f.params) >= 2 else None
    binds = []
    for b, i, x, line in cfg.all_elems():
        if not isinstance(x, dict):
            continue
        for l, kind, nn in writes(x):
            l_ = strip_casts(l)
            if kind == "assign" and l_.get("k") == "mem" and l_.get("f") == "t" and l_.get("arrow") and lv(strip_casts(cfg.resolve(nn["r"]))) == tparam:
                binds.append((b, i, nn.get("line", line)))
    rs = [S for S in call_sites(f, "echs_task_rset_ownr") if lv(strip_casts(cfg.resolve(S.node["a"][0]))) == tparam]
    if not binds:
        raise AnalysisBroken("R11.10: _inject_task1 no longer binds the submitted task into a record")
    # the record holds a pointer to the task: resetting the owner through the same pointer right after the binding is the same thing;
    # what counts is that no path gets from the binding to the point where the task is scheduled (or the function returns success)
    # without the reset
    starts = call_sites(f, "ev_periodic_start")
    key = "_inject_task1/owner-reset-before-the-task-is-bound"
    for b, i, line in binds:
        targets = [(S.b, S.i) for S in starts] or [(cfg.exit, 0)]
        ok = True
        for tb, ti in targets:
            before = any(S.b == tb and S.i < ti for S in rs)
            if not (before or (rs and must_pass(cfg, cfg.entry, tb, {S.b for S in rs if S.b != tb}))):
                ok = False
        if ok:
            rep.ok(rid, key, f.loc(line), "every path that schedules the submitted task has reset its owner to the authenticated uid")
        else:
            rep.fail(rid, key, f.loc(line), "a path binds and schedules the submitted task without echs_task_rset_ownr(): the owner slot keeps what "
                     "the client wrote (a login name reads as `no uid`), so the task is listed, checkpointed, replaceable and cancellable by nobody")


def _loop_heads(f):
    return set(f.cfg.natural_loops())


def elem_has_call_(x, name):
    return any(c.get("fn") == name for c in calls(x)) if isinstance(x, dict) else False


def run(prog, rep, tier, snap):
    global _TIER
    _TIER = tier
    rep.rule("R11.1", "ownership test dominates every effect on a task handle taken from the shared table; uid gate of cmd_http", 15)
    n = rep.call(r11_1, prog, rep)
    rep.call(r11_1_gate, prog, rep)
    rep.call(r11_1_dump, prog, rep)
    rep.rule("R11.2", "one reply per acted-upon instruction with the right polarity (path-sensitive walk of cmd_ical)", 4)
    rep.call(r11_2, prog, rep)
    rep.rule("R11.3", "run-as uid/gid provenance: dflt_cred only, written only from compl_uid(authenticated uid)", 4)
    rep.call(r11_3, prog, rep)
    rep.rule("R11.4", "counted traversals of the shared task table cover every slot", 4)
    rep.call(r11_4, prog, rep)
    rep.rule("R11.5", "decision table of the submission gate (asker, owner, daemon uid)", 12)
    rep.call(r11_5, prog, rep)
    rep.rule("R11.6", "slot indices of the task table are not kept across a re-hash", 1)
    rep.call(r11_6, prog, rep)
    rep.call(r11_6b, prog, rep)
    rep.rule("R11.7", "the reply names the task of the request: the oid is set for every answered verb", 3)
    rep.call(r11_7, prog, rep)
    rep.rule("R11.8", "the connection allocator hands out a record that is free (value-fixed walk over free-masks)", 1)
    rep.call(r11_8, prog, rep)
    rep.rule("R11.9", "a submission makes a new record only when the table holds none under that UID", 1)
    rep.call(r11_9, prog, rep)
    rep.rule("R11.10", "the submitted task's owner slot is reset to the authenticated uid before the task is bound into a record", 1)
    rep.call(r11_10, prog, rep)

    from . import c05
    rep.rule("R05.10", "a run-as or owner name inherited from the calendar level is the event's own copy, not freed memory (shared with C05)", 3)
    rep.call(c05.r05_10, prog, rep)
READY = True

# texts brought up to date with the rules added in the last rounds
LEVEL_TEXT = LEVEL_TEXT + " Also: the connection allocator hands out a record that is free (walk over free-masks); a submission makes a new record only when the table holds none under that UID; the re-hash fills a fresh table; the submitted task's owner slot is reset to the authenticated uid before it is bound."
TECHNIQUE = (TECHNIQUE if isinstance(TECHNIQUE, str) else TECHNIQUE) + '; value-fixed walks of the allocator and the submission path'

