"""C02 — EXDATE/EXRULE remove, RDATE adds: recurrence-set algebra."""
import re
from ..facts import walk, strip, strip_casts, lv, show, writes, calls, int_value, root_var
from ..flow import cond_atoms
from ..q import (Site, call_sites, site_before, forward_scan, backward_scan, const_eval, edge_start, elem_has_call)
from ..absw import AbsWalk
from ..order import PureEval, order_type
from ..snapshot import AnalysisBroken

UNITS = None
EXPLANATION = (
    "R02.1: the exception filter touches instants only through the pure predicates of range.h; their bodies are extracted and evaluated "
    "over integer models that realise every order type of the endpoints {occurrence start/end, exception start/end} (equal durations L=0..3, "
    "as the property's quantifier states); for each model the filter's branch cascade is walked once (path-sensitive constant propagation "
    "with the predicate values) and classified SKIP / ADVANCE / DELIVER by effect; the table is compared with the statement. "
    "R02.2 wiring: make_task feeds make_evfilt(occurrences from RRULE/RDATE, exceptions from EXRULE/EXDATE); date lists are sorted before "
    "streaming; the filter is primed from the exception stream and cloning copies the pending exception.")
NOT_DECIDED = "the multi-step two-pointer walk over arbitrarily long streams (induction over stream positions); the behaviour itself"
TRUSTED = ["clang 14 parser/CFG builder", "echse-facts extractor", "python rule engines in /verif/sa"]
LEVEL_TEXT = ("Static verdict on necessary structural clauses of C02: the complete single-step decision table of the exception filter over "
              "all order types of occurrence/exception endpoints, and the wiring and sortedness of the exception streams. It decides the "
              "single step and the wiring, not the whole stream walk.")
LEVEL_NOTE = "Trusted: clang 14 front end/CFG, extractor, rule engines; instant-level primitives (lt/eq) are modelled on integers (their bodies are checked under C20)."
TECHNIQUE = "static analysis: order-type enumeration over extracted comparison predicates + path-sensitive walk of the filter cascade; def-use wiring checks"

STREAM_T = "echs_evstrm_t"
RANGE_T = "echs_range_t"


def _filter_roles(prog):
    """(record, occurrence-stream field, exception-stream field, pending-range field) of the filter class."""
    rec = prog.record("evfilt_s")
    strms = [f["n"] for f in rec["fields"] if f["t"] == STREAM_T]
    rngs = [f["n"] for f in rec["fields"] if f["t"] == RANGE_T and "extent" not in f]
    if len(strms) != 2 or len(rngs) != 1:
        raise AnalysisBroken("evfilt_s no longer has two streams and one pending range: %s %s" % (strms, rngs))
    mk = prog.fn("make_evfilt", "evfilt.c")
    # the stream whose pop primes the pending range is the exception stream
    exc = None
    params = [p["n"] for p in mk.params]
    for b, i, x, line in mk.cfg.all_elems():
        for c in calls(x):
            if c.get("fn") == "echs_evstrm_pop":
                exc_param = lv(c["a"][0])
    fieldof = {}
    for b, i, x, line in mk.cfg.all_elems():
        for l, kind, n in writes(x):
            t = lv(l)
            if "->" in t and n.get("k") == "bin" and lv(n["r"]) in params:
                fieldof[lv(n["r"])] = t.split("->")[1]
    if exc_param not in fieldof:
        raise AnalysisBroken("make_evfilt: cannot tell which field holds the exception stream")
    xf = fieldof[exc_param]
    ef = [s for s in strms if s != xf][0]
    return rec, ef, xf, rngs[0], mk, exc_param


def r02_1(prog, rep, tier):
    rid = "R02.1"
    rec, ef, xf, pf, mk, exc_param = _filter_roles(prog)
    f = prog.fn("next_evfilt", "evfilt.c")
    cfg = f.cfg
    this = None
    for l in f.locals:
        if "evfilt_s" in (l.get("t") or ""):
            this = l["n"]
    popp = f.params[1]["n"]
    # candidate event variable and its range variable
    cand = rng = None
    for b, i, x, line in cfg.all_elems():
        for l, kind, n in writes(x):
            rhs = n.get("init") if kind == "decl" else (n.get("r") if n.get("k") == "bin" else None)
            if rhs is None:
                continue
            r = strip_casts(cfg.resolve(rhs))
            if r.get("k") == "call" and r.get("fn") == "echs_evstrm_next" and lv(r["a"][0]) == "%s->%s" % (this, ef):
                cand = lv(l)
            if r.get("k") == "call" and r.get("fn") == "echs_event_range":
                rng = (lv(l), lv(r["a"][0]))
    if cand is None or rng is None or rng[1] != cand:
        raise AnalysisBroken("next_evfilt: candidate event / range variables not found (%s, %s)" % (cand, rng))
    # start of one step: the first block that tests the pending exception
    start = None
    for blk in cfg.blocks.values():
        if blk.label and blk.label["k"] == "label":
            for e in blk.elems:
                if elem_has_call(e["x"], "echs_nul_range_p"):
                    start = blk.id
    if start is None:
        # fall back: block containing the nul-range test
        for b, i, x, line in cfg.all_elems():
            if elem_has_call(x, "echs_nul_range_p"):
                start = b
                break
    if start is None:
        raise AnalysisBroken("next_evfilt: no test of the pending exception found")
    pe = PureEval(prog)
    pending = "%s->%s" % (this, pf)
    Lmax = 2 if tier == "quick" else 3
    span = 7 if tier == "quick" else 9
    table = {}
    samples = {}
    models = 0
    for L in range(0, Lmax + 1):
        for F in range(1, span):
            for X in range(1, span):
                models += 1
                ev = {"from": F, "dur": L, "oid": 1}
                objs = {cand: ev, rng[0]: pe.call("echs_event_range", [ev]), pending: {"beg": X, "end": X + L}}

                def obj(expr):
                    expr = strip_casts(cfg.resolve(expr))
                    t = lv(expr)
                    if t in objs:
                        return objs[t]
                    if expr.get("k") == "mem":
                        base = obj(expr["b"])
                        return base[expr["f"]]
                    if expr.get("k") == "call" and expr.get("fn"):
                        return pe.call(expr["fn"], [obj(a) for a in expr["a"]])
                    raise AnalysisBroken("next_evfilt: cannot model operand %s" % show(expr))

                acts = []

                def call_eval(c, store):
                    fn = c.get("fn")
                    if fn and (fn.endswith("_p")):
                        if store.get("$fresh") and any(q.get("k") == "ref" and q.get("n") in (cand, rng[0]) for a in c["a"] for q in walk(cfg.resolve(a))):
                            return None     # a candidate peeked anew is any event: what is known about the old one says nothing
                        return int(bool(pe.call(fn, [obj(a) for a in c["a"]])))
                    return None

                def effect(b, i, x, store):
                    for c in calls(x):
                        if c.get("fn") == "echs_evstrm_pop":
                            tgt = lv(c["a"][0])
                            if tgt == "%s->%s" % (this, ef):
                                acts.append("SKIP")
                            elif tgt == "%s->%s" % (this, xf):
                                acts.append("ADVANCE")
                    # reaching the test of the pop flag (however it is spelt) means the candidate is delivered
                    if isinstance(x, dict) and x.get("k") != "call" and any(n.get("k") == "ref" and n.get("n") == popp for n in walk(x)) \
                            and not any(True for _ in calls(x)):
                        acts.append("DELIVER")
                        if store.get("$fresh"):
                            acts.append("UNCHECKED")
                    if isinstance(x, dict) and any(lv(l_) == cand for l_, k_, n_ in writes(x)):
                        return {"$fresh": 1}
                    return None
                w = AbsWalk(f, set(), effect=effect, call_eval=call_eval)
                # the popp test forks; the walk stops when control returns to the step start or leaves the function
                w.run(start_block=start, stop_at={start})
                acts_set = tuple(sorted(set(a for a in acts if not (a == "SKIP" and "DELIVER" in acts))))
                # DELIVER path pops this->e under popp: that is the delivery, not a skip
                if "DELIVER" in acts:
                    acts_set = ("DELIVER",)
                if "UNCHECKED" in acts:
                    acts_set = ("SKIP", "DELIVER-NEXT-UNCHECKED")
                if w.forks > 1 and "DELIVER" not in acts:
                    raise AnalysisBroken("next_evfilt: cascade branches on something the model does not decide (F=%d X=%d L=%d)" % (F, X, L))
                ot = (L > 0, order_type((F, F + L, X, X + L)))
                if ot in table and table[ot] != acts_set:
                    raise AnalysisBroken("next_evfilt: decision not a function of the order type: %s %s vs %s" % (ot, table[ot], acts_set))
                table[ot] = acts_set
                samples[ot] = (F, L, X)
    if len(table) < 8:
        raise AnalysisBroken("R02.1: only %d order types enumerated" % len(table))
    rep.extra["R02.1_order_types"] = len(table)
    rep.extra["R02.1_models"] = models
    rows = []
    for ot, act in sorted(table.items()):
        F, L, X = samples[ot]
        if X == F:
            want = ("SKIP",)
            cls = "e.from = ex.beg"
        elif X < F:
            want = ("ADVANCE",)
            cls = "ex.beg < e.from"
        else:
            want = ("DELIVER",)
            cls = "ex.beg > e.from"
        dur = "L=0" if L == 0 else "L>0"
        rel = "|d|<L" if 0 < abs(X - F) < L else ("|d|=L" if abs(X - F) == L and L > 0 else ("|d|>L" if abs(X - F) > L else "d=0"))
        key = "next_evfilt/%s/%s/%s" % (dur, cls, rel)
        rows.append({"order_type": str(ot), "model": {"e.from": F, "L": L, "ex.beg": X}, "code": act, "statement": want})
        loc = f.loc()
        if act == want:
            rep.ok(rid, key, loc, "model e.from=%d ex.beg=%d L=%d: code %s = statement %s" % (F, X, L, act[0], want[0]))
        else:
            what = {
                ("SKIP",): "the occurrence is dropped",
                ("ADVANCE",): "the exception is consumed",
                ("DELIVER",): "the occurrence is delivered",
                ("SKIP", "DELIVER-NEXT-UNCHECKED"): "the occurrence is dropped and the one behind it is delivered without being compared with the "
                                                    "exceptions (a run of excluded occurrences lets every second one through)",
            }.get(act, "the filter does %s" % (act,))
            rep.fail(rid, key, loc,
                     "single step of the exception filter with %s, %s, %s (e.g. e.from=%d, ex.beg=%d, both durations %d): %s, but the statement requires %s" % (
                         dur, cls, rel, F, X, L, what, {"SKIP": "dropping it (its start equals the exception)",
                                                          "ADVANCE": "moving on to the next exception first",
                                                          "DELIVER": "delivering it without consuming the exception"}[want[0]]),
                     {"order_type": str(ot), "model": {"e.from": F, "L": L, "ex.beg": X}, "code": act, "statement": want})
    rep.extra["R02.1_table"] = rows
    # no-more-exceptions: nul pending range delivers
    acts = []

    def call_eval0(c, store):
        if c.get("fn") == "echs_nul_range_p":
            return 1
        return None

    def effect0(b, i, x, store):
        for c in calls(x):
            if c.get("fn") == "echs_evstrm_pop" and lv(c["a"][0]) != "%s->%s" % (this, ef):
                acts.append("ADVANCE")
            if c.get("fn") in ("echs_range_overlaps_p", "echs_range_precedes_p"):
                acts.append("COMPARE")
        if isinstance(x, dict) and x.get("k") != "call" and any(n.get("k") == "ref" and n.get("n") == popp for n in walk(x)) \
                and not any(True for _ in calls(x)):
            acts.append("DELIVER")
    AbsWalk(f, set(), effect=effect0, call_eval=call_eval0).run(start_block=start, stop_at={start})
    if set(acts) == {"DELIVER"}:
        rep.ok(rid, "next_evfilt/no-more-exceptions", f.loc(), "a nul pending exception delivers without touching the exception stream")
    else:
        rep.fail(rid, "next_evfilt/no-more-exceptions", f.loc(), "with no pending exception the filter does %s" % sorted(set(acts)))


def r02_2(prog, rep):
    rid = "R02.2"
    rec, ef, xf, pf, mk, exc_param = _filter_roles(prog)
    mt = prog.fn("make_task", "evical.c")
    cfg = mt.cfg
    S = call_sites(mt, "make_evfilt")
    if len(S) != 1:
        rep.fail(rid, "make_task/make_evfilt", mt.loc(), "expected one make_evfilt call, found %d" % len(S))
        return
    S = S[0]
    occ_arg, exc_arg = (lv(S.node["a"][0]), lv(S.node["a"][1]))
    if [p["n"] for p in mk.params].index(exc_param) != 1:
        occ_arg, exc_arg = exc_arg, occ_arg

    def sources(var, seen=None):
        """ve-> fields that flow into stream variable var (through local stream variables and stream constructors)."""
        seen = seen or set()
        out = set()
        if var in seen:
            return out
        seen.add(var)
        for b, i, x, line in cfg.all_elems():
            for l, kind, n in writes(x):
                if lv(l) != var:
                    continue
                rhs = n.get("init") if kind == "decl" else (n.get("r") if n.get("k") == "bin" else None)
                if rhs is None:
                    continue
                r = cfg.resolve(rhs)
                for nn in walk(r):
                    if nn.get("k") == "mem" and lv(nn).startswith("ve->") and nn["f"] in ("r", "dt", "nr", "ndt"):
                        out.add(lv(nn).split(".")[0])
                    if nn.get("k") == "ref" and nn.get("dk") == "local" and nn["n"] != var and "evstrm" in (nn.get("t") or ""):
                        out |= sources(nn["n"], seen)
        return out
    so, sx = sources(occ_arg), sources(exc_arg)
    if so == {"ve->rrul", "ve->rdat"}:
        rep.ok(rid, "make_task/occurrence-stream", mt.loc(S.line), "%s is built from RRULE and RDATE only" % occ_arg)
    else:
        rep.fail(rid, "make_task/occurrence-stream", mt.loc(S.line), "the occurrence stream %s is built from %s (expected ve->rrul, ve->rdat)" % (occ_arg, sorted(so)))
    if sx == {"ve->xrul", "ve->xdat"}:
        rep.ok(rid, "make_task/exception-stream", mt.loc(S.line), "%s is built from EXRULE and EXDATE only" % exc_arg)
    else:
        rep.fail(rid, "make_task/exception-stream", mt.loc(S.line), "the exception stream %s is built from %s (expected ve->xrul, ve->xdat)" % (exc_arg, sorted(sx)))
    # the parser stores EXDATE into xdat and RDATE into rdat, EXRULE into xrul and RRULE into rrul
    sf = prog.fn("snarf_fld", "evical.c")
    want = {"FLD_XDATE": "xdat", "FLD_RDATE": "rdat", "FLD_XRULE": "xrul", "FLD_RRULE": "rrul"}
    from ..absw import AbsWalk as _AW
    for en, tgt in want.items():
        try:
            val = prog.enumerator(en)
        except AnalysisBroken:
            rep.fail(rid, "snarf_fld/%s" % en, sf.loc(), "enumerator %s vanished" % en)
            continue
        hits = set()

        def effect(b, i, x, store, _hits=hits):
            for c in calls(x):
                for a in c["a"]:
                    t = lv(strip_casts(sf.cfg.resolve(a)))
                    for cand in ("xdat", "rdat", "xrul", "rrul"):
                        if t.endswith("ve->" + cand) or t.endswith("&ve->" + cand):
                            _hits.add(cand)
            for l, kind, n in writes(x):
                for cand in ("xdat", "rdat", "xrul", "rrul"):
                    if lv(l) == "ve->" + cand:
                        _hits.add(cand)
            return None
        fld = sf.params[1]["n"]
        w = _AW(sf, {fld}, init={fld: val}, effect=effect)
        w.run()
        if hits == {tgt}:
            rep.ok(rid, "snarf_fld/%s->%s" % (en, tgt), sf.loc(), "%s values are added to ve->%s" % (en, tgt))
        else:
            rep.fail(rid, "snarf_fld/%s->%s" % (en, tgt), sf.loc(), "%s values are added to %s (expected ve->%s)" % (en, sorted(hits), tgt))
    # date lists are sorted before streaming
    rd = prog.fn("__make_evrdat", "evical.c")
    rcfg = rd.cfg
    sorts = call_sites(rd, "echs_instant_sort")
    nd = rd.params[2]["n"]
    if not sorts:
        rep.fail(rid, "__make_evrdat/sorted", rd.loc(), "date lists are no longer sorted before streaming (the filter and mux rely on sorted streams)")
    else:
        so_ = sorts[0]
        # every store into res->ev[i] with a non-constant index must be preceded by the sort
        bad = []
        for b, i, x, line in rcfg.all_elems():
            for l, kind, n in writes(x):
                l_ = strip_casts(l)
                if l_.get("k") == "idx" and lv(l_["b"]).endswith("->ev") and int_value(l_["i"]) is None:
                    if not site_before(rcfg, so_, Site(b, i, None, line)):
                        bad.append(line)
        # and the single-element shortcut is guarded by nd == 1
        if bad:
            rep.fail(rid, "__make_evrdat/sorted", rd.loc(bad[0]), "events are spread from the date list before it is sorted")
        else:
            rep.ok(rid, "__make_evrdat/sorted", rd.loc(so_.line), "echs_instant_sort precedes the spreading loop; the unsorted path handles exactly one date")
        # nothing that can reorder instants (zone shifts, pasting the proto time) may run after the sort
        REORDER = ("instant_soup", "echs_tzob_shift", "echs_instant_utc", "echs_instant_loc", "echs_instant_to_utc", "echs_instant_add", "echs_instant_fixup")
        late, _ = forward_scan(rcfg, (so_.b, so_.i), lambda b_, i_, x_: "hit" if elem_has_call(x_, REORDER) else None)
        if late:
            b_, i_ = late[0]
            rep.fail(rid, "__make_evrdat/no-reordering-after-sort", rd.loc(rcfg.blocks[b_].elems[i_].get("line")),
                     "the date list is sorted and only then normalised (%s): a DATE value and a DATE-TIME of the same day can change order, the filter/mux rely on a sorted stream" % (
                         show(rcfg.resolve(rcfg.elem(b_, i_)))[:70]))
        else:
            rep.ok(rid, "__make_evrdat/no-reordering-after-sort", rd.loc(so_.line), "all zone/time normalisation precedes the sort; only the (monotone) rescale follows it")
        # sort operates on the copied array with the full count
        a0, a1 = lv(rcfg.resolve(so_.node["a"][0])), lv(rcfg.resolve(so_.node["a"][1]))
        if a1 == nd:
            rep.ok(rid, "__make_evrdat/sort-count", rd.loc(so_.line), "sorts all %s dates" % nd)
        else:
            rep.fail(rid, "__make_evrdat/sort-count", rd.loc(so_.line), "sorts %s elements, not %s" % (a1, nd))
    # filter construction primes the pending exception from the exception stream; clone copies it
    pr = [c for b, i, c, line in mk.all_calls() if c.get("fn") == "echs_evstrm_pop"]
    ok = False
    for b, i, x, line in mk.cfg.all_elems():
        for l, kind, n in writes(x):
            if lv(l).endswith("->" + pf) and n.get("k") == "bin":
                r = strip_casts(mk.cfg.resolve(n["r"]))
                if r.get("k") == "call" and r.get("fn") == "echs_event_range":
                    ok = True
    if ok and pr and lv(pr[0]["a"][0]) == exc_param:
        rep.ok(rid, "make_evfilt/primes-pending", mk.loc(), "pending exception = range of the first event popped from the exception stream")
    else:
        rep.fail(rid, "make_evfilt/primes-pending", mk.loc(), "make_evfilt does not prime the pending exception from the exception stream")
    # ... and the step function advances it to exactly the exception it has just popped: every definition that reaches a store to
    # the pending exception is echs_event_range(<popped event>) (a second, conditional source — "treat a repeated instant as the end
    # of the exceptions" — silently drops every later EXDATE)
    nf = prog.fn("next_evfilt", "evfilt.c")
    ncfg = nf.cfg

    def sources(name, depth=0):
        out = set()
        for b_, i_, x_, ln_ in ncfg.all_elems():
            for l_, kind_, n_ in writes(x_):
                if lv(l_) != name:
                    continue
                rhs = n_.get("init") if kind_ == "decl" else (n_.get("r") if n_.get("k") == "bin" and n_["op"] == "=" else None)
                if rhs is None:
                    continue
                r_ = strip_casts(ncfg.resolve(rhs))
                if r_.get("k") == "ref" and r_.get("dk") == "local" and depth < 4:
                    out |= sources(r_["n"], depth + 1)
                elif r_.get("k") == "call":
                    a0 = strip_casts(ncfg.resolve(r_["a"][0])) if r_.get("a") else {}
                    inner = a0.get("fn") if a0.get("k") == "call" else (",".join(sorted(sources(a0["n"], depth + 1))) if a0.get("k") == "ref" and a0.get("dk") == "local" else show(a0))
                    out.add("%s(%s)" % (r_.get("fn"), inner))
                else:
                    out.add(show(r_)[:40])
        return out
    stores = 0
    for b_, i_, x_, ln_ in ncfg.all_elems():
        for l_, kind_, n_ in writes(x_):
            if lv(l_).endswith("->" + pf) and n_.get("k") == "bin" and n_["op"] == "=":
                stores += 1
                r_ = strip_casts(ncfg.resolve(n_["r"]))
                src = sources(r_["n"]) if r_.get("k") == "ref" and r_.get("dk") == "local" else sources("\0") | (
                    {"%s(%s)" % (r_.get("fn"), ",".join(sorted(sources(strip_casts(ncfg.resolve(r_["a"][0]))["n"]))) if strip_casts(ncfg.resolve(r_["a"][0])).get("k") == "ref" else (strip_casts(ncfg.resolve(r_["a"][0])).get("fn") or "?"))}
                    if r_.get("k") == "call" and r_.get("a") else {show(r_)[:40]})
                key = "next_evfilt/advances-to-popped-exception#%d" % stores
                if src and all(s_.startswith("echs_event_range(") and "echs_evstrm_pop" in s_ for s_ in src):
                    rep.ok(rid, key, nf.loc(n_.get("line", ln_)), "the pending exception becomes the range of the exception just popped")
                else:
                    rep.fail(rid, key, nf.loc(n_.get("line", ln_)), "the pending exception is also set from %s, not only from the exception just popped: later "
                             "EXDATE/EXRULE instances are dropped" % sorted(src))
    if not stores:
        raise AnalysisBroken("next_evfilt never stores the pending exception")
    cl = prog.fn("clone_evfilt", "evfilt.c")
    copied = set()
    for b, i, x, line in cl.cfg.all_elems():
        for l, kind, n in writes(x):
            t = lv(l)
            if "->" in t:
                copied.add(t.split("->")[1])
    need = {ef, xf, pf, "class"}
    if need <= copied:
        rep.ok(rid, "clone_evfilt/copies-state", cl.loc(), "clone copies class, both streams and the pending exception")
    else:
        rep.fail(rid, "clone_evfilt/copies-state", cl.loc(), "clone does not copy %s" % sorted(need - copied))


def r02_3(prog, rep):
    """Outside the step function, exceptions are consumed only for priming, or under a *strict* "this exception starts before the
    occurrence" test: an exception that starts exactly with an occurrence names it (RFC 5545 3.8.5.1) and must stay pending."""
    rid = "R02.3"
    rec, ef, xf, pf, mk, exc_param = _filter_roles(prog)
    n = 0
    for f in prog.fns_in("evfilt.c"):
        if not f.cfg or f.name == "next_evfilt":
            continue
        cfg = f.cfg
        loops = cfg.natural_loops()
        for S in call_sites(f, "echs_evstrm_pop"):
            t = lv(cfg.resolve(S.node["a"][0]))
            if not (t == exc_param or t.endswith("->" + xf)):
                continue
            n += 1
            key = "%s/pop-exception#%d" % (f.name, n)
            inloop = [h for h, blks in loops.items() if S.b in blks]
            if not inloop:
                rep.ok(rid, key, f.loc(S.line), "one unconditional pop primes the pending exception")
                continue
            # the loop repeats the pop: the condition that sends control back must order exception and occurrence strictly:
            # on the edge that stays in the loop, `lt_p(exception, occurrence)` must hold
            popped = set()
            for bb, ii, xx, ln in cfg.all_elems():
                for l, kind, nn in writes(cfg.resolve(xx)):
                    rhs = nn.get("init") if kind == "decl" else (nn.get("r") if nn.get("k") == "bin" and nn["op"] == "=" else None)
                    if rhs is not None and any(c_.get("fn") == "echs_evstrm_pop" and lv(c_["a"][0]) == t for c_ in calls(rhs)):
                        popped.add(lv(l))
            strict, weak = [], []
            for h in inloop:
                for b in loops[h]:
                    c = cfg.cond(b)
                    if c is None:
                        continue
                    for si, sb in enumerate(cfg.blocks[b].succs):
                        if sb is None or sb not in loops[h]:
                            continue
                        # edge b -> sb stays in the loop
                        for atom in cond_atoms(c, si == 0):
                            if len(atom) != 3:
                                continue
                            e_ = strip(atom[2])
                            if not (isinstance(e_, dict) and e_.get("k") == "call"):
                                continue
                            fn_ = e_.get("fn") or ""
                            if not any(fn_.endswith(sfx) for sfx in ("_lt_p", "_le_p", "_eq_p")) and "precedes" not in fn_ and "overlaps" not in fn_:
                                continue
                            a0 = lv(strip_casts(e_["a"][0])).split(".")[0]
                            if fn_.endswith("_lt_p") and atom[0] == "true" and a0 in popped:
                                strict.append(fn_)
                            else:
                                weak.append("%s%s(%s)" % ("" if atom[0] == "true" else "!", fn_, ", ".join(lv(strip_casts(x_)) for x_ in e_["a"])))
            if strict and not weak:
                rep.ok(rid, key, f.loc(S.line), "exceptions are skipped in a loop only while %s holds (strictly earlier)" % strict[0])
            else:
                rep.fail(rid, key, f.loc(S.line),
                         "%s() consumes exceptions in a loop controlled by %s: an exception that starts exactly when an occurrence starts is "
                         "consumed too, so the occurrence it names is delivered" % (f.name, ", ".join(weak) or "no ordering test"))
    if n < 1:
        rep.broken_("rule=R02.3 no pop of the exception stream found outside next_evfilt")


def r02_4(prog, rep):
    """RDATE and EXDATE may occur several times in one event (RFC 5545 3.8.5.1/3.8.5.2; many exporters write one EXDATE line per
    exception).  In the parser the list field of such a property is overwritten only while it is still empty; otherwise the new values are
    appended.  A plain overwrite keeps only the last line: the exceptions of the earlier lines are not excluded."""
    rid = "R02.4"
    from ..flow import MustFacts
    f = prog.fn("snarf_fld", "evical.c")
    cfg = f.cfg
    mf = MustFacts(cfg)
    n = 0
    for b, i, x, line in cfg.all_elems():
        for l, kind, nn in writes(x):
            if kind != "assign" or nn.get("k") != "bin" or nn["op"] != "=":
                continue
            t = lv(l).replace("*&", "")
            m = re.match(r"^(\w+)->(rdat|xdat)$", t)
            if not m:
                continue
            n += 1
            key = "snarf_fld/%s-accumulates" % m.group(2)
            facts = mf.at(b, i) or set()
            empty = any(fx[0] in ("eq", "false") and m.group(2) in fx[1] and (fx[1].endswith("dt") or fx[1].endswith("ndt")) and (len(fx) == 2 or fx[2] == "0")
                        for fx in facts)
            if empty:
                rep.ok(rid, key, f.loc(nn.get("line", line)), "%s is overwritten only while it is empty; further lines are appended" % t)
            else:
                rep.fail(rid, key, f.loc(nn.get("line", line)),
                         "a repeated %s line replaces the list parsed from the earlier lines (%s is assigned without an emptiness test and without "
                         "appending): only the last line's dates take effect" % ("EXDATE" if m.group(2) == "xdat" else "RDATE", t))
    if n < 2:
        rep.broken_("rule=R02.4 expected the stores of both date lists in snarf_fld, found %d" % n)


def r02_5(prog, rep, rid="R02.5"):
    """The reader of one date (DTSTART, DTEND, UNTIL...) and the reader of a date list (RDATE, EXDATE) go through the parameters in
    front of the value the same way: a parameter ends at the next `;` or `:`.  Both search from their parameter cursor; the sets of
    bytes they search for must be the same and hold both delimiters — an exception given as `EXDATE;VALUE=DATE-TIME;TZID=...:` has
    to find the zone DTSTART found, or it names another instant and excludes nothing."""
    sets = {}
    for name in ("snarf_dt", "snarf_dtlst"):
        f = prog.fn(name, "evical.c")
        cur = f.params[0]["n"]
        found = []
        for b, i, c, line in f.all_calls():
            if c.get("fn") in ("strchr", "strpbrk", "memchr", "strcspn") and c.get("a") and cur in (lv(strip_casts(f.cfg.resolve(c["a"][0]))), root_var(strip_casts(f.cfg.resolve(c["a"][0])))):
                a1 = strip_casts(f.cfg.resolve(c["a"][1]))
                if c["fn"] in ("strchr", "memchr"):
                    v = int_value(a1)
                    found.append((line, c["fn"], None if v is None else frozenset(chr(v))))
                else:
                    txt = a1.get("v") if a1.get("k") == "str" else None
                    found.append((line, c["fn"], None if txt is None else frozenset(txt)))
        sets[name] = (f, found)
    for name, (f, found) in sets.items():
        key = "%s/parameter-end" % name
        if not found:
            rep.fail(rid, key, f.loc(), "%s does not search for the end of a parameter from its parameter cursor" % name)
            continue
        good = [x for x in found if x[2] == frozenset(":;")]
        bad = [x for x in found if x[2] is not None and x[2] & frozenset(":;") and x[2] != frozenset(":;")] or ([] if good else found)
        if not good:
            rep.fail(rid, key, f.loc(bad[0][0]), "%s ends a parameter with %s(%s): a parameter ends at `;` or `:`, whichever comes first — with more than one "
                     "parameter the TZID is cut short or swallows its neighbour, and the sibling reader (%s) finds another zone for the same text" % (
                         name, bad[0][1], "?" if bad[0][2] is None else "".join(sorted(bad[0][2])), [n_ for n_ in sets if n_ != name][0]))
        else:
            rep.ok(rid, key, f.loc(good[0][0]), "a parameter ends at the next `;` or `:` (%s)" % ", ".join(sorted({x[1] for x in good})))


def run(prog, rep, tier, snap):
    rep.rule("R02.1", "single-step decision table of next_evfilt over all order types of occurrence/exception endpoints", 8)
    rep.call(r02_1, prog, rep, tier)
    rep.rule("R02.2", "wiring of RRULE/RDATE vs EXRULE/EXDATE into the filter; sortedness; priming and cloning of the pending exception", 8)
    rep.call(r02_2, prog, rep)
    rep.rule("R02.4", "repeated RDATE/EXDATE lines accumulate", 2)
    rep.call(r02_4, prog, rep)
    rep.rule("R02.5", "the date reader and the date-list reader end a parameter at the same delimiters (`;` and `:`)", 2)
    rep.call(r02_5, prog, rep)
    rep.rule("R02.3", "exceptions are consumed outside the step function only for priming or strictly before the occurrence", 1)
    rep.call(r02_3, prog, rep)
    from . import c03
    rep.rule("R03.2", "merge step of the mux that joins RRULE and RDATE (resp. EXRULE and EXDATE) streams (shared with C03)", 9)
    rep.call(c03.r03_2, prog, rep)
    rep.rule("R03.5", "NULL-terminated stream lists: every argument in front of the terminator is non-NULL (shared with C03)", 4)
    rep.call(c03.r03_5, prog, rep)
READY = True

# texts brought up to date with the rules added in the last rounds
LEVEL_TEXT = LEVEL_TEXT + ' The decision table treats a candidate that is peeked anew as any event: delivering it without comparing it with the pending exception is a row of its own.'

LEVEL_TEXT = LEVEL_TEXT + " The reader of one date and the reader of a date list end a parameter at the same delimiters (`;` and `:`)."
