"""C08 — instant arithmetic and epoch conversions agree with the calendar (structural clauses)."""
import datetime
import re

from ..facts import walk, strip, strip_casts, lv, show, writes, calls, int_value, table_py, root_var
from ..q import call_sites, const_eval
from ..flow import cond_atoms
from ..snapshot import AnalysisBroken

UNITS = None
EXPLANATION = (
    "R08.1 width of millisecond arithmetic: every expression that initialises or is assigned to echs_idiff_t.d (int64 ms), and every local "
    "that flows into such an expression, must not contain a 32-bit computation with a multiplication by a constant >= 1000 that is widened "
    "only afterwards. R08.2: the three month-length tables, the January- and March-based cumulative tables, the *_PER_* macros duplicated in "
    "two units, the leap predicates and the two epoch constants are checked against each other and against values derived from the Gregorian "
    "month lengths by the checker. R08.3: the all-day / all-second sentinels equal the all-ones value of their bit-fields, the bit-fields sum "
    "to 64. R08.4 sibling rule: a function that looks days up in a March-based cumulative table must carry the year for months < 3 "
    "(contradiction between table and year arithmetic otherwise). R08.5 sibling pattern over all month-wrap sites of the calendar code: "
    "wherever a month counter wraps (reset to 1/12, +/-= 12, %= 12) the same block adjusts the year.")
NOT_DECIDED = ("echs_instant_fixup(); the arithmetic and the conversions as functions of ALL their inputs (decided for finite, chosen sets of arguments by value-fixed walks: R08.9-R08.13); the behaviour itself")
TRUSTED = ["clang 14 parser/CFG builder", "echse-facts extractor", "python rule engines in /verif/sa", "python datetime (oracle for day counts)"]
LEVEL_TEXT = ("Static verdict on necessary structural clauses of C08: 64-bit evaluation of millisecond quantities, mutual agreement of all "
              "calendar tables/macros/epoch constants with the Gregorian month lengths, sentinel/bit-field agreement, and the year carry that "
              "a March-based table requires. It does not decide the arithmetic algorithms as functions of their inputs. Also: year and month of one assembled date come from one state of a stepped index; the conversions carry no state between calls (memo keys must cover every argument).")
LEVEL_NOTE = "Trusted: clang 14 front end/CFG, extractor, rule engines; only the little-endian layout of echs_instant_u is compiled and therefore examined."
TECHNIQUE = "static analysis: typed-width inspection of expression trees with def-use closure, constant-table agreement against derived calendar values, sibling contradiction rule; carried-state / memo-key analysis of function-local statics"

ML = [0, 31, 28, 31, 30, 31, 30, 31, 31, 30, 31, 30, 31]
_TIER = "quick"     # set by run(); the value-fixed walks take larger argument sets in the thorough tier

# sites where the 32-bit operand has a proven small range
WIDTH_EXCEPTIONS = {
    "echs_tzob_shift/.d": "operands are UTC offsets in seconds from the zone database (|offset| <= 86400): |(off_to - off_from) * 1000| < 2^31",
}


def _has_big_mult(x, fn):
    for n in walk(x):
        if n.get("k") == "bin" and n["op"] in ("*", "*="):
            for side in (n["l"], n["r"]):
                v = const_eval(None, side)
                if v is not None and abs(v) >= 1000:
                    return n
    return None


def _narrow_computations(x, fn):
    """Yield 32-bit arithmetic nodes in x that (a) are not constants, (b) involve a multiplication by a constant >= 1000."""
    for n in walk(x):
        if n.get("k") == "bin" and n["op"] in ("*", "+", "-") and n.get("w") == 32:
            if const_eval(None, n) is not None:
                continue
            m = _has_big_mult(n, fn)
            if m is not None and m.get("w") == 32 and const_eval(None, m) is None:
                yield n


def r08_1(prog, rep):
    rid = "R08.1"
    n = 0
    for f in prog.all_fns():
        if not f.cfg or f.file.endswith(".h") and f.name not in ("echs_idiff_neg",):
            continue
        cfg = f.cfg
        sinks = []   # (expr, line, what)
        carriers = {}
        for b, i, x, line in cfg.all_elems():
            xr = cfg.resolve(x)
            for nn in walk(xr):
                # (echs_idiff_t){expr}
                if nn.get("k") == "init" and "echs_idiff" in (nn.get("t") or ""):
                    for name, val in nn["fs"]:
                        if val is not None:
                            sinks.append((val, nn.get("line", line), "(echs_idiff_t){...}"))
            for l, kind, nn in writes(xr):
                l_ = strip_casts(l)
                if l_.get("k") == "mem" and l_["f"] == "d" and "idiff" in (l_.get("rec") or "") and nn.get("k") == "bin":
                    sinks.append((nn["r"], nn.get("line", line), lv(l_) + " " + nn["op"]))
        if not sinks:
            continue
        # locals flowing into the sinks (two levels)
        frontier = set()
        for e, ln, what in sinks:
            for r in walk(e):
                if r.get("k") == "ref" and r.get("dk") == "local":
                    frontier.add(r["n"])
        seenv = set()
        for _ in range(3):
            nxt = set()
            for v in frontier - seenv:
                seenv.add(v)
                for b, i, x, line in cfg.all_elems():
                    for l, kind, nn in writes(cfg.resolve(x)):
                        if lv(l) != v:
                            continue
                        rhs = nn.get("init") if kind == "decl" else (nn.get("r") if nn.get("k") == "bin" else None)
                        if rhs is None:
                            continue
                        carriers.setdefault(v, []).append((rhs, nn, nn.get("line", line)))
                        for r in walk(rhs):
                            if r.get("k") == "ref" and r.get("dk") == "local":
                                nxt.add(r["n"])
            frontier = nxt
        reported = set()
        for e, ln, what in sinks:
            n += 1
            key = "%s/.d" % f.name
            bad = list(_narrow_computations(e, f))
            if bad and key in WIDTH_EXCEPTIONS and key not in reported:
                reported.add(key)
                rep.note(rid, key, f.loc(ln), "listed exception: " + WIDTH_EXCEPTIONS[key])
            elif bad and key not in reported:
                reported.add(key)
                rep.fail(rid, key, f.loc(ln),
                         "milliseconds assigned to echs_idiff_t.d are computed as `%s` in a 32-bit type and widened afterwards: values beyond "
                         "2^32 ms (49.7 days) wrap" % show(bad[0])[:90])
            elif not bad and key not in reported:
                reported.add(key)
                rep.ok(rid, key, f.loc(ln), "no 32-bit millisecond product feeds %s" % what)
        # carriers: a local that receives a big product must be 64-bit wide and the product computed in 64 bits
        for v, defs in sorted(carriers.items()):
            loc = [l for l in f.locals if l["n"] == v]
            w = loc[0].get("w") if loc else None
            prods = []
            for rhs, nn, ln in defs:
                m = _has_big_mult(rhs, f)
                if m is not None and const_eval(None, rhs) is None:
                    prods.append((m, nn, ln))
            if not prods:
                continue
            n += 1
            key = "%s/accumulator %s" % (f.name, v)
            narrow = [p for p in prods if (p[0].get("w") == 32 and const_eval(None, p[0]) is None)]
            if w == 64 and not narrow:
                rep.ok(rid, key, f.loc(prods[0][2]), "accumulator %s is 64-bit and its millisecond products are evaluated in 64 bits" % v)
            else:
                rep.fail(rid, key, f.loc(prods[0][2]),
                         "local %s (%s bits) carries milliseconds into echs_idiff_t.d but %s: durations beyond 49.7 days wrap" % (
                             v, w, "is itself 32-bit" if w != 64 else "the product `%s` is evaluated in 32 bits" % show(narrow[0][0])[:60]))
    if n < 6:
        rep.broken_("rule=R08.1 expected >=6 millisecond sinks/accumulators, found %d" % n)
    # a difference of two unsigned 32-bit quantities that is widened to 64 bits keeps its wrap-around: -1 day becomes +4294967295 days.
    # (In 32 bits the conversion to int undoes the wrap; once the accumulator is 64 bits wide it no longer does.)
    nw = nbad = 0
    for f in prog.all_fns():
        if not f.cfg or f.file not in ("instant.c", "instant.h", "tzob.c", "dt-strpf.c", "echsd.c", "evical.c", "scale.c"):
            continue
        k = 0
        for b, i, x, line in f.cfg.all_elems():
            if not isinstance(x, dict):
                continue
            for nn in walk(x):
                if nn.get("k") == "bin" and nn["op"] == "-" and nn.get("s") is False and nn.get("w") == 32 and int_value(nn["l"]) is None:
                    nw += 1
                if nn.get("k") == "cast" and nn.get("impl") and nn.get("ck") == "IntegralCast" and (nn.get("from") or {}).get("s") is False \
                        and (nn.get("from") or {}).get("w") == 32 and (nn.get("to") or {}).get("w") == 64:
                    e = nn["e"]
                    while isinstance(e, dict) and e.get("k") == "cast" and e.get("ck") in ("LValueToRValue", "NoOp"):
                        e = e["e"]
                    if isinstance(e, dict) and e.get("k") == "bin" and e["op"] == "-" and int_value(e["l"]) is None:
                        k += 1
                        nbad += 1
                        rep.fail(rid, "%s/widened-unsigned-difference#%d" % (f.name, k), f.loc(nn.get("line", line)),
                                 "`%s` is computed in unsigned 32 bits and then widened to %s: when the minuend is the smaller one the wrapped value "
                                 "(4294967296 - n) is kept instead of -n — an end before its begin comes out ~4.29e9 units late" % (show(e)[:60], (nn.get("to") or {}).get("t")))
    if nw < 5:
        rep.broken_("rule=R08.1 expected >=5 unsigned 32-bit differences in the time code, found %d" % nw)
    if not nbad:
        rep.ok(rid, "time-code/no-widened-unsigned-difference", "src/instant.c",        "%d unsigned 32-bit differences, none widened to 64 bits afterwards" % nw, nontrivial=False)


def _tbl(prog, name, file, scope=None):
    return table_py(prog.table(name, file, scope))


def r08_2(prog, rep):
    rid = "R08.2"
    # month lengths
    md = [(t["file"], t["scope"], table_py(t)) for t in prog.tables.get("mdays", [])]
    if len(md) < 3:
        rep.broken_("rule=R08.2 expected 3 mdays tables, found %d" % len(md))
    for file, scope, v in md:
        key = "mdays/%s/%s" % (file, scope)
        if v == ML:
            rep.ok(rid, key, "src/" + file, "month lengths equal the Gregorian table")
        else:
            rep.fail(rid, key, "src/" + file, "month-length table %s differs from the Gregorian month lengths %s" % (v, ML))
    cum = [0, 0]
    for m in range(1, 13):
        cum.append(cum[-1] + ML[m])
    # January-based cumulative tables
    for t in prog.tables.get("__mon_yday", []):
        v = table_py(t)
        key = "__mon_yday/%s/%s" % (t["file"], t["scope"])
        if len(v) == 14 and v[1:] == cum[1:14]:
            # leap bit set: bit m set iff a leap day lies before month m (m >= 3)
            want = sum(1 << m for m in range(3, 16))
            if v[0] == want:
                rep.ok(rid, key, "src/" + t["file"], "January-based cumulative days + leap-bit set 0x%x" % v[0])
            else:
                rep.fail(rid, key, "src/" + t["file"], "leap-bit set is 0x%x, expected 0x%x (months >= 3)" % (v[0], want))
        elif len(v) == 13:
            # March-based: days from 1 March to the first of month m
            want = [0] * 13
            acc = 0
            for m in list(range(3, 13)) + [1, 2]:
                want[m] = acc
                acc += ML[m]
            if v == want:
                rep.ok(rid, key, "src/" + t["file"], "March-based cumulative days (Mar=0 ... Feb=337)")
            else:
                rep.fail(rid, key, "src/" + t["file"], "March-based cumulative table %s differs from the derived %s" % (v, want))
        else:
            rep.fail(rid, key, "src/" + t["file"], "cumulative table %s is neither the January- nor the March-based running sum of the month lengths" % v)
    doy = _tbl(prog, "doy", "instant.c")
    want = cum[:14] + [365 + x for x in cum[2:13]]
    if doy == want[:len(doy)] and len(doy) >= 14:
        rep.ok(rid, "doy/instant.c", "src/instant.c", "two-year running sum of the month lengths")
    else:
        rep.fail(rid, "doy/instant.c", "src/instant.c", "doy[] = %s differs from the running sum %s" % (doy, want[:len(doy)]))
    # duplicated unit macros
    for m in ("HOURS_PER_DAY", "MINS_PER_HOUR", "SECS_PER_MIN", "MSECS_PER_SEC", "SECS_PER_DAY", "MSECS_PER_DAY"):
        vals = {}
        for mm in prog.macros.get(m, []):
            vals[mm["file"]] = prog.macro_int(m, mm["file"])
        want = {"HOURS_PER_DAY": 24, "MINS_PER_HOUR": 60, "SECS_PER_MIN": 60, "MSECS_PER_SEC": 1000, "SECS_PER_DAY": 86400, "MSECS_PER_DAY": 86400000}[m]
        key = "macro/%s" % m
        if len(vals) >= 2 and set(vals.values()) == {want}:
            rep.ok(rid, key, "src/instant.c", "%s = %d in %s" % (m, want, sorted(vals)))
        else:
            rep.fail(rid, key, "src/instant.c", "%s defined as %s (expected %d everywhere)" % (m, vals, want))
    if month_length_tables(prog, rep, rid) < 3:
        rep.broken_("rule=R08.2 expected >=3 month-length tables, found fewer")
    # leap predicates: every `% 4` on a year is tested for zero
    nleap = 0
    leapseen = set()
    for f in prog.all_fns():
        if not f.cfg or f.file not in ("instant.c", "evrrul.c", "scale.c", "echsd.c", "tzob.c"):
            continue
        seen = 0
        for b, i, x, line in f.cfg.all_elems():
            xr = f.cfg.resolve(x)
            parents = {}
            for n in walk(xr):
                from ..facts import children
                for c in children(n):
                    parents[id(c)] = n
            for n in walk(xr):
                if n.get("k") == "bin" and n["op"] == "%" and int_value(n["r"]) == 4 and ("y" in lv(n["l"]).split(".")[-1] or "year" in lv(n["l"])):
                    p = parents.get(id(n))
                    while p is not None and p.get("k") == "cast":
                        p = parents.get(id(p))
                    ok = p is None or (p.get("k") == "un" and p["op"] == "!") or \
                        (p.get("k") == "bin" and p["op"] in ("==", "!=") and (int_value(p["r"]) == 0 or int_value(p["l"]) == 0)) or \
                        (p.get("k") == "cond" and strip_casts(p["c"]) is n) or (p.get("k") == "bin" and p["op"] in ("&&", "||")) or \
                        (p.get("k") == "call" and p.get("fn") == "__builtin_expect")
                    if (f.name, n.get("line", line)) in leapseen:
                        continue
                    leapseen.add((f.name, n.get("line", line)))
                    nleap += 1
                    key = "leap/%s#%d" % (f.name, seen)
                    seen += 1
                    if ok:
                        rep.ok(rid, key, f.loc(n.get("line", line)), "leap test is !(y % 4) / (y % 4) == 0", nontrivial=(seen == 1))
                    else:
                        rep.fail(rid, key, f.loc(n.get("line", line)), "year %% 4 is used as `%s`, not as a divisibility test" % show(p)[:60])
    if nleap < 5:
        rep.broken_("rule=R08.2 expected >=5 leap predicates, found %d" % nleap)
    # sibling agreement of the leap rule: every function that tests a year for divisibility uses the same set of moduli
    # (the code base supports 1901..2099 and uses y % 4 throughout; a lone `% 100` without `% 400` makes 2000 a common year)
    moduli = {}
    for f in prog.all_fns():
        if not f.cfg or f.file not in ("instant.c", "evrrul.c", "scale.c", "echsd.c", "tzob.c", "dt-strpf.c"):
            continue
        for b, i, x, line in f.cfg.all_elems():
            for n in walk(f.cfg.resolve(x)):
                if n.get("k") == "bin" and n["op"] == "%" and int_value(n["r"]) in (4, 100, 400) and \
                        ("y" in lv(n["l"]).split(".")[-1] or "year" in lv(n["l"])):
                    moduli.setdefault(f.name, set()).add(int_value(n["r"]))
    kinds = {}
    for fn_, ms in moduli.items():
        kinds.setdefault(tuple(sorted(ms)), []).append(fn_)
    if len(kinds) == 1:
        rep.ok(rid, "leap/one-rule", "src/instant.c", "all %d functions with a leap test divide the year by %s" % (len(moduli), list(kinds)[0]))
    else:
        major = max(kinds.items(), key=lambda kv: len(kv[1]))
        for ms, fns in kinds.items():
            if ms == major[0]:
                continue
            for fn_ in fns:
                rep.fail(rid, "leap/one-rule/%s" % fn_, prog.fn(fn_).loc(),
                         "%s tests the year with moduli %s while the %d sibling leap tests use %s: the calendar helpers disagree about which years are "
                         "leap (e.g. a `%% 100` test without `%% 400` makes 2000 a common year for this function only)" % (fn_, list(ms), len(major[1]), list(major[0])))
    # the daemon's leap-day term agrees with its own leap-bit set for every month: day count of (leap year, m, 1) minus that of
    # (preceding year, m, 1) is 365 plus one iff the bit of month m is set (constant propagation over the 12 months)
    itf = prog.fn("instant_to_tstamp", "echsd.c")
    from ..absw import AbsWalk as _AW

    tabs = [t for t in prog.tables.get("__mon_yday", []) if t["file"] == "echsd.c"]
    tab = (table_py(tabs[0]) or []) if tabs else []

    def _nd(y, m):
        par = itf.params[0]["n"]
        init = {"%s.y" % par: y, "%s.m" % par: m, "%s.d" % par: 1, "%s.H" % par: 0, "%s.M" % par: 0, "%s.S" % par: 0, "%s.ms" % par: 0}
        # subscripts of the function's own constant table with the (constant) month / with literal indices
        for ix_text, ix in (("%s.m" % par, m), ("(%s.m - 1)" % par, m - 1), ("(%s.m + 1)" % par, m + 1), ("0", 0)):
            if 0 <= ix < len(tab):
                init["__mon_yday[%s]" % ix_text] = tab[ix]
        w = _AW(itf, {"nd", "__mon_yday"} | {l_["n"] for l_ in itf.locals if "[" not in (l_.get("t") or "") and "*" not in (l_.get("t") or "")}, init=init)
        w.run()
        vals = {st.get("nd") for st in w.exit_stores}
        return vals.pop() if len(vals) == 1 else None
    bits = tab[0] if tab else None
    bad = []
    for m in range(1, 13):
        a, b_ = _nd(2004, m), _nd(2003, m)
        if a is None or b_ is None or bits is None:
            bad = None
            break
        if (a - b_ - 365) != ((bits >> m) & 1):
            bad.append((m, a - b_ - 365, (bits >> m) & 1))
    if bad is None and any(c_.get("fn") == "echs_instant_to_epoch" for b, i, x, line in itf.cfg.all_elems() if isinstance(x, dict) for c_ in calls(x)):
        rep.ok(rid, "instant_to_tstamp/leap-term", itf.loc(), "no day count of its own (library conversion; R08.11 decides)", nontrivial=False)
    elif bad is None:
        rep.broken_("rule=R08.2 instant_to_tstamp: the day count could not be evaluated by constant propagation")
    elif bad:
        rep.fail(rid, "instant_to_tstamp/leap-term", itf.loc(),
                 "the leap day is added for the wrong months: month %d gets %+d where the leap-bit set 0x%x says %d (%d of 12 months disagree): "
                 "occurrences in those months of leap years are armed a day off" % (bad[0][0], bad[0][1], bits, bad[0][2], len(bad)))
    else:
        rep.ok(rid, "instant_to_tstamp/leap-term", itf.loc(), "for all 12 months the leap-day term equals bit m of the leap-bit set 0x%x" % bits)
    # epoch constant of the daemon
    it = prog.fn("instant_to_tstamp", "echsd.c")
    consts = []
    base = None
    for b, i, x, line in it.cfg.all_elems():
        for n in walk(it.cfg.resolve(x)):
            if n.get("k") == "bin" and n["op"] == "-" and lv(n["l"]).endswith(".y") and int_value(n["r"]):
                base = int_value(n["r"])
            if n.get("k") == "bin" and n["op"] == "*" and int_value(n["l"]) and int_value(n["r"]) == 86400:
                consts.append(int_value(n["l"]))
    if base and consts:
        want = (datetime.date(base, 1, 1) - datetime.date(1970, 1, 1)).days - 1
        if consts[0] == want:
            rep.ok(rid, "echsd/epoch-constant", it.loc(), "%d days from the unix epoch to %d-01-00" % (want, base))
        else:
            rep.fail(rid, "echsd/epoch-constant", it.loc(), "daemon epoch constant %d, but %d-01-00 is %d days after 1970-01-01: every wake-up is off by %d day(s)" % (
                consts[0], base, want, consts[0] - want))
    elif any(c_.get("fn") == "echs_instant_to_epoch" for b, i, x, line in it.cfg.all_elems() if isinstance(x, dict) for c_ in calls(x)):
        rep.ok(rid, "echsd/epoch-constant", it.loc(), "instant_to_tstamp() has no day count of its own: it goes through the library's conversion "
               "(what it returns is decided by R08.11)", nontrivial=False)
    else:
        rep.fail(rid, "echsd/epoch-constant", it.loc(), "cannot find the base year / epoch constant of instant_to_tstamp")
    # epoch constants of the library: 1970-01-01 must map to day DAISY_UNIX_BASE in the March-based count from DAISY_BASE_YEAR
    by = prog.macro_int("DAISY_BASE_YEAR", "tzob.c")
    ub = prog.macro_int("DAISY_UNIX_BASE", "tzob.c")
    tb = [table_py(t) for t in prog.tables.get("__mon_yday", []) if t["file"] == "tzob.c"]
    if tb:
        y0 = 1970 - by - 1   # January belongs to the previous March-year
        d0 = y0 * 365 + y0 // 4 + tb[0][1] + 1
        if d0 == ub and by % 4 == 0:
            rep.ok(rid, "tzob/epoch-constants", "src/tzob.c", "1970-01-01 is day %d of the March-based count from %d (a leap year)" % (ub, by))
        else:
            rep.fail(rid, "tzob/epoch-constants", "src/tzob.c", "DAISY_UNIX_BASE %d / DAISY_BASE_YEAR %d: 1970-01-01 is day %d of that count" % (ub, by, d0))


def r08_3(prog, rep):
    rid = "R08.3"
    u = prog.record("echs_instant_u")
    bits = {}
    for f in u["fields"]:
        for g in f.get("fields", []) or []:
            if "bits" in g:
                bits[g["n"]] = g["bits"]
    if set(bits) != {"y", "m", "d", "H", "M", "S", "ms"}:
        raise AnalysisBroken("echs_instant_u bit-fields not found: %s" % bits)
    if sum(bits.values()) == 64:
        rep.ok(rid, "echs_instant_u/widths", "src/instant.h", "bit-fields %s sum to 64" % bits)
    else:
        rep.fail(rid, "echs_instant_u/widths", "src/instant.h", "bit-fields %s sum to %d, not 64: the .u view no longer orders instants" % (bits, sum(bits.values())))
    ad, asec = prog.macro_int("ECHS_ALL_DAY", "instant.h"), prog.macro_int("ECHS_ALL_SEC", "instant.h")
    for nm, val, fld in (("ECHS_ALL_DAY", ad, "H"), ("ECHS_ALL_SEC", asec, "ms")):
        if val == (1 << bits[fld]) - 1:
            rep.ok(rid, "sentinel/%s" % nm, "src/instant.h", "%s = 2^%d - 1: incrementing the field wraps it to 0 (all-day sorts before timed)" % (nm, bits[fld]))
        else:
            rep.fail(rid, "sentinel/%s" % nm, "src/instant.h", "%s = %#x but field %s has %d bits (all-ones %#x): x.%s++ no longer wraps the sentinel to 0" % (
                nm, val, fld, bits[fld], (1 << bits[fld]) - 1, fld))
    # field order (little endian layout as compiled): ms S M H d m y from least to most significant
    order = [g["n"] for f in u["fields"] for g in (f.get("fields") or []) if "bits" in g]
    if order == ["ms", "S", "M", "H", "d", "m", "y"]:
        rep.ok(rid, "echs_instant_u/order", "src/instant.h", "fields ordered from least to most significant: %s" % order)
    else:
        rep.fail(rid, "echs_instant_u/order", "src/instant.h", "bit-field order %s: comparing .u no longer compares chronologically" % order)


def r08_4(prog, rep):
    """Sibling/contradiction rule: March-based table <=> year carry for months < 3."""
    rid = "R08.4"
    n = 0
    for t in prog.tables.get("__mon_yday", []):
        v = table_py(t)
        if not (isinstance(v, list) and len(v) == 13 and v[3] == 0 and v[1] > 300):
            continue
        n += 1
        fname = t["scope"].split(":", 1)[1]
        f = prog.fn(fname, t["file"])
        # month expression used as the index
        idx = None
        for b, i, x, line in f.cfg.all_elems():
            for nn in walk(f.cfg.resolve(x)):
                if nn.get("k") == "idx" and lv(nn["b"]) == "__mon_yday":
                    idx = lv(nn["i"])
        carry = False
        for b, i, x, line in f.cfg.all_elems():
            for nn in walk(f.cfg.resolve(x)):
                if nn.get("k") == "bin" and nn["op"] in ("-", "+"):
                    r = strip(nn["r"])
                    if isinstance(r, dict) and r.get("k") == "bin" and r["op"] in ("<", "<=", ">", ">=") and idx in (lv(r["l"]), lv(r["r"])):
                        c = int_value(r["r"]) if int_value(r["r"]) is not None else int_value(r["l"])
                        if (r["op"] == "<" and c == 3) or (r["op"] == "<=" and c == 2):
                            carry = nn["op"] == "-"
        key = "%s/march-year-carry" % fname
        # the carry has to reach every use of the year: either the year variable is *defined* with the carry, or each of its reads
        # sits inside a carry expression (a day count `(by - (m < 3)) * 365 + by / 4` counts the leap days of the uncarried year)
        partial = None
        if idx and carry:
            def is_carry(nn):
                if not (nn.get("k") == "bin" and nn["op"] == "-"):
                    return False
                r = strip(nn["r"])
                return isinstance(r, dict) and r.get("k") == "bin" and r["op"] in ("<", "<=") and idx in (lv(r["l"]), lv(r["r"]))
            for b, i, x, line in f.cfg.all_elems():
                if not isinstance(x, dict):
                    continue
                xr = f.cfg.resolve(x)
                defined = {lv(l) for l, kind, nn2 in writes(xr)}
                for nn in walk(xr):
                    if is_carry(nn):
                        carried = {q["n"] for q in walk(nn["l"]) if q.get("k") == "ref" and q.get("dk") == "local"}
                        for u in carried - defined:
                            # every read of u must lie inside a carry expression
                            for b2, i2, x2, line2 in f.cfg.all_elems():
                                if not isinstance(x2, dict):
                                    continue
                                x2r = f.cfg.resolve(x2)
                                inside = set()
                                for c2 in walk(x2r):
                                    if is_carry(c2):
                                        inside |= {id(q) for q in walk(c2)}
                                for q in walk(x2r):
                                    if q.get("k") == "ref" and q.get("n") == u and id(q) not in inside:
                                        # its own declaration / definition does not count as a use
                                        if any(lv(l2) == u for l2, k2, n2 in writes(x2r)) and not any(id(q) in {id(z) for z in walk(n2.get("r") or n2.get("init") or {})} for l2, k2, n2 in writes(x2r)):
                                            continue
                                        partial = (u, line2)
        if idx and carry and partial:
            rep.fail(rid, key, f.loc(partial[1]), "the year carry for months < 3 is applied to one use of `%s` only; line %s uses `%s` without it: the leap days "
                     "(or days) of the uncarried year are counted for January/February dates" % (partial[0], partial[1], partial[0]))
        elif idx and carry:
            rep.ok(rid, key, f.loc(), "year is reduced by (%s < 3): January/February belong to the previous March-year" % idx)
        else:
            rep.fail(rid, key, f.loc(), "%s looks days up in a March-based table (Jan=306, Feb=337) but does not carry the year for months < 3: "
                     "January and February instants come out a year late" % fname)
    # the inverse direction carries the year for the last two months of the March-year
    g = prog.fn("__epoch_to_inst", "tzob.c")
    ok = False
    for b, i, x, line in g.cfg.all_elems():
        for l, kind, nn in writes(g.cfg.resolve(x)):
            if lv(l).endswith(".y") and nn.get("k") == "bin":
                for m in walk(nn["r"]):
                    if m.get("k") == "bin" and m["op"] == ">" and int_value(m["r"]) == 10:
                        ok = True
    if ok:
        rep.ok(rid, "__epoch_to_inst/march-year-carry", g.loc(), "year is increased for the 11th/12th month of the March-year")
    else:
        rep.fail(rid, "__epoch_to_inst/march-year-carry", g.loc(), "no year carry for January/February in the epoch -> instant direction")
    if n < 1:
        rep.broken_("rule=R08.4 no March-based table found")


R08_5_EXCEPTIONS = {
    ("ywd_to_md", "res.m"): "returns a (month, day) pair without a year: a week-date spilling over New Year is folded onto Dec/Jan, "
                            "the neighbouring years are represented by the caller's three candidate sets",
}


TIME_UNITS = {86400000: "a day of milliseconds", 86400: "a day of seconds", 1440: "a day of minutes", 3600000: "an hour of milliseconds",
         3600: "an hour of seconds", 60000: "a minute of milliseconds"}


def r08_6(prog, rep):
    """Borrow/carry pairing in the time-of-day arithmetic: where a quantity is brought back into range by adding or subtracting a whole
    unit (a day's worth of milliseconds, ...), the same block adjusts the next-higher quantity.  A borrow without its carry is off by
    exactly that unit."""
    rid = "R08.6"
    n = 0
    for f in prog.all_fns():
        if not f.cfg or f.file not in ("instant.c", "tzob.c", "evical.c", "echsd.c", "dt-strpf.c"):
            continue
        cfg = f.cfg
        for b, blk in cfg.blocks.items():
            ws = []
            for e in blk.elems:
                x = e["x"]
                if isinstance(x, dict):
                    for l, kind, nn in writes(x):
                        ws.append((lv(l), kind, nn))
            for t, kind, nn in ws:
                if kind != "compound" or nn.get("op") not in ("+=", "-="):
                    continue
                k = const_eval(f, cfg.resolve(nn["r"]))
                if k not in TIME_UNITS:
                    continue
                # only normalisations: the block is entered under a test of the same quantity
                guarded = False
                for p_ in cfg.lpreds.get(b, []):
                    c = cfg.cond(p_)
                    if c is not None and any(len(a) == 5 and t in (a[1], a[2]) for a in cond_atoms(c, True) + cond_atoms(c, False)):
                        guarded = True
                if not guarded:
                    continue
                n += 1
                key = "%s/borrow %s %s %d" % (f.name, t, nn["op"], k)
                others = [w for w in ws if w[0] != t]
                if others:
                    rep.ok(rid, key, f.loc(nn.get("line")), "%s %s %s is paired with a write to %s" % (t, nn["op"], TIME_UNITS[k], others[0][0]))
                else:
                    rep.fail(rid, key, f.loc(nn.get("line")),
                             "%s is brought back into range by %s %s, but nothing carries that unit into the next-higher quantity in the same block: "
                             "the result is off by exactly %s" % (t, "adding" if nn["op"] == "+=" else "subtracting", TIME_UNITS[k], TIME_UNITS[k]))
    if n < 1:
        rep.broken_("rule=R08.6 expected >=1 borrow of a whole unit, found %d" % n)


def month_length_tables(prog, rep, rid, files=None):
    """Every constant table that looks like month lengths (12 entries of 28..31, optionally a leading 0) IS the Gregorian month lengths
    (February 28 or, in a table of upper bounds, 29).  Tables are discovered by shape, so a new copy is checked like the old ones."""
    n = 0
    for name, tl in sorted(prog.tables.items()):
        for t in tl:
            if files and t["file"] not in files:
                continue
            v = table_py(t)
            if not (isinstance(v, list) and len(v) in (12, 13) and all(isinstance(x, int) for x in v)):
                continue
            body = v[1:] if len(v) == 13 and v[0] == 0 else v
            if len(body) != 12 or not all(28 <= x <= 31 for x in body):
                continue
            n += 1
            key = "month-lengths/%s:%s" % (t["file"], name if t.get("scope") == "file" else "%s/%s" % (str(t.get("scope")).split(":")[-1], name))
            if body[:1] + body[2:] == ML[1:2] + ML[3:] and body[1] in (28, 29):
                rep.ok(rid, key, "src/%s:%s" % (t["file"], t.get("line")), "month lengths %s" % body)
            else:
                wrong = [(i + 1, body[i], ML[i + 1]) for i in range(12) if body[i] != ML[i + 1] and not (i == 1 and body[i] == 29)]
                rep.fail(rid, key, "src/%s:%s" % (t["file"], t.get("line")),
                         "table %s holds %s: month %d has %d days, not %d - dates on the missing day(s) are rejected or mis-stepped" % (
                             name, body, wrong[0][0], wrong[0][1], wrong[0][2]))
    return n


def r08_5(prog, rep):
    """Sibling pattern: wherever a month counter wraps (reset to 1 or 12, +/-= 12, %= 12 under a test against the range) the
    same block adjusts another counter (the year).  All wrap sites of the calendar code are cross-checked."""
    rid = "R08.5"
    n = 0
    for f in prog.all_fns():
        if not f.cfg or f.file not in ("instant.c", "evrrul.c", "scale.c", "tzob.c", "echsd.c"):
            continue
        cfg = f.cfg
        seen = {}
        for b, blk in cfg.blocks.items():
            wraps = []
            others = []
            for e in blk.elems:
                for l, kind, nn in writes(e["x"]):
                    t = lv(l)
                    if nn.get("k") == "bin":
                        v = int_value(nn["r"])
                        if (nn["op"] == "=" and v in (1, 12)) or (nn["op"] in ("+=", "-=", "%=") and v == 12):
                            wraps.append((t, nn))
                            continue
                    if kind in ("incdec", "compound") or (nn.get("k") == "bin" and nn["op"] == "="):
                        others.append((t, kind, nn))
            if not wraps:
                continue
            # the block must be entered under a range test of that very variable
            preds = cfg.lpreds[b]
            if len(preds) != 1:
                continue
            c = cfg.cond(preds[0])
            if c is None:
                continue
            for mt, nn in wraps:
                mname = mt.split(".")[-1].split("->")[-1]
                if not re.fullmatch(r"(\w*_)?m|\w*mon\w*", mname):       # m, this_m, nu_m, new_m, mon, month: however the month counter is called
                    continue
                tested = False
                for a in cond_atoms(c, True) + cond_atoms(c, False):
                    if len(a) == 5 and (mt in a[1] or mt in a[2]) and (int_value(a[3]) in (0, 1, 12) or int_value(a[4]) in (0, 1, 12)):
                        tested = True
                if not tested:
                    continue
                # a reset to the *nearer* end of the range is a clamp, not a wrap: `if (m <= 0) m = 1` puts an out-of-range month on the
                # first one (the tail of the SHIFT look-back), it does not go round the year; a wrap resets to the far end
                if nn["op"] == "=":
                    si_ = cfg.blocks[preds[0]].succs.index(b) if b in cfg.blocks[preds[0]].succs else None
                    held = cond_atoms(c, si_ == 0) if si_ is not None else []
                    low = any(len(a) == 5 and ((a[0] in ("<", "<=") and a[1] == mt and int_value(a[4]) in (0, 1)) or
                                                (a[0] == "==" and mt in (a[1], a[2]) and 0 in (int_value(a[3]), int_value(a[4])))) for a in held)
                    high = any(len(a) == 5 and a[0] in ("<", "<=") and a[2] == mt and int_value(a[3]) in (12, 13) for a in held)
                    v_ = int_value(nn["r"])
                    if (v_ == 1 and low and not high) or (v_ == 12 and high and not low):
                        continue
                n += 1
                k0 = "%s/month-wrap %s" % (f.name, mt)
                seen[k0] = seen.get(k0, 0) + 1
                key = k0 if seen[k0] == 1 else "%s#%d" % (k0, seen[k0])
                carry = [o for o in others if o[0] != mt and o[1] in ("incdec", "compound") and re.search(r"y", o[0].split(".")[-1])]
                if (f.name, mt) in R08_5_EXCEPTIONS:
                    rep.note(rid, key, f.loc(nn.get("line")), "listed exception: " + R08_5_EXCEPTIONS[(f.name, mt)])
                elif carry:
                    rep.ok(rid, key, f.loc(nn.get("line")), "month wrap `%s` adjusts %s in the same block" % (show(nn), carry[0][0]), nontrivial=(seen[k0] == 1))
                else:
                    rep.fail(rid, key, f.loc(nn.get("line")),
                             "the month counter %s wraps (`%s`) without the year being adjusted in the same block; every other wrap site in the calendar code carries the year" % (mt, show(nn)))
    if n < 12:
        rep.broken_("rule=R08.5 expected >=12 month-wrap sites, found %d" % n)
    # modular reduction of a 1-based month: `m %= 12` is correct only between `m--` and `m++` (else December becomes month 0 and
    # the year carry is one too many); the expression form `(m - 1) % 12 + 1` carries its own shift
    nmod = 0
    for f in prog.all_fns():
        if not f.cfg or f.file not in ("instant.c", "evrrul.c", "scale.c", "tzob.c", "echsd.c"):
            continue
        cfg = f.cfg
        for b, blk in cfg.blocks.items():
            steps = []   # (index, var, +1/-1/'mod')
            for i, e in enumerate(blk.elems):
                x = e["x"]
                if not isinstance(x, dict):
                    continue
                for l, kind, nn in writes(x):
                    from ..facts import step_of
                    st = step_of(kind, nn)
                    if st is not None:
                        steps.append((i, lv(l), st, nn))
                    elif nn.get("k") == "bin" and nn["op"] == "%=" and int_value(strip_casts(nn["r"])) == 12:
                        steps.append((i, lv(l), "mod", nn))
            for i, v, st, nn in steps:
                if st != "mod":
                    continue
                nmod += 1
                key = "%s/month-mod %s#%d" % (f.name, v, nmod)
                before = any(j < i and w == v and s_ == -1 for j, w, s_, _ in steps)
                after = any(j > i and w == v and s_ == 1 for j, w, s_, _ in steps)
                if before and after:
                    rep.ok(rid, key, f.loc(nn.get("line")), "%s %%= 12 is bracketed by %s-- and %s++ (reduction on the 0-based month)" % (v, v, v))
                else:
                    rep.fail(rid, key, f.loc(nn.get("line")),
                             "the 1-based month %s is reduced with `%s %%= 12` without the %s-- / %s++ bracket its sibling sites use: a sum that is a "
                             "multiple of 12 becomes month 0 and carries one year too many" % (v, v, v, v))
    if nmod < 2:
        rep.broken_("rule=R08.5 expected >=2 modular month reductions, found %d" % nmod)


def r08_7(prog, rep):
    """The year and the month of one date are read off the same state.  Where a function assembles a date record and both its year
    and its month field are computed from one stepped index (a month slot that is bumped when the day spills over), no step of that
    index may lie between the two assignments: the year would belong to the slot before the bump, the month to the slot after it."""
    from ..q import forward_scan
    from ..facts import step_of
    rid = "R08.7"
    n = 0
    for f in prog.all_fns():
        if not f.cfg or f.file not in ("instant.c", "tzob.c", "echsd.c", "dt-strpf.c", "scale.c", "evrrul.c", "instant.h"):
            continue
        cfg = f.cfg
        asg = {}
        for b, i, x, line in cfg.all_elems():
            if not isinstance(x, dict):
                continue
            for l, kind, nn in writes(x):
                l_ = strip_casts(l)
                if kind == "assign" and l_.get("k") == "mem" and l_["f"] in ("y", "m") and nn.get("k") == "bin" and nn["op"] == "=":
                    rd = {q["n"] for q in walk(cfg.resolve(nn["r"])) if q.get("k") == "ref" and q.get("dk") in ("local", "param")}
                    asg.setdefault(lv(l_["b"]), []).append((b, i, l_["f"], rd, nn.get("line", line)))
        for base, lst in asg.items():
            for a in lst:
                for c in lst:
                    if a[2] == c[2] or a is c:
                        continue
                    common = a[3] & c[3]
                    if not common:
                        continue

                    def visit(b_, i_, x_, _c=c, _common=common):
                        if (b_, i_) == (_c[0], _c[1]):
                            return "stop"
                        if isinstance(x_, dict) and any(lv(l2) in _common and step_of(k2, n2) is not None for l2, k2, n2 in writes(x_)):
                            return "hit"
                        return None
                    hits, _ = forward_scan(cfg, (a[0], a[1]), visit)
                    hits = [h for h in hits if (c[0] == h[0] and c[1] > h[1]) or c[0] in cfg.reach_from(h[0])]
                    if (b, i) == (a[0], a[1]):
                        pass
                    n += 1
                    key = "%s/%s.%s-then-%s(%s)" % (f.name, base, a[2], c[2], ",".join(sorted(common)))
                    if hits:
                        hl = cfg.blocks[hits[0][0]].elems[hits[0][1]].get("line")
                        rep.fail(rid, key, f.loc(a[4]), "%s.%s is computed from %s, which is stepped (line %s) before %s.%s is computed from it: year and month "
                                 "of one date come from different states of the index (wrong year when the step crosses the year's boundary slot)" % (
                                     base, a[2], "/".join(sorted(common)), hl, base, c[2]))
                    else:
                        rep.ok(rid, key, f.loc(a[4]), "%s.%s and %s.%s read the same state of %s" % (base, a[2], base, c[2], "/".join(sorted(common))))
    if n < 1:
        rep.broken_("rule=R08.7 expected >=1 (year, month) pair computed from a common index, found %d" % n)


def _add_walk(prog, bas, addms):
    """What echs_instant_add() returns for one instant (y, m, d, H, M, S, ms) and one duration in ms, by a value-fixed walk of its CFG:
    the members of the instant and the duration are constants, the month-length helper is its table (R08.2 ties that table to the
    calendar).  Nothing of echse runs."""
    from ..absw import AbsWalk, eval_in
    f = prog.fn("echs_instant_add", "instant.c")
    cfg = f.cfg
    bp, ap = f.params[0]["n"], f.params[1]["n"]
    FL = ("y", "m", "d", "H", "M", "S", "ms")
    init = {"%s.%s" % (bp, k_): v_ for k_, v_ in zip(FL, bas)}
    init[ap + ".d"] = addms
    resv = [l_["n"] for l_ in f.locals if "echs_instant" in (l_.get("t") or "")]
    tracked = {l_["n"] for l_ in f.locals} | {"%s.%s" % (r_, k_) for r_ in resv for k_ in FL}

    def fld(store, a, k_):
        a = strip_casts(cfg.resolve(a))
        return store.get("%s.%s" % (lv(a), k_))

    def call_eval(c, store):
        nm = c.get("fn")
        if nm == "echs_instant_all_day_p":
            v = fld(store, c["a"][0], "H")
            return None if v is None else int(v == 0xff)
        if nm == "echs_instant_all_sec_p":
            v = fld(store, c["a"][0], "ms")
            return None if v is None else int(v == 0x3ff)
        if nm in ("__get_mdays", "__get_ndom"):
            y = eval_in(store, cfg.resolve(c["a"][0]), f, call_eval)
            m = eval_in(store, cfg.resolve(c["a"][1]), f, call_eval)
            if y is None or m is None or not 0 <= m <= 12:
                return None
            return ML[m] + (1 if m == 2 and y % 4 == 0 else 0)
        return None
    outs = []

    def effect(b, i, x, store):
        if isinstance(x, dict) and x.get("k") == "ret" and x.get("e") is not None:
            e = strip_casts(cfg.resolve(x["e"]))
            outs.append(tuple(store.get("%s.%s" % (lv(e), k_)) for k_ in FL))
        return None
    AbsWalk(f, tracked, init=init, effect=effect, call_eval=call_eval, max_states=20000).run()
    if len(set(outs)) != 1:
        raise AnalysisBroken("echs_instant_add(%s, %d): no single result (%s)" % (bas, addms, outs[:2]))
    return outs[0]


def r08_9(prog, rep, rid="R08.9"):
    """Adding a duration carries days into months and months into years; each month on the way has the length it has in the year it
    lies in.  echs_instant_add() is walked for start dates around year ends and leap days with durations from a second to four years,
    timed and all-day, both directions, and compared with the calendar."""
    f = prog.fn("echs_instant_add", "instant.c")
    starts = [(2019, 12, 15), (2020, 12, 15), (2019, 1, 31), (2020, 2, 28), (2020, 2, 29), (2020, 3, 1), (2019, 3, 1), (1999, 12, 31),
              (2023, 1, 1), (2024, 1, 1), (1904, 2, 29), (2095, 12, 31)]
    days = [1, 28, 29, 31, 59, 60, 80, 365, 366, 400, 1461]
    if _TIER == "thorough":
        import calendar as _cal
        starts = starts + [(y_, m_, d_) for y_ in (2023, 2024) for m_ in range(1, 13) for d_ in (1, 15, _cal.monthrange(y_, m_)[1])] + \
            [(1901, 1, 1), (1901, 3, 1), (2098, 12, 31), (2000, 2, 29), (2000, 12, 31)]
        days = sorted(set(days + [2, 7, 27, 30, 32, 58, 61, 90, 181, 364, 367, 730, 731, 1460, 1462, 3653, 36524]))
    n = 0
    bad = []
    DAY = 86400000
    for (y, m, d) in starts:
        for dd in days:
            for sg in (1, -1):
                for kind in ("timed", "allday", "timed+12h", "timed-12h1ms"):
                    if kind == "allday":
                        bas, ms = (y, m, d, 0xff, 0, 0, 0), sg * dd * DAY
                    else:
                        bas = (y, m, d, 12, 30, 15, 500)
                        ms = sg * dd * DAY + {"timed": 0, "timed+12h": 43200000, "timed-12h1ms": -45015501}[kind]
                    t0 = datetime.datetime(y, m, d) if kind == "allday" else datetime.datetime(y, m, d, 12, 30, 15, 500000)
                    t1 = t0 + datetime.timedelta(milliseconds=ms)
                    if not 1902 <= t1.year <= 2098:
                        continue
                    want = (t1.year, t1.month, t1.day) + ((0xff, 0, 0, 0) if kind == "allday" else (t1.hour, t1.minute, t1.second, t1.microsecond // 1000))
                    got = _add_walk(prog, bas, ms)
                    n += 1
                    if got != want:
                        bad.append(("%04d-%02d-%02d %s %+d ms" % (y, m, d, kind, ms), got, want))
    key = "echs_instant_add/agrees-with-the-calendar"
    if bad:
        rep.fail(rid, key, f.loc(), "%d of %d additions come out wrong, e.g. %s" % (len(bad), n, "; ".join(
            "%s gives %s instead of %s" % (c_, "%s-%s-%s" % tuple(g_[:3]) if g_ and None not in g_[:3] else g_, "%04d-%02d-%02d" % w_[:3]) for c_, g_, w_ in bad[:3])),
            {"examples": [[c_, list(g_) if g_ else None, list(w_)] for c_, g_, w_ in bad[:20]]})
    else:
        rep.ok(rid, key, f.loc(), "%d additions across year ends and leap days agree with the calendar%s" % (n, " (thorough set)" if _TIER == "thorough" else ""))


def _epoch_walk(prog, inst):
    """What __inst_to_epoch() returns for one instant (y, m, d, H, M, S), by a value-fixed walk of its CFG in the types the compiler
    gave its expressions (unsigned sums wrap)."""
    from ..absw import AbsWalk, eval_in
    f = prog.fn("__inst_to_epoch", "tzob.c")
    cfg = f.cfg
    ip = f.params[0]["n"]
    init = {"%s.%s" % (ip, k_): v_ for k_, v_ in zip(("y", "m", "d", "H", "M", "S", "ms"), tuple(inst) + (0,))}
    outs = []

    def effect(b, i, x, store):
        if isinstance(x, dict) and x.get("k") == "ret" and x.get("e") is not None:
            outs.append(eval_in(store, cfg.resolve(x["e"]), f))
        return None
    AbsWalk(f, {l_["n"] for l_ in f.locals}, init=init, effect=effect, max_states=5000).run()
    if len(set(outs)) != 1:
        raise AnalysisBroken("__inst_to_epoch(%s): no single result (%s)" % (inst, outs[:2]))
    return outs[0]


def r08_10(prog, rep, rid="R08.10"):
    """The seconds since the unix epoch of an instant, over the whole supported range: negative before 1970, beyond 2^31 after January
    2038.  __inst_to_epoch() is walked for the first and last second of the range, both sides of 1970, of the base year of its day
    count and of the 32-bit limits, every leap day's neighbourhood sampled, and compared with the calendar."""
    import calendar
    f = prog.fn("__inst_to_epoch", "tzob.c")
    cases = [(1901, 1, 1, 0, 0, 0), (1901, 12, 13, 20, 45, 52), (1904, 2, 29, 12, 0, 0), (1947, 2, 28, 23, 59, 59), (1947, 12, 31, 23, 59, 59),
             (1948, 1, 1, 0, 0, 0), (1948, 2, 29, 12, 0, 0), (1948, 3, 1, 0, 0, 0), (1969, 12, 31, 23, 59, 59), (1970, 1, 1, 0, 0, 0),
             (1970, 3, 1, 0, 0, 0), (2000, 2, 29, 23, 59, 59), (2001, 1, 1, 0, 0, 0), (2038, 1, 19, 3, 14, 7), (2038, 1, 19, 3, 14, 8),
             (2038, 1, 19, 12, 0, 0), (2096, 2, 29, 0, 0, 0), (2099, 12, 31, 23, 59, 59)]
    cases += [(y, m, 1, 6, 30, 0) for y in (1902, 1950, 1972, 2040, 2098) for m in range(1, 13)]
    if _TIER == "thorough":
        cases += [(y, m, d, 23, 59, 59) for y in range(1901, 2100) for m in range(1, 13) for d in (1, ML[m] + (1 if m == 2 and y % 4 == 0 else 0))]
    bad = {"before-1970": [], "from-1970": []}
    cnt = {"before-1970": 0, "from-1970": 0}
    for c in cases:
        want = calendar.timegm(c + (0, 0, 0))
        got = _epoch_walk(prog, c)
        k_ = "before-1970" if c[0] < 1970 else "from-1970"
        cnt[k_] += 1
        if got != want:
            bad[k_].append(("%04d-%02d-%02dT%02d:%02d:%02d" % c, got, want))
    for k_ in ("from-1970", "before-1970"):
        key = "__inst_to_epoch/%s" % k_
        if bad[k_]:
            rep.fail(rid, key, f.loc(), "%d of %d instants do not convert to their unix time, e.g. %s" % (len(bad[k_]), cnt[k_], "; ".join(
                "%s gives %s instead of %d" % b_ for b_ in bad[k_][:3])) + (": a job due after 2038-01-19 looks overdue, zone offsets are "
                "looked up for a time in 1901" if k_ == "from-1970" else ": zone offsets of such an instant are looked up for a time after 2106"),
                {"examples": [list(b_) for b_ in bad[k_][:20]]})
        else:
            rep.ok(rid, key, f.loc(), "%d instants convert to their unix time" % cnt[k_])


def r08_11(prog, rep, rid="R08.11"):
    """The time the daemon arms a task for: instant_to_tstamp() is walked for instants of its range (2001..2099) — timed ones, and
    all-day ones, which stand for the start of their day — and compared with the calendar.  A call of the library's conversion inside it
    is followed with the library's own walk (which reads the all-day marker as hour 24)."""
    import calendar
    from ..absw import AbsWalk, eval_in
    f = prog.fn("instant_to_tstamp", "echsd.c")
    cfg = f.cfg
    ip = f.params[0]["n"]
    FL = ("y", "m", "d", "H", "M", "S", "ms")
    cases = [(2001, 1, 1, 0, 0, 0), (2004, 2, 29, 12, 0, 0), (2004, 3, 1, 0, 0, 1), (2026, 10, 4, 11, 30, 0), (2038, 1, 19, 3, 14, 8),
             (2099, 12, 31, 23, 59, 59), (2020, 2, 29, 0xff, 0, 0), (2001, 1, 1, 0xff, 0, 0), (2099, 12, 31, 0xff, 0, 0)]
    cases += [(y, m, 1, 6, 30, 0) for y in (2024, 2025) for m in range(1, 13)] + [(2024, m, 15, 0xff, 0, 0) for m in (1, 2, 3, 12)]
    bad = []

    def call_eval(c, store):
        nm = c.get("fn")
        a0 = lv(strip_casts(cfg.resolve(c["a"][0]))) if c.get("a") else None
        if nm == "echs_instant_all_day_p":
            v = store.get("%s.H" % a0)
            return None if v is None else int(v == 0xff)
        if nm == "echs_instant_all_sec_p":
            v = store.get("%s.ms" % a0)
            return None if v is None else int(v == 0x3ff)
        if nm == "echs_instant_to_epoch":
            vals = tuple(store.get("%s.%s" % (a0, k_)) for k_ in FL[:6])
            return None if None in vals else _epoch_walk(prog, vals)
        return None
    for c in cases:
        init = {"%s.%s" % (ip, k_): v_ for k_, v_ in zip(FL, c + (0,))}
        outs = []

        def effect(b, i, x, store, outs=outs):
            if isinstance(x, dict) and x.get("k") == "ret" and x.get("e") is not None:
                outs.append(eval_in(store, cfg.resolve(x["e"]), f, call_eval))
            return None
        AbsWalk(f, {l_["n"] for l_ in f.locals}, init=init, effect=effect, call_eval=call_eval, max_states=5000).run()
        if len(set(outs)) != 1 or outs[0] is None:
            raise AnalysisBroken("instant_to_tstamp(%s): no single result (%s)" % (c, outs[:2]))
        allday = c[3] == 0xff
        want = calendar.timegm((c[0], c[1], c[2], 0 if allday else c[3], c[4], c[5], 0, 0, 0))
        if outs[0] != want:
            bad.append(("%04d-%02d-%02d%s" % (c[0], c[1], c[2], " (all day)" if allday else "T%02d:%02d:%02d" % c[3:6]), outs[0], want))
    key = "instant_to_tstamp/agrees-with-the-calendar"
    if bad:
        rep.fail(rid, key, f.loc(), "%d of %d instants are armed for another second than theirs, e.g. %s" % (len(bad), len(cases), "; ".join(
            "%s is armed for %s instead of %d (%+d s)" % (b_[0], b_[1], b_[2], b_[1] - b_[2]) for b_ in bad[:3])), {"examples": [list(b_) for b_ in bad[:20]]})
    else:
        rep.ok(rid, key, f.loc(), "%d instants (timed and all-day) are armed for their own second" % len(cases))


def _walk_fn(prog, g, args, depth=0, whole=False):
    """Value of g(args) by a value-fixed walk of g: an argument is a number or, for an instant passed by value, a dict of its members;
    constant tables of g's unit are in the store, calls of other functions of the unit are walked the same way.  None when the paths
    do not agree on one result."""
    from ..absw import AbsWalk, eval_in
    if depth > 4 or not g.cfg or len(args) != len(g.params):
        return None
    cfg = g.cfg
    init = {}
    for p_, a in zip(g.params, args):
        if isinstance(a, dict):
            init.update({"%s.%s" % (p_["n"], k_): v_ for k_, v_ in a.items()})
        else:
            init[p_["n"]] = a
    for name, tl in prog.tables.items():
        for t in tl:
            if t["file"] == g.file:
                vals = table_py(t)
                if isinstance(vals, list) and all(isinstance(v_, int) for v_ in vals):
                    init.update({"%s[%d]" % (name, k_): v_ for k_, v_ in enumerate(vals)})
    FL = ("y", "m", "d", "H", "M", "S", "ms")

    def call_eval(c, store):
        nm = c.get("fn")
        if nm in ("__builtin_clz", "__builtin_clzl", "__builtin_clzll", "__builtin_ctz", "__builtin_ctzl", "__builtin_ctzll",
                  "__builtin_popcount", "__builtin_popcountl", "__builtin_popcountll") and c.get("a"):
            v = eval_in(store, cfg.resolve(c["a"][0]), g, call_eval)
            if v is None:
                return None
            w_ = 32 if not nm.endswith("l") else 64
            v &= (1 << w_) - 1
            if "popcount" in nm:
                return bin(v).count("1")
            if v == 0:
                return None         # undefined in C
            return (w_ - v.bit_length()) if "clz" in nm else ((v & -v).bit_length() - 1)
        if not nm or not prog.has_fn(nm, g.file):
            return None
        h = prog.fn(nm, g.file)
        av = []
        for a in c.get("a", []):
            a_ = strip_casts(cfg.resolve(a))
            v = eval_in(store, a_, g, call_eval)
            if v is None and a_.get("k") in ("ref", "mem"):
                v = {k_: store.get("%s.%s" % (lv(a_), k_)) for k_ in FL}
                if None in v.values():
                    return None
            if v is None:
                return None
            av.append(v)
        return _walk_fn(prog, h, av, depth + 1)
    outs = []

    def effect(b, i, x, store):
        if isinstance(x, dict) and x.get("k") == "ret" and x.get("e") is not None:
            e = strip_casts(cfg.resolve(x["e"]))
            if e.get("k") == "init" and e.get("fs"):
                if whole:       # an aggregate returned by value: all its members, in the order they are written
                    outs.append(tuple(eval_in(store, x_[1], g, call_eval) for x_ in e["fs"]))
                    return None
                e = e["fs"][0][1]
            outs.append(eval_in(store, e, g, call_eval))
        return None
    AbsWalk(g, {l_["n"] for l_ in g.locals} | {p_["n"] for p_ in g.params}, init=init, effect=effect, call_eval=call_eval, max_states=20000).run()
    if len(set(outs)) != 1:
        return None
    return outs[0]


def r08_12(prog, rep, rid="R08.12"):
    """The difference of two instants in milliseconds: echs_instant_diff() and the helpers it counts days with are walked for pairs of
    instants — the same year on both sides of a leap day, across year ends, decades apart, reversed, with every borrow of the time of
    day — and compared with the calendar; each difference added back to its start must give the end (R08.9 decides the addition)."""
    f = prog.fn("echs_instant_diff", "instant.c")
    pts = [(1901, 1, 1, 0, 0, 0, 0), (1904, 2, 28, 23, 59, 59, 999), (1904, 3, 1, 0, 0, 0, 0), (1999, 12, 31, 23, 59, 59, 0), (2000, 1, 1, 0, 0, 0, 0),
           (2000, 2, 29, 12, 0, 0, 0), (2000, 3, 1, 12, 0, 0, 0), (2024, 2, 20, 10, 0, 0, 0), (2024, 3, 2, 10, 0, 0, 0), (2024, 12, 31, 0, 0, 0, 1),
           (2025, 1, 1, 6, 30, 15, 500), (2025, 2, 28, 6, 30, 15, 499), (2025, 3, 1, 18, 0, 0, 0), (2099, 12, 31, 23, 59, 59, 999)]
    if _TIER == "thorough":
        import calendar as _cal
        pts = pts + [(y_, m_, d_, 7, 8, 9, 10) for y_ in (2023, 2024) for m_ in range(1, 13) for d_ in (1, _cal.monthrange(y_, m_)[1])] + \
            [(1950, 6, 15, 0, 0, 0, 0), (1972, 2, 29, 23, 59, 59, 999), (2096, 2, 29, 0, 0, 0, 0)]
    n = 0
    bad = []
    for a in pts:
        for b in pts:
            ta = datetime.datetime(*a[:6], a[6] * 1000)
            tb = datetime.datetime(*b[:6], b[6] * 1000)
            want = (ta - tb) // datetime.timedelta(milliseconds=1)
            got = _walk_fn(prog, f, [dict(zip(("y", "m", "d", "H", "M", "S", "ms"), a)), dict(zip(("y", "m", "d", "H", "M", "S", "ms"), b))])
            n += 1
            if got != want:
                bad.append(("%04d-%02d-%02dT%02d:%02d:%02d.%03d" % a, "%04d-%02d-%02dT%02d:%02d:%02d.%03d" % b, got, want))
    key = "echs_instant_diff/agrees-with-the-calendar"
    if bad:
        rep.fail(rid, key, f.loc(), "%d of %d differences come out wrong, e.g. %s" % (len(bad), n, "; ".join(
            "%s - %s gives %s ms instead of %d (%s day(s) off)" % (b_[0], b_[1], b_[2], b_[3], "?" if b_[2] is None else (b_[2] - b_[3]) // 86400000) for b_ in bad[:3])),
            {"examples": [list(b_) for b_ in bad[:20]]})
    else:
        rep.ok(rid, key, f.loc(), "%d differences (%d instants, every ordered pair) agree with the calendar" % (n, len(pts)))


def r08_13(prog, rep, rid="R08.13"):
    """The other direction of the library's conversion, from unix time to an instant (it stamps journal entries and DTSTAMPs and tells
    the daemon what `now` is): __epoch_to_inst() is walked for the first and the last second of days around every month end of a common
    and a leap year, of the years on both sides of the 2038 limit and of the ends of the range from 1970 on, and compared with the
    calendar; each result converted back (R08.10) gives the second it came from."""
    import calendar
    f = prog.fn("__epoch_to_inst", "tzob.c")
    days = [(1970, 1, 1), (1970, 2, 28), (1970, 3, 1), (1971, 2, 28), (1971, 3, 1), (1972, 2, 28), (1972, 2, 29), (1972, 3, 1), (1999, 12, 31),
            (2000, 1, 1), (2000, 2, 29), (2000, 3, 1), (2001, 3, 1), (2037, 12, 31), (2038, 1, 19), (2038, 1, 20), (2096, 2, 29), (2099, 12, 31)]
    days += [(y, m, d) for y in (2023, 2024) for m in range(1, 13) for d in (1, calendar.monthrange(y, m)[1])]
    if _TIER == "thorough":
        days += [(y, m, d) for y in range(1970, 2100) for m in range(1, 13) for d in (1, calendar.monthrange(y, m)[1]) if (y, m, d) not in days]
    from ..absw import AbsWalk, eval_in
    cfg = f.cfg
    tp = f.params[0]["n"]
    resv = [l_["n"] for l_ in f.locals if "echs_instant" in (l_.get("t") or "")]
    FL = ("y", "m", "d", "H", "M", "S")
    bad = []
    n = 0
    for (y, m, d) in days:
        for hms in ((0, 0, 0), (23, 59, 59), (12, 34, 56)):
            t = calendar.timegm((y, m, d) + hms + (0, 0, 0))
            outs = []

            def effect(b, i, x, store, outs=outs):
                if isinstance(x, dict) and x.get("k") == "ret" and x.get("e") is not None:
                    e = lv(strip_casts(cfg.resolve(x["e"])))
                    outs.append(tuple(store.get("%s.%s" % (e, k_)) for k_ in FL))
                return None
            AbsWalk(f, {l_["n"] for l_ in f.locals} | {tp} | {"%s.%s" % (r_, k_) for r_ in resv for k_ in FL + ("ms",)}, init={tp: t}, effect=effect,
                    max_states=20000).run()
            n += 1
            if len(set(outs)) != 1:
                raise AnalysisBroken("__epoch_to_inst(%d): no single result (%s)" % (t, outs[:2]))
            if outs[0] != (y, m, d) + hms:
                bad.append((t, "%04d-%02d-%02dT%02d:%02d:%02d" % ((y, m, d) + hms), outs[0]))
    key = "__epoch_to_inst/agrees-with-the-calendar"
    if bad:
        rep.fail(rid, key, f.loc(), "%d of %d unix times become another instant than theirs, e.g. %s" % (len(bad), n, "; ".join(
            "%d (%s) becomes %s" % (b_[0], b_[1], "-".join(str(v_) for v_ in b_[2][:3])) for b_ in bad[:3])), {"examples": [[b_[0], b_[1], list(b_[2])] for b_ in bad[:20]]})
    else:
        rep.ok(rid, key, f.loc(), "%d unix times from 1970 on become the calendar's instant" % n)


def run(prog, rep, tier, snap):
    global _TIER
    _TIER = tier
    rep.rule("R08.1", "64-bit evaluation of millisecond quantities", 6)
    rep.call(r08_1, prog, rep)
    rep.rule("R08.2", "calendar tables, unit macros, leap predicates and epoch constants agree", 15)
    rep.call(r08_2, prog, rep)
    rep.rule("R08.3", "sentinels fit their bit-fields; field widths and order", 4)
    rep.call(r08_3, prog, rep)
    rep.rule("R08.4", "March-based table implies a year carry for months < 3 (both directions)", 2)
    rep.call(r08_4, prog, rep)
    rep.rule("R08.5", "every month wrap carries the year (sibling pattern over all wrap sites)", 12)
    rep.call(r08_5, prog, rep)
    rep.rule("R08.6", "a borrow of a whole time unit is paired with its carry", 1)
    rep.call(r08_6, prog, rep)
    rep.rule("R08.7", "year and month of one date are computed from the same state of a stepped index", 1)
    rep.call(r08_7, prog, rep)
    from ..rules import state
    rep.rule("R08.8", "the time conversions carry no state from one call to the next", 1)
    rep.call(state.no_carried_state, prog, rep, "R08.8", "time")
    rep.rule("R08.9", "echs_instant_add() agrees with the calendar across year ends and leap days (value-fixed walk)", 1)
    rep.call(r08_9, prog, rep)
    rep.rule("R08.10", "the library's instant -> unix time conversion over 1901..2099, both sides of 1970 and 2038 (value-fixed walk)", 2)
    rep.call(r08_10, prog, rep)
    rep.rule("R08.12", "echs_instant_diff() agrees with the calendar on both sides of leap days and year ends (value-fixed walk)", 1)
    rep.call(r08_12, prog, rep)
    rep.rule("R08.13", "unix time -> instant agrees with the calendar from 1970 on (value-fixed walk)", 1)
    rep.call(r08_13, prog, rep)
    rep.rule("R08.11", "the daemon's wake-up time of an instant agrees with the calendar, all-day instants at the start of their day (value-fixed walk)", 1)
    rep.call(r08_11, prog, rep)
READY = True

# texts brought up to date with the rules added in the last rounds
LEVEL_TEXT = LEVEL_TEXT + " Added later, deciding the arithmetic itself for finite sets of arguments by value-fixed walks in the compiler's types: echs_instant_add() over 1 048 additions across year ends and leap days, echs_instant_diff() over every ordered pair of 14 instants, the library's instant -> unix time conversion over 1901..2099 on both sides of 1970 and 2038, unix time -> instant from 1970 on, and the daemon's wake-up time (all-day instants at the start of their day)."
TECHNIQUE = (TECHNIQUE if isinstance(TECHNIQUE, str) else TECHNIQUE) + '; value-fixed walks (constant propagation over clang CFGs with C-typed arithmetic) of the arithmetic and conversion functions'

