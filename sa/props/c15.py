"""C15 — Hijri <-> Gregorian scale conversion is a consistent bijection (structural clauses)."""
import re

from ..facts import walk, strip, strip_casts, lv, show, writes, calls, int_value, table_py
from ..flow import MustFacts, cond_atoms
from ..q import call_sites, const_eval, str_value, forward_scan
from ..absw import AbsWalk
from ..snapshot import AnalysisBroken

UNITS = None
EXPLANATION = (
    "R15.1 exhaustive, agreeing dispatch: the four switches over echs_scale_t (month length, weekday, source and target side of the "
    "rescaler) each handle all 11 enumerators, and for each enumerator the four arms use the same calendar family with the same data "
    "arguments (same table and table length, same SCAL2TYP/SCAL2EPO decoding); the decoding macros applied to each enumerator's value give "
    "the type and epoch its name spells; the serialiser spells every scale by its enumerator's name. R15.2: a conversion that has an "
    "out-of-coverage sentinel return (0 / nil) has that sentinel tested at each call site before the value is used. R15.3: the month-start "
    "tables are strictly increasing (necessary for a monotone day mapping and for the linear scan). R15.4: every read of a month-transition table is dominated by "
    "index-in-range facts on both sides: an exhausted scan (day behind the last transition) and a scan that never advanced (day before the "
    "first month) are rejected, not converted.")
NOT_DECIDED = ("the arithmetic of hij2mjd/mjd2hij/g2mjd/mjd2g: bijection and day-consecutiveness over the 7.3e5 (scale, day) pairs is an "
               "enumeration for a dynamic family; the behaviour itself")
TRUSTED = ["clang 14 parser/CFG builder", "echse-facts extractor", "python rule engines in /verif/sa"]
LEVEL_TEXT = ("Static verdict on necessary structural clauses of C15: the four scale dispatch switches are exhaustive and agree per scale, "
              "out-of-coverage sentinels are tested before use, month-start tables increase strictly. The conversion arithmetic (bijection, "
              "consecutive days, month lengths) is not decided. Also: the conversions carry no state between calls (a memo must be keyed on table, year and month alike).")
LEVEL_NOTE = "Trusted: clang 14 front end/CFG, extractor, rule engines."
TECHNIQUE = "static analysis: per-enumerator path-sensitive walk of the dispatch switches with sibling agreement, sentinel-test dominance, constant-table monotonicity; carried-state / memo-key analysis"

FAMILY = {"__ndim_greg": "greg", "__wday_greg": "greg", "g2mjd": "greg", "mjd2g": "greg",
          "__ndim_hij": "hij", "__wday_hij": "hij", "hij2mjd": "hij", "mjd2hij": "hij",
          "__ndim_ht": "ht", "__wday_ht": "ht", "ht2mjd": "ht", "mjd2ht": "ht"}
ROMAN = {"I": 0, "II": 1, "III": 2, "IV": 3}


def _switches(f, var_is_param=True):
    cfg = f.cfg
    out = []
    for b, blk in sorted(cfg.blocks.items(), reverse=True):
        if blk.term and blk.term["kind"] == "switch":
            out.append((b, lv(cfg.resolve(blk.term.get("on")))))
    return out


def r15_1(prog, rep):
    rid = "R15.1"
    en = prog.enum("echs_scale_t")
    scales = [(n, v) for n, v in en["enumerators"]]
    if len(scales) != 11:
        raise AnalysisBroken("echs_scale_t has %d enumerators" % len(scales))
    # four dispatch roles: month length, weekday, source side (-> mjd) and target side (mjd ->) of the rescaler.  A role is
    # (function, scale variable, class of conversion it selects); the dispatch itself may be a switch, an if-chain or a helper.
    CLASS = {"__ndim_greg": "ndim", "__ndim_hij": "ndim", "__ndim_ht": "ndim", "__wday_greg": "wday", "__wday_hij": "wday", "__wday_ht": "wday",
             "g2mjd": "to", "hij2mjd": "to", "ht2mjd": "to", "mjd2g": "from", "mjd2hij": "from", "mjd2ht": "from"}
    roles = [("echs_scale_ndim", "ndim"), ("echs_scale_wday", "wday"), ("echs_instant_rescale", "to"), ("echs_instant_rescale", "from")]
    sig = {}
    nroles = 0
    for fname, cls in roles:
        f = prog.fn(fname, "scale.c")
        cfg = f.cfg
        svars = [p_["n"] for p_ in f.params if p_.get("t") == "echs_scale_t"] + [l_["n"] for l_ in f.locals if "echs_scale_t" in (l_.get("t") or "")]
        # calls that are the whole initialiser of a scale variable: their result *is* the variable
        initcalls = {}
        for b_, i_, x_, ln_ in cfg.all_elems():
            for l_, kind_, n_ in writes(x_):
                if kind_ == "decl" and lv(l_) in svars and n_.get("init") is not None:
                    ini = strip_casts(cfg.resolve(n_["init"]))
                    if ini.get("k") == "call":
                        initcalls[(ini.get("fn"), ini.get("line"))] = lv(l_)

        def collect(var, val):
            got = []
            got2 = []

            def effect(b, i, x, store, _got=got, _got2=got2):
                for c in calls(x):
                    if c.get("fn") in CLASS:
                        # a helper of the role's own class, or (when the helper was folded into the dispatcher by hand) the
                        # calendar family's conversion it wraps
                        _got = got if CLASS[c["fn"]] == cls else got2
                        args = []
                        for a in c["a"]:
                            ar = strip_casts(cfg.resolve(a))
                            v = const_eval(f, ar)
                            if v is None and ar.get("k") == "ref" and ar.get("dk") in ("global", "slocal"):
                                args.append(ar["n"])
                                continue
                            if v is None:
                                from ..absw import eval_in
                                v = eval_in(store, ar, f)
                            args.append(v if v is not None else show(ar))
                        if (c["fn"], args) not in _got:
                            _got.append((c["fn"], args))
                return None

            def call_eval(c, store):
                if initcalls.get((c.get("fn"), c.get("line"))) == var:
                    return val
                return None
            AbsWalk(f, {var}, init={var: val}, effect=effect, call_eval=call_eval).run()
            return got or (got2 if cls in ("ndim", "wday") else [])
        # the scale variable of this role: the one that selects a single conversion for most scales
        best = None
        for var in svars:
            per = {name: collect(var, val) for name, val in scales}
            score = sum(1 for g in per.values() if len(g) == 1)
            if best is None or score > best[1]:
                best = (var, score, per)
        if best is None or best[1] < 6:
            raise AnalysisBroken("%s: no scale variable selects the %s conversions (best %s)" % (fname, cls, best and best[:2]))
        nroles += 1
        var, _, per = best
        role = "%s/%s(%s)" % (f.name, cls, var)
        for name, val in scales:
            got = per[name]
            key = "%s/%s" % (role, name)
            if len(got) != 1:
                rep.fail(rid, key, f.loc(), "%s handles %s with %s (expected exactly one conversion of one calendar family)" % (role, name, [g[0] for g in got] or "nothing"))
                continue
            sig.setdefault(name, []).append((role, got[0]))
            rep.ok(rid, key, f.loc(), "%s -> %s(%s)" % (name, got[0][0], ", ".join(map(str, got[0][1]))), nontrivial=True)
    if nroles != 4:
        raise AnalysisBroken("expected 4 dispatch roles over the scale, found %d" % nroles)
    # agreement across the four arms
    for name, val in scales:
        arms = sig.get(name, [])
        key = "agreement/%s" % name
        if len(arms) != 4:
            rep.fail(rid, key, "src/scale.c", "%s is handled by %d of the 4 dispatch switches" % (name, len(arms)))
            continue
        fams = {FAMILY[a[1][0]] for a in arms}
        if len(fams) != 1:
            rep.fail(rid, key, "src/scale.c", "%s is dispatched to different calendar families: %s" % (name, sorted((a[0], a[1][0]) for a in arms)))
            continue
        fam = fams.pop()
        want = "greg" if name == "SCALE_GREGORIAN" else ("ht" if name in ("SCALE_HIJRI_UMMULQURA", "SCALE_HIJRI_DIYANET") else "hij")
        if fam != want:
            rep.fail(rid, key, "src/scale.c", "%s is dispatched to the %s family, its name spells %s" % (name, fam, want))
            continue
        if fam == "ht":
            tabs = {a[1][1][0] for a in arms}
            lens = {a[1][1][1] for a in arms}
            tname = "dat_" + name[len("SCALE_HIJRI_"):].lower()
            tlen = None
            for t in prog.tables.get(tname, []):
                tlen = (t.get("extent") or 0) - 2
            if tabs == {tname} and lens == {tlen}:
                rep.ok(rid, key, "src/scale.c", "all four arms use %s with %d month transitions" % (tname, tlen))
            else:
                rep.fail(rid, key, "src/scale.c", "%s: arms use tables %s with lengths %s, expected %s with %s" % (name, sorted(tabs), sorted(lens), tname, tlen))
        elif fam == "hij":
            # decoded (type, epoch) arguments are identical in all arms and match the name
            m = re.fullmatch(r"SCALE_HIJRI_(I|II|III|IV)(A|C)", name)
            want_t, want_e = ROMAN[m.group(1)], {"A": prog.enumerator("EPO_ASTRO"), "C": prog.enumerator("EPO_CIVIL")}[m.group(2)]
            # evaluate the decoding macros on the enumerator's value
            t_ = (val - 1) // 2
            e_ = (val - 1) % 2
            # per arm: the argument bound to a hij_typ_t parameter must be the type, the one bound to hij_epo_t the epoch
            wrong = []
            for role, (fn_, args_) in arms:
                callee = prog.fn(fn_, "scale.c")
                for pi_, p_ in enumerate(callee.params):
                    if pi_ >= len(args_):
                        continue
                    if p_["t"] == "hij_typ_t" and args_[pi_] != want_t:
                        wrong.append("%s passes %s as the type" % (fn_, args_[pi_]))
                    if p_["t"] == "hij_epo_t" and args_[pi_] != want_e:
                        wrong.append("%s passes %s as the epoch" % (fn_, args_[pi_]))
                if not any(p_["t"] == "hij_typ_t" for p_ in callee.params):
                    wrong.append("%s takes no calendar type" % fn_)
            if not wrong and (t_, e_) == (want_t, want_e):
                rep.ok(rid, key, "src/scale.c", "all four arms pass (type %d, epoch %d) = what the name %s spells" % (t_, e_, name))
            else:
                rep.fail(rid, key, "src/scale.c", "%s (type %d, epoch %d by name; SCAL2TYP/SCAL2EPO(%d) = (%d, %d)): %s" % (
                    name, want_t, want_e, val, t_, e_, "; ".join(sorted(set(wrong))) or "decoding macros disagree with the name"))
        else:
            rep.ok(rid, key, "src/scale.c", "all four arms use the Gregorian routines")
    # the decoding macros themselves
    for mname, want in (("SCAL2TYP", "(hij_typ_t) ( ( (x) - 1U) / 2U)"), ("SCAL2EPO", "(hij_epo_t) ( ( (x) - 1U) % 2U)")):
        txt = prog.macro(mname, "scale.c")["text"].replace(" ", "")
        if txt == want.replace(" ", ""):
            rep.ok(rid, "macro/%s" % mname, "src/scale.c", "%s(x) = %s" % (mname, txt))
        else:
            rep.fail(rid, "macro/%s" % mname, "src/scale.c", "%s is `%s`; the per-enumerator evaluation above assumes `%s`" % (mname, txt, want))
    # serialiser spells each scale by its enumerator
    ss = prog.fn("send_scale", "evical.c")
    cfg = ss.cfg
    for blk in cfg.blocks.values():
        if blk.label and blk.label["k"] == "case" and blk.label.get("lo"):
            name = [n for n, v in scales if v == blk.label["lo"]]
            texts = [str_value(prog, ss, c["a"][0]) for e in blk.elems for c in calls(e["x"]) if c.get("fn") == "fdwrite"]
            if name and texts:
                want = ";SCALE=HIJRI." + name[0][len("SCALE_HIJRI_"):]
                key = "send_scale/%s" % name[0]
                if texts == [want]:
                    rep.ok(rid, key, ss.loc(blk.label.get("line")), "written as %s" % want)
                else:
                    rep.fail(rid, key, ss.loc(blk.label.get("line")), "%s is written as %s, expected %s" % (name[0], texts, want))


def r15_2(prog, rep):
    rid = "R15.2"
    f = prog.fn("echs_instant_rescale", "scale.c")
    cfg = f.cfg
    mf = MustFacts(cfg)
    sentinel = {}
    for name in ("ht2mjd", "mjd2ht", "mjd2g", "mjd2hij", "hij2mjd", "g2mjd"):
        g = prog.fn(name, "scale.c")
        has = False
        for b, i, x, line in g.cfg.all_elems():
            if isinstance(x, dict) and x.get("k") == "ret":
                e = strip_casts(g.cfg.resolve(x["e"]))
                if const_eval(g, e) == 0 or (e.get("k") == "init" and all(p[1] is None or const_eval(g, p[1]) == 0 for p in e["fs"])):
                    has = True
        sentinel[name] = has
    n = 0
    for b, i, c, line in f.all_calls():
        fn = c.get("fn")
        if fn not in sentinel or not sentinel[fn]:
            continue
        n += 1
        # variable receiving the result
        var = None
        for l, kind, nn in writes(cfg.resolve(cfg.blocks[b].elems[i + 1]["x"])) if i + 1 < len(cfg.blocks[b].elems) else []:
            var = lv(l)
        key = "echs_instant_rescale/%s#%s" % (fn, lv(cfg.resolve(c["a"][0])))
        if var is None:
            rep.fail(rid, key, f.loc(line), "result of %s is not stored" % fn)
            continue
        # every path from here to a use of the result (other than the test itself) must pass a zero test of it (or of its .y) whose
        # sentinel edge never uses it; the result may travel through plain copies (`tgg = __ret_helper`)
        chain = {var}
        copies = set()
        grew = True
        while grew:
            grew = False
            for b_, i_, x_, ln_ in cfg.all_elems():
                for l_, kind_, n_ in writes(x_):
                    rhs = n_.get("init") if kind_ == "decl" else (n_.get("r") if n_.get("k") == "bin" and n_["op"] == "=" else None)
                    if rhs is None:
                        continue
                    r_ = strip_casts(cfg.resolve(rhs))
                    if r_.get("k") == "ref" and r_["n"] in chain and strip_casts(l_).get("k") == "ref":
                        copies.add((b_, i_))
                        if lv(l_) not in chain:
                            chain.add(lv(l_))
                            grew = True

        def uses_chain(x_):
            return any(n_.get("k") == "ref" and n_["n"] in chain for n_ in walk(cfg.resolve(x_)))
        tests = {}
        for bb in cfg.blocks:
            cc = cfg.cond(bb)
            if cc is None:
                continue
            for a in cond_atoms(cc, True):
                if len(a) == 3 and a[0] == "false" and any(a[1] == v_ or a[1] == v_ + ".y" for v_ in chain):
                    # true edge (== sentinel) must not reach a use of the result
                    # (walked with the integer locals followed as constants: a helper's `return -1` on the sentinel edge and the
                    # caller's `if (rc < 0) goto nul` are one path, not two independent branches)
                    uses = []

                    def eff(b_, i_, x_, store, _u=uses):
                        if uses_chain(x_) and (b_, i_) not in copies:
                            _u.append((b_, i_))
                        return None
                    ints = {l_["n"] for l_ in f.locals if (l_.get("t") or "").replace("const ", "") in ("int", "unsigned int", "long", "bool", "_Bool")}
                    AbsWalk(f, ints, effect=eff).run(start_block=cfg.blocks[bb].succs[0])
                    if not uses:
                        blk = cfg.blocks[bb]
                        dep = {len(blk.elems) - 1}
                        for j in range(len(blk.elems) - 1, -1, -1):
                            if j in dep:
                                dep |= {n_["i"] for n_ in walk(blk.elems[j]["x"]) if n_.get("k") == "elem" and n_["b"] == bb}
                        tests[bb] = min(dep)

        def visit(b_, i_, x_):
            if b_ in tests and i_ >= tests[b_]:
                return "stop"
            if (b_, i_) in copies:
                return None
            if any(lv(l_) in chain and k_ == "assign" for l_, k_, n_ in writes(x_)):
                return "stop"   # the carrier is overwritten by another result
            return "hit" if uses_chain(x_) else None
        hits, _ = forward_scan(cfg, (b, i + 1), visit)
        tested = bool(tests) and not hits
        if tested:
            rep.ok(rid, key, f.loc(line), "%s's out-of-coverage sentinel is tested on %s before the value is used" % (fn, var))
        else:
            rep.fail(rid, key, f.loc(line), "%s returns 0/nil for dates outside the table's coverage but the result %s is used without a test: "
                     "such dates are mapped to MJD 0 (1858-11-17) instead of being rejected" % (fn, var))
    if n < 4:
        rep.broken_("rule=R15.2 expected >=4 call sites of sentinel-returning conversions, found %d" % n)


def r15_6(prog, rep):
    """The zone and scale tags live in the top bits of an instant's month and day bytes.  echs_instant_rescale() reads y/m/d to convert
    them: the instant it reads them from must have had *both* tags detached (with the zone tag left on, the day comes out 64 too large)."""
    rid = "R15.6"
    f = prog.fn("echs_instant_rescale", "scale.c")
    cfg = f.cfg
    srcs = set()
    for b, i, x, line in cfg.all_elems():
        if not isinstance(x, dict):
            continue
        for nn in walk(cfg.resolve(x)):
            if nn.get("k") == "mem" and nn.get("f") in ("y", "m", "d") and not nn.get("arrow"):
                base = strip_casts(nn["b"])
                while base.get("k") == "mem" and not base.get("f") and not base.get("arrow"):     # anonymous struct inside the union
                    base = strip_casts(base["b"])
                if base.get("k") == "ref" and "echs_instant_t" in (base.get("t") or ""):
                    srcs.add(base["n"])
    n = 0
    for v in sorted(srcs):
        fns = set()

        def chase(name, depth=0):
            for b2, i2, x2, l2 in cfg.all_elems():
                if not isinstance(x2, dict):
                    continue
                for l, kind, nn in writes(x2):
                    if lv(l) != name:
                        continue
                    rhs = nn.get("init") if kind == "decl" else (nn.get("r") if nn.get("k") == "bin" and nn["op"] == "=" else None)
                    if rhs is None:
                        continue
                    for q in walk(cfg.resolve(rhs)):
                        if q.get("k") == "call" and q.get("fn"):
                            fns.add(q["fn"])
                        if q.get("k") == "ref" and q.get("dk") == "local" and q["n"] != name and depth < 3:
                            chase(q["n"], depth + 1)
        chase(v)
        is_param = any(p_["n"] == v for p_ in f.params)
        n += 1
        key = "echs_instant_rescale/reads-date-of(%s)" % v
        need = {"echs_instant_detach_scale", "echs_instant_detach_tzob"}
        if not is_param and need <= fns:
            rep.ok(rid, key, f.loc(), "y/m/d are read from %s, which has had scale and zone tag detached" % v)
        else:
            rep.fail(rid, key, f.loc(), "y/m/d are read from %s, which has not had %s applied: the tag bits that live in the top of the month/day bytes "
                     "are converted as part of the date (a zone-tagged instant comes out 64 days or 16 months off)" % (v, " and ".join(sorted(need - fns)) or "both detach functions"))
    if n < 1:
        rep.broken_("rule=R15.6 no read of the date fields in echs_instant_rescale found")


def _range(x, f, depth=0):
    """Interval [lo, hi] of a small non-negative arithmetic expression, None when unknown."""
    x = strip_casts(f.cfg.resolve(x)) if isinstance(x, dict) else x
    if not isinstance(x, dict) or depth > 12:
        return None
    v = const_eval(f, x)
    if v is not None:
        return (v, v)
    k = x.get("k")
    if k == "bin" and x["op"] == "%":
        m = const_eval(f, x["r"])
        if m and m > 0:
            return (0, m - 1)
    if k == "bin" and x["op"] in ("+", "-"):
        a, b = _range(x["l"], f, depth + 1), _range(x["r"], f, depth + 1)
        if a and b:
            return (a[0] + b[0], a[1] + b[1]) if x["op"] == "+" else (a[0] - b[1], a[1] - b[0])
    if k == "cond":
        c = _range(x["c"], f, depth + 1)
        fb = _range(x["F"], f, depth + 1)
        if x.get("T") is None:      # a ?: b  — a when non-zero, else b
            if c and fb:
                lo = min(max(c[0], 1), fb[0]) if c[1] >= 1 else fb[0]
                return (lo, max(c[1], fb[1]))
            return None
        tb = _range(x["T"], f, depth + 1)
        if tb and fb:
            return (min(tb[0], fb[0]), max(tb[1], fb[1]))
    if k == "ref" and x.get("dk") == "local":
        defs = []
        for b2, i2, x2, l2 in f.cfg.all_elems():
            if isinstance(x2, dict):
                for l, kind, nn in writes(x2):
                    if lv(l) == x["n"]:
                        rhs = nn.get("init") if kind == "decl" else (nn.get("r") if nn.get("k") == "bin" and nn["op"] == "=" else None)
                        defs.append(_range(rhs, f, depth + 1) if rhs is not None else None)
        if defs and all(defs):
            return (min(d[0] for d in defs), max(d[1] for d in defs))
    return None


def r15_7(prog, rep):
    """Weekdays are MON=1 .. SUN=7; 0 is MIR, `no such day`.  A weekday computed as a remainder modulo 7 must be moved into 1..7
    (`+ 1`, or `?: SUN`) before it is returned — a bare remainder says MIR for one day of every week."""
    rid = "R15.7"
    n = 0
    for f in prog.fns_in("scale.c"):
        if not f.cfg or (f.ret or {}).get("t") != "echs_wday_t":
            continue
        for b, i, x, line in f.cfg.all_elems():
            if not (isinstance(x, dict) and x.get("k") == "ret" and x.get("e") is not None):
                continue
            e = strip_casts(f.cfg.resolve(x["e"]))
            if e.get("k") == "call" or int_value(e) is not None:
                continue    # dispatch to another weekday function / constant (MIR for unknown scales)
            rg = _range(e, f)
            if rg is None:
                continue
            n += 1
            key = "%s/weekday-in-1..7@%s" % (f.name, line)
            if rg[0] >= 1 and rg[1] <= 7:
                rep.ok(rid, key, f.loc(line), "returned weekday lies in [%d, %d]" % rg)
            else:
                rep.fail(rid, key, f.loc(line), "the returned weekday `%s` ranges over [%d, %d]: %s is not a weekday (MON=1 .. SUN=7, 0 means `no such day`), "
                         "one day of every week gets no weekday and BYDAY never matches it" % (show(e)[:50], rg[0], rg[1], rg[0] if rg[0] < 1 else rg[1]))
    if n < 2:
        rep.broken_("rule=R15.7 expected >=2 computed weekday results in scale.c, found %d" % n)


def _may_wrap(f, v):
    """Can the unsigned local/parameter v hold a value near 2^32?  Not if all its definitions are constants and upward steps (a counting
    index); yes if it is a parameter or defined by an expression that subtracts something that is not a constant."""
    decl = [l_ for l_ in f.locals if l_["n"] == v] + [p_ for p_ in f.params if p_["n"] == v]
    if decl and decl[0].get("s"):
        return False        # signed: handled by the lower-bound clause
    if any(p_["n"] == v for p_ in f.params):
        return True
    cfg = f.cfg
    for b, i, x, line in cfg.all_elems():
        if not isinstance(x, dict):
            continue
        for l, kind, nn in writes(x):
            if lv(l) != v:
                continue
            if kind == "incdec":
                if "--" in nn.get("op", ""):
                    return True
                continue
            rhs = nn.get("init") if kind == "decl" else nn.get("r")
            if rhs is None:
                continue
            if kind == "compound" and nn.get("op") == "-=":
                return True
            for q in walk(f.expand(cfg.resolve(rhs))):
                if q.get("k") == "bin" and q["op"] == "-" and int_value(q["r"]) is None:
                    return True
                if q.get("k") == "call":
                    return True
    return False


def r15_4(prog, rep):
    """Every index into a month-transition table is dominated by index < number-of-months (the out-of-coverage test is the
    exact negation of what the table access needs)."""
    rid = "R15.4"
    n = 0
    for name in ("ht2mjd", "mjd2ht", "__ndim_ht", "__wday_ht"):
        if not prog.has_fn(name, "scale.c"):
            continue
        f = prog.fn(name, "scale.c")
        cfg = f.cfg
        if len(f.params) < 2:
            continue
        cal, nm = f.params[0]["n"], f.params[1]["n"]
        mf = MustFacts(cfg)
        seen = 0
        for b, i, x, line in cfg.all_elems():
            for nn in walk(x):
                if nn.get("k") == "idx":
                    base = strip_casts(nn["b"])
                    if base.get("k") == "bin" and base["op"] == "+" and lv(base["l"]) == cal:
                        idx = strip_casts(nn["i"])
                        n += 1
                        seen += 1
                        key = "%s/MT[%s]#%d" % (name, show(idx), seen)
                        facts = mf.at(b, i) or set()
                        # the index itself, or (for i - 1) its base variable, must be known < nm
                        def off(e):
                            """(variable, constant offset) of `v`, `v + c`, `v - c`."""
                            e = strip_casts(e)
                            if e.get("k") == "bin" and e["op"] in "+-" and int_value(e["r"]) is not None:
                                return lv(strip_casts(e["l"])), int_value(e["r"]) * (1 if e["op"] == "+" else -1)
                            return lv(e), 0
                        v_, c_ = off(idx)
                        ok = False
                        wraps = []
                        for fx in facts:
                            if fx[0] != "lt" or fx[2] != nm:
                                continue
                            mm = re.fullmatch(r"\((\w+) ([+-]) (\d+)\)", fx[1])
                            fv, fc = (mm.group(1), int(mm.group(3)) * (1 if mm.group(2) == "+" else -1)) if mm else (fx[1], 0)
                            # v + fc < nm bounds v + c for every c <= fc — unless v + fc can wrap: an unsigned v that is the result of
                            # a subtraction may be 2^32 - fc .. 2^32 - 1, then v + fc is a small number that passes the test while
                            # v + c (c < fc) is a huge index.  A counting index (constant start, stepped upwards) cannot get there.
                            if fv == v_ and c_ <= fc:
                                if c_ < fc and c_ >= 0 and _may_wrap(f, v_):
                                    wraps.append((fx, fc))
                                else:
                                    ok = True
                        low = True
                        # a signed index needs its own lower bound (an unsigned one wraps to a huge value that the upper test rejects)
                        decl = [l_ for l_ in f.locals if l_["n"] == v_] + [p_ for p_ in f.params if p_["n"] == v_]
                        if decl and decl[0].get("s") and c_ >= 0:
                            low = any(fx in facts for fx in (("le", "0", v_), ("lt", "-1", v_), ("le", str(-c_), v_)))
                            if not low and ok:
                                rep.fail(rid, key, f.loc(nn.get("line", line)),
                                         "the table index %s is a signed %s and is only bounded above: a month before the table's first one gives a negative "
                                         "index that passes `%s < %s` and reads the header words in front of the data as month starts" % (v_, decl[0].get("t"), v_, nm))
                                continue
                        if c_ < 0:
                            # v - c needs v >= c: for c == 1 any proof that v is non-zero
                            low = c_ == -1 and any(
                                fx in facts for fx in (("true", v_), ("ne", v_, "0"), ("lt", "0", v_), ("le", "1", v_)))
                        if not ok and wraps:
                            rep.fail(rid, key, f.loc(nn.get("line", line)),
                                     "the table is read at [%s]; the only bound on the way is `%s + %d < %s`, and %s is an unsigned difference: for the month "
                                     "just before the table's first one it is 2^32 - %d, `%s + %d` wraps to %d and passes, and [%s] is an index of four "
                                     "thousand million — a read far outside the table (SIGSEGV) instead of a rejected date" % (
                                         show(idx), v_, wraps[0][1], nm, v_, wraps[0][1] - c_ if wraps[0][1] - c_ > 0 else 1, v_, wraps[0][1],
                                         c_, show(idx)))
                            continue
                        if ok and not low:
                            rep.fail(rid, key, f.loc(nn.get("line", line)),
                                     "the month-transition table is read at [%s] without `%s >= %d` on every path: a day before the table's first month "
                                     "reads the table's header word as a month start and is converted to a wrong date instead of being rejected" % (
                                         show(idx), v_, -c_))
                        elif ok:
                            rep.ok(rid, key, f.loc(nn.get("line", line)), "index %s within [0, %s) on every path" % (show(idx), nm))
                        elif c_ < 0:
                            rep.fail(rid, key, f.loc(nn.get("line", line)),
                                     "the scan index %s is used (table read at [%s]) without `%s < %s` on every path: an exhausted scan means the day lies on or "
                                     "behind the last transition, in a month whose end the table does not know; it is converted instead of rejected" % (
                                         v_, show(idx), v_, nm))
                        else:
                            rep.fail(rid, key, f.loc(nn.get("line", line)),
                                     "the month-transition table is read at [%s] without `%s < %s` on every path: dates just outside the table's coverage are "
                                     "converted from whatever lies behind the table instead of being rejected" % (show(idx), show(idx), nm))
    if n < 5:
        rep.broken_("rule=R15.4 expected >=5 table accesses, found %d" % n)


def r15_3(prog, rep):
    rid = "R15.3"
    for tname in ("dat_ummulqura", "dat_diyanet"):
        ts = prog.tables.get(tname, [])
        if not ts:
            rep.fail(rid, tname, "src/%s.c" % tname, "table not found")
            continue
        v = table_py(ts[0])
        mt = v[2:]
        bad = [(i, mt[i], mt[i + 1]) for i in range(len(mt) - 1) if not mt[i] < mt[i + 1]]
        steps = sorted({mt[i + 1] - mt[i] for i in range(len(mt) - 1)})
        if not bad and len(mt) > 1000:
            rep.ok(rid, tname, "src/%s.c" % tname, "%d month starts strictly increasing; month lengths seen %s" % (len(mt), steps))
        else:
            rep.fail(rid, tname, "src/%s.c" % tname, "month-start table not strictly increasing at %s (or too short: %d)" % (bad[:3], len(mt)))
        odd = [s for s in steps if s not in (29, 30)]
        if odd:
            rep.note(rid, tname + "/month-lengths", "src/%s.c" % tname, "information: month lengths other than 29/30 occur: %s" % odd)


_INTERCALARY = {   # the four tabular variants (years of the 30-year cycle with a 30th day in the twelfth month)
    0: (2, 5, 7, 10, 13, 15, 18, 21, 24, 26, 29),
    1: (2, 5, 7, 10, 13, 16, 18, 21, 24, 26, 29),
    2: (2, 5, 8, 10, 13, 16, 19, 21, 24, 27, 29),
    3: (2, 5, 8, 11, 13, 16, 19, 21, 24, 27, 30),
}
_TYPN = ("I", "II", "III", "IV")


def r15_8(prog, rep, tier="quick"):
    """The arithmetic (tabular) Hijri scales: hij2mjd(), mjd2hij() and __hij_inty_p() are walked with fixed arguments — every
    variant, both epochs, whole 30-year cycles, the first and last days of every month (thorough: every day of two cycles) — and
    compared with the tabular calendar: consecutive dates get consecutive day numbers, the day number converts back to the date it
    came from, and the twelfth month has 30 days exactly in the variant's intercalary years.  Nothing of echse runs."""
    from .c08 import _walk_fn
    rid = "R15.8"
    try:
        h2m = prog.fn("hij2mjd", "scale.c")
        m2h = prog.fn("mjd2hij", "scale.c")
        inty = prog.fn("__hij_inty_p", "scale.c")
    except Exception:
        rep.broken(rid, "scale.c: hij2mjd / mjd2hij / __hij_inty_p not found")
        return
    y0, y1 = (1381, 1441) if tier == "thorough" else (1411, 1441)
    epos = (0, 1) if tier == "thorough" else (0,)

    def leap(t, y):
        return ((y - 1) % 30 + 1) in _INTERCALARY[t]
    classes = {}    # key -> [examples]
    n = 0

    def bad(key, loc, ex):
        classes.setdefault((key, loc), []).append(ex)
    for t in range(4):
        # (c) the intercalary years
        for y in range(1, 61):
            got = _walk_fn(prog, inty, [t, 0, y])
            n += 1
            if got is None or bool(got) != leap(t, y):
                cls = "year-of-cycle-%d" % ((y - 1) % 30 + 1)
                bad("__hij_inty_p/type-%s/%s" % (_TYPN[t], cls), inty.loc(),
                    "year %d of type %s: %s, the tabular calendar says %s" % (y, _TYPN[t], "undecided" if got is None else ("intercalary" if got else "common"), "intercalary" if leap(t, y) else "common"))
        for e in epos:
            base = None
            want = 0
            for y in range(y0, y1 + 1):
                for m in range(1, 13):
                    nd = 29 + (m % 2) + (1 if (m == 12 and leap(t, y)) else 0)
                    days = range(1, nd + 1) if tier == "thorough" else sorted({1, 2, nd - 1, nd})
                    for d in days:
                        j = _walk_fn(prog, h2m, [t, e, {"y": y, "m": m, "d": d}])
                        n += 1
                        w = want + d - 1
                        if base is None and j is not None:
                            base = j - w
                        cyc = "year=0-mod-30" if y % 30 == 0 else ("year=%d-mod-30" % (y % 30) if (m == 12 and d == 30) else "other-years")
                        day = "dhu-al-hijja-30" if (m == 12 and d == 30) else "any-day"
                        if j is None or j - base != w:
                            bad("hij2mjd/type-%s/%s/%s" % (_TYPN[t], "year=0-mod-30" if y % 30 == 0 else "other-years", day), h2m.loc(),
                                "%d-%02d-%02d (type %s, epoch %d) gets day number %s, %s expected from %d-01-01" % (y, m, d, _TYPN[t], e, j, base + w if base is not None else "?", y0))
                            jj = base + w if base is not None else None
                        else:
                            jj = j
                        if jj is None:
                            continue
                        back = _walk_fn(prog, m2h, [t, e, jj], whole=True)
                        n += 1
                        if back != (y, m, d):
                            bad("mjd2hij/type-%s/%s/%s" % (_TYPN[t], "year=0-mod-30" if y % 30 == 0 else "other-years", day), m2h.loc(),
                                "day number %d (%d-%02d-%02d, type %s, epoch %d) converts back to %s" % (jj, y, m, d, _TYPN[t], e, "nothing definite" if back is None else "%s-%s-%s" % back))
                    want += nd
    for (key, loc), exs in sorted(classes.items()):
        rep.fail(rid, key, loc, "%d case(s) disagree with the tabular calendar, e.g. %s" % (len(exs), "; ".join(exs[:3])), {"examples": exs[:20]})
    keys = {k for k, _ in classes}
    for t in range(4):
        for fn_, f_ in (("hij2mjd", h2m), ("mjd2hij", m2h), ("__hij_inty_p", inty)):
            if not any(k.startswith("%s/type-%s/" % (fn_, _TYPN[t])) for k in keys):
                rep.ok(rid, "%s/type-%s" % (fn_, _TYPN[t]), f_.loc(), "agrees with the tabular calendar on every walked date (years %d..%d%s)" % (y0, y1, ", every day" if tier == "thorough" else ", month ends"))
    rep.note(rid, "walks", h2m.loc(), "information: %d value-fixed walks" % n)


def run(prog, rep, tier, snap):
    rep.rule("R15.1", "exhaustive, agreeing dispatch over the 11 scales in 4 switches; decoding; spelling", 50)
    rep.call(r15_1, prog, rep)
    rep.rule("R15.2", "out-of-coverage sentinels are tested before use", 4)
    rep.call(r15_2, prog, rep)
    rep.rule("R15.3", "month-start tables strictly increasing", 2)
    rep.call(r15_3, prog, rep)
    rep.rule("R15.4", "month-transition table accesses are dominated by index < table length", 5)
    rep.call(r15_4, prog, rep)
    from ..rules import state
    rep.rule("R15.5", "the calendar conversions carry no state from one call to the next (one table's answer never depends on the other's)", 1)
    rep.call(state.no_carried_state, prog, rep, "R15.5", "scale")
    rep.rule("R15.6", "the rescaler reads the date of an instant with both tags detached", 1)
    rep.call(r15_6, prog, rep)
    rep.rule("R15.7", "computed weekdays lie in 1..7", 2)
    rep.call(r15_7, prog, rep)
    rep.rule("R15.8", "the arithmetic Hijri variants agree with the tabular calendar: consecutive day numbers, round trip, intercalary years (value-fixed walks)", 1)
    rep.call(r15_8, prog, rep, tier)
READY = True

LEVEL_TEXT = LEVEL_TEXT + (" The arithmetic (tabular) variants I-IV: hij2mjd(), mjd2hij() and __hij_inty_p() are walked with fixed arguments over whole "
                           "30-year cycles (first and last days of every month; every day in the thorough tier) and agree with the tabular calendar on consecutive "
                           "day numbers, the round trip and the intercalary years (two defects of the pinned tree repaired). Not decided: the epochs' absolute "
                           "position, the table calendars' data, years outside the walked cycles.")
TECHNIQUE = TECHNIQUE + "; value-fixed walks (constant propagation with C's arithmetic, nothing of echse runs) of the tabular conversions against the tabular calendar"
