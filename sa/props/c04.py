"""C04 — daemon runs every future occurrence exactly once, on time, in order (narrow structural clauses)."""
from ..facts import walk, strip, strip_casts, lv, show, writes, calls, int_value, root_var
from ..flow import MustFacts, cond_atoms
from ..q import (Site, call_sites, indirect_call_sites, site_before, forward_scan, backward_scan, const_eval, edge_start,
                 must_pass_to_exit, elem_has_call)
from ..snapshot import AnalysisBroken

UNITS = None
DAEMON = "echsd.c"
EXPLANATION = (
    "Narrow structural clauses of C04. R04.1 arming discipline of the ev_periodic reschedule callback: the returned wake-up time is "
    "instant_to_tstamp() of an event obtained by *peek* after a loop that pops only while the peeked event is strictly earlier than `now`, "
    "with no pop between that peek and the return; the run counter is bumped on the arming path only. R04.2 retirement reachability: both "
    "end-of-stream branches clear reschedule_cb; the never-run branch installs unsched; the child callback retires a finished task; "
    "cancel stops the watcher before freeing; the callbacks registered for a task are task_cb/resched. R04.3 descriptor hygiene: every descriptor "
    "run_task() opens in the daemon is closed again on every feasible path (path-sensitive walk), since a leak per execution eventually "
    "makes later occurrences unstartable.")
NOT_DECIDED = ("exactly-once, on-time and in-order execution under all interleavings of timer expiry, commands and child exits; collapse of missed "
               "occurrences; retirement timing — statements about histories of a libev loop and a clock")
TRUSTED = ["clang 14 parser/CFG builder", "echse-facts extractor", "python rule engines in /verif/sa", "libev ev_periodic semantics"]
LEVEL_TEXT = ("Static verdict on narrow necessary clauses of C04 only: peek-after-strict-unwind arming of the reschedule callback and "
              "reachability of task retirement. The bulk of C04 (histories of timers, commands and child exits) is NOT decided by this check. Also: a cancel is acknowledged only after the watcher has been stopped; the run counter that gates real execution changes only with spawn and child exit (no bulk write over a live task record).")
LEVEL_NOTE = "Trusted: clang 14 front end/CFG, extractor, rule engines, libev's contract for reschedule callbacks. Timing and interleavings are not modelled."
TECHNIQUE = "static analysis: must-pass-through and def-use on clang CFGs of the reschedule/unwind/retire callbacks; bulk-write provenance of task records"

POPS = ("echs_evstrm_pop",)
PEEKS = ("echs_evstrm_next",)


def _callback_regs(prog):
    """Functions stored into reschedule_cb / cb of a periodic watcher: {(field): {fn names}}"""
    regs = {"reschedule_cb": set(), "cb": set()}
    sites = []
    for f in prog.fns_in(DAEMON):
        if not f.cfg:
            continue
        for b, i, x, line in f.cfg.all_elems():
            xr = f.cfg.resolve(x)
            for l, kind, n in writes(xr):
                t = lv(l)
                for fld in regs:
                    if t.endswith("->" + fld) or t.endswith("." + fld):
                        if n.get("k") == "bin":
                            r = strip_casts(n["r"])
                            if r.get("k") == "ref" and r.get("dk") == "fn":
                                regs[fld].add(r["n"])
                                sites.append((f, fld, r["n"], n.get("line", line)))
            # ev_set_cb via memmove(&w->cb, &cb_, sizeof)
            for c in calls(xr):
                if c.get("fn") == "memmove" and "cb" in show(c["a"][0]):
                    for n in walk(c["a"][1]):
                        if n.get("k") == "ref" and n.get("dk") in ("fn",):
                            regs["cb"].add(n["n"])
    return regs, sites


def r04_1(prog, rep):
    rid = "R04.1"
    import re
    from ..inline import with_inlined
    regs, sites = _callback_regs(prog)
    rs = {n for n in regs["reschedule_cb"]}
    if len(rs) != 1:
        raise AnalysisBroken("R04.1: expected one reschedule callback, found %s" % sorted(rs))
    rname = rs.pop()
    f0 = prog.fn(rname, DAEMON)
    now = f0.params[1]["n"]
    # the callback and the helper that unwinds the stream are read as one piece of code: a daemon function called from the callback
    # that peeks/pops the stream is spliced in, so it does not matter whether the unwinding loop lives in a helper or in the callback
    helpers = sorted({c[2]["fn"] for c in f0.all_calls() if c[2].get("fn") and c[2]["fn"] != rname and prog.has_fn(c[2]["fn"], DAEMON) and
                      any(cc[2].get("fn") in POPS + PEEKS for cc in prog.fn(c[2]["fn"], DAEMON).all_calls())})
    if len(helpers) > 1:
        rep.fail(rid, "%s/unwind-call" % rname, f0.loc(), "expected at most one unwinding helper, found %s" % helpers)
        return
    f = with_inlined(prog, f0, helpers)
    label = helpers[0] if helpers else rname + ".unwind"
    cfg = f.cfg
    peeks = call_sites(f, PEEKS)
    pops = call_sites(f, POPS) + [S for S in indirect_call_sites(f, "next")]
    pops = [S for S in pops if S.node.get("fn") in POPS or S.node.get("fn") is None]
    if not peeks or not pops:
        rep.fail(rid, "%s/shape" % label, f.loc(), "expected a peek and a pop of the stream, found %d/%d" % (len(peeks), len(pops)))
        return
    strms = {lv(cfg.resolve(S.node["a"][0])) for S in peeks + pops if S.node.get("fn")}
    if len(strms) != 1 or any(S.node.get("fn") is None for S in pops):
        rep.fail(rid, "%s/same-stream" % label, f.loc(), "peek and pop do not operate on one and the same stream (%s)" % sorted(strms))
        return
    strm = strms.pop()
    rep.ok(rid, "%s/same-stream" % label, f.loc(), "peek and pop both operate on %s" % strm)
    tset = {now} | {l_["n"] for l_ in f.locals if _origin(f, l_["n"]) == {now}}
    if any(s_.endswith("->strm") for s_ in _origin(f, strm) | {strm}):
        rep.ok(rid, "%s/unwind-args" % rname, f.loc(peeks[0].line), "the task's stream is unwound against %s" % now)
    else:
        rep.fail(rid, "%s/unwind-args" % rname, f.loc(peeks[0].line), "the unwound stream %s is not the task's stream" % strm)
    # variables that carry the peeked event: assigned from the peek, or plain copies of such a variable
    assigns = []
    for b, i, x, line in cfg.all_elems():
        for l, kind, n in writes(x):
            rhs = n.get("init") if kind == "decl" else (n.get("r") if n.get("k") == "bin" and n["op"] == "=" else None)
            assigns.append((b, i, lv(l), kind, n, strip_casts(cfg.resolve(rhs)) if rhs is not None else None, line))
    chain = {t for b, i, t, kind, n, r, line in assigns if r is not None and r.get("k") == "call" and r.get("fn") in PEEKS}
    grew = True
    while grew:
        grew = False
        for b, i, t, kind, n, r, line in assigns:
            if r is not None and r.get("k") == "ref" and r["n"] in chain and t not in chain:
                chain.add(t)
                grew = True
    # (b) arming path returns instant_to_tstamp(ev.from)
    rets = []
    for b, i, x, line in cfg.all_elems():
        if isinstance(x, dict) and x.get("k") == "ret":
            rets.append((b, i, cfg.resolve(x["e"]), line))
    arming = []
    for b, i, e, line in rets:
        e = strip_casts(e)
        srcs = {show(e)} if e.get("k") != "ref" else _origin_expr(f, e["n"])
        for s_ in srcs:
            if "instant_to_tstamp(" in s_:
                arming.append((b, i, s_, line))
    if len(arming) != 1:
        rep.fail(rid, "%s/arming-return" % rname, f.loc(), "expected exactly one return of instant_to_tstamp(...), found %d" % len(arming))
        return
    ab, ai, asrc, aline = arming[0]
    m = re.fullmatch(r"instant_to_tstamp\(([A-Za-z_][\w$]*)\.from\)", asrc.replace(" ", ""))
    if m and m.group(1) in chain:
        ev = m.group(1)
        rep.ok(rid, "%s/arming-return" % rname, f.loc(aline), "wake-up time = instant_to_tstamp(%s.from) of the peeked event" % ev)
    else:
        rep.fail(rid, "%s/arming-return" % rname, f.loc(aline), "wake-up time is %s, not instant_to_tstamp(<peeked event>.from) (peeked: %s)" % (asrc, sorted(chain)))
        return
    # the carriers are written by the peek (or a copy of it) only, and no field of them is touched
    other = [(t, line) for b, i, t, kind, n, r, line in assigns if t in chain and kind != "decl" and not (
        r is not None and (r.get("k") == "call" and r.get("fn") in PEEKS or r.get("k") == "ref" and r["n"] in chain))]
    other += [(t, line) for b, i, t, kind, n, r, line in assigns if t in chain and kind == "decl" and r is not None and not (
        r.get("k") == "call" and r.get("fn") in PEEKS or r.get("k") == "ref" and r["n"] in chain)]
    if other:
        rep.fail(rid, "%s/returns-peeked" % label, f.loc(other[0][1]), "the event that is armed (%s) is also assigned from something else than the peek" % other[0][0])
    else:
        rep.ok(rid, "%s/returns-peeked" % label, f.loc(), "the armed event %s is assigned only from the peek" % ev)
    mods = [(t, line) for b, i, t, kind, n, r, line in assigns if any(t.startswith(c_ + ".") for c_ in chain)]
    if mods:
        rep.fail(rid, "%s/event-unmodified" % rname, f.loc(mods[0][1]), "the peeked event is modified (%s) before it is armed" % mods[0][0])
    else:
        rep.ok(rid, "%s/event-unmodified" % rname, f.loc(), "the peeked event is armed as peeked")
    # (c) no pop between the last peek and any return
    bad_cb, bad_h, noentry = [], [], False
    for rb, ri, e, line in rets:
        hits, reached_entry = backward_scan(cfg, (rb, ri), lambda b, i, x: "hit" if (elem_has_call(x, POPS) or elem_has_call(x, PEEKS)) else None)
        for h in hits:
            if elem_has_call(cfg.elem(*h), POPS) and not elem_has_call(cfg.elem(*h), PEEKS):
                (bad_h if cfg.blocks[h[0]].raw.get("inlined_from") in helpers else bad_cb).append(h)
        if reached_entry and (rb, ri) == (ab, ai):
            noentry = True
    if bad_cb:
        rep.fail(rid, "%s/no-pop-after-peek" % rname, f.loc(), "the reschedule callback pops the stream itself after the last peek: the armed occurrence is consumed before it runs")
    else:
        rep.ok(rid, "%s/no-pop-after-peek" % rname, f.loc(), "no pop of the stream between the last peek and a return")
    if bad_h or noentry:
        rep.fail(rid, "%s/no-pop-after-last-peek" % label, f.loc(),
                 "a path returns after a pop without re-peeking: the returned occurrence has already been consumed")
    else:
        rep.ok(rid, "%s/no-pop-after-last-peek" % label, f.loc(), "every return is preceded by a peek with no pop in between")
    # run counter bumped on the arming path only
    incs = [(b, i, line) for b, i, x, line in cfg.all_elems() for l, kind, n in writes(x) if lv(l).endswith("nrun")]
    for b, i, line in incs:
        other = [r for r in rets if (r[0], r[1]) != (ab, ai) and (r[0] == b and r[1] > i or r[0] in cfg.reach_from(b) and r[0] != b)]
        if other:
            rep.fail(rid, "%s/nrun-on-arming-path" % rname, f.loc(line), "nrun is bumped on a path that does not arm an occurrence")
        else:
            rep.ok(rid, "%s/nrun-on-arming-path" % rname, f.loc(line), "nrun++ lies on the arming path only")
    # (d) decision table {e<now: pop, e=now: keep, e>now: keep, null: stop}: the pop is guarded by a strict `<` and by non-null
    stamp = {"instant_to_tstamp(%s.from)" % c_ for c_ in chain}

    def gen(c, truth):
        out = set()
        for a in cond_atoms(c, truth):
            if len(a) == 5:
                op, lt, rt, le, re_ = a
                if lt.replace(" ", "") in stamp and rt in tset:
                    out.add(("cmp", op))
                elif rt.replace(" ", "") in stamp and lt in tset:
                    from ..flow import SWAP
                    out.add(("cmp", SWAP[op]))
            else:
                kind, text, e = a
                e = strip(e)
                if isinstance(e, dict) and e.get("k") == "ref" and e.get("dk") == "local":
                    # `exhaustedp = echs_event_0_p(e)` tested later: a flag that is set once stands for the call that set it
                    from ..q import local_decl_init
                    inits, other = local_decl_init(f, e["n"], e.get("id"))
                    if other == 0 and len(inits) == 1 and inits[0] is not None:
                        e = strip(cfg.resolve(inits[0]))
                if isinstance(e, dict) and e.get("k") == "call" and e.get("fn") in ("echs_event_0_p", "echs_nul_event_p"):
                    out.add(("null" if kind == "true" else "nonnull", "e"))
        return out

    # a pop or a new peek invalidates what was known about the previous head of the stream
    def kills(x):
        if isinstance(x, dict) and x.get("k") == "call" and x.get("fn") in tuple(PEEKS) + tuple(POPS):
            return {"e"} | stamp
        return set()
    mf = MustFacts(cfg, gen=gen, kills=kills, disjunctive=False)
    for qi, Q in enumerate(pops):
        fa = mf.at(Q.b, Q.i) or set()
        cmps = [x for x in fa if x[0] == "cmp"]
        key = "%s/pop-guard" % label if len(pops) == 1 else "%s/pop-guard#%d" % (label, qi + 1)
        if ("nonnull", "e") in fa and len(cmps) == 1 and cmps[0][1] == "<":
            rep.ok(rid, key, f.loc(Q.line), "pop only while the peeked event is non-null and instant_to_tstamp(%s.from) < %s (strict): "
                   "table {e<now: pop, e=now: keep, e>now: keep, null: stop}" % (ev, now))
        else:
            rep.fail(rid, key, f.loc(Q.line),
                     "the pop is guarded by %s; required: non-null and instant_to_tstamp(%s.from) < %s with a strict `<` "
                     "(`<=` drops the occurrence that is due exactly now; a missing guard consumes future occurrences)" % (sorted(fa), ev, now))
    # (e) the occurrence that is armed is not before `now`: the unwinding is left only at the end of the stream or at an occurrence
    #     that is not earlier — libev fires a watcher armed for a past instant at once, so a task would run at a time that is none of
    #     its occurrences' (walk with what the last tests said about the head of the stream as ghost state)
    from ..absw import AbsWalk
    CODE = {"<": 1, "<=": 2, "==": 3, ">=": 4, ">": 5, "!=": 6}
    seen_arm = []

    def eff_(b, i, x, store):
        if isinstance(x, dict) and x.get("k") == "call" and x.get("fn") in tuple(PEEKS) + tuple(POPS):
            return {"$cmp": None, "$null": None}
        if isinstance(x, dict) and x.get("k") == "ret" and (b, i) == (ab, ai):
            seen_arm.append((store.get("$null"), store.get("$cmp")))
        return None

    def assume_(b, si, c, store):
        upd = {}
        for a in gen(c, si == 0):
            if a[0] == "cmp":
                upd["$cmp"] = CODE.get(a[1], 0)
            elif a[0] == "null":
                if store.get("$null") == 0:
                    return "infeasible"
                upd["$null"] = 1
            elif a[0] == "nonnull":
                if store.get("$null") == 1:
                    return "infeasible"
                upd["$null"] = 0
        return upd
    AbsWalk(f, set(), effect=eff_, assume=assume_, max_states=50000).run()
    key = "%s/armed-not-before-now" % label
    if not seen_arm:
        raise AnalysisBroken("R04.1: the arming return of %s is not reached by the walk" % rname)
    late = [st_ for st_ in seen_arm if st_[1] not in (CODE[">="], CODE[">"], CODE["=="])]
    if late:
        rep.fail(rid, key, f.loc(aline), "an occurrence is armed on a path on which the unwinding was left although its time is %s %s: "
                 "libev fires a watcher armed for a past instant immediately, so the task is started at a time that is not one of its "
                 "occurrences (and a task whose occurrences all lie in the past is run)" % (
                     "still before" if late[0][1] == CODE["<"] else "not known to be at or after", now))
    else:
        rep.ok(rid, key, f.loc(aline), "on every path to the arming return the head of the stream was last found at or after %s" % now)
    return f, ev, rets, (ab, ai)


def r04_4(prog, rep, rid="R04.4"):
    """A watcher that has delivered its last occurrence carries the mark `reschedule_cb = NULL` until the child watcher retires the task.
    A submission that *replaces* such a task re-uses the record and its watcher: before the watcher is started again the reschedule
    callback must have been set anew on every path (ev_periodic_init() does it) — started with the mark still on, the new schedule fires
    once at a bogus time and is unscheduled when the old execution exits."""
    from ..flow import must_pass
    n = 0
    for f in prog.fns_in(DAEMON):
        if not f.cfg:
            continue
        cfg = f.cfg
        starts = call_sites(f, "ev_periodic_start")
        if not starts:
            continue
        sets = []
        for b, i, x, line in cfg.all_elems():
            if not isinstance(x, dict):
                continue
            for l, kind, nn in writes(x):
                if lv(l).endswith("reschedule_cb") and nn.get("k") == "bin" and nn["op"] == "=":
                    r = strip_casts(cfg.resolve(nn["r"]))
                    if r.get("k") == "ref" and r.get("dk") == "fn":
                        sets.append((b, i))
        for S in starts:
            n += 1
            key = "%s/reschedule-callback-set-before-start" % f.name
            same = any(b == S.b and i < S.i for b, i in sets)
            if same or (sets and must_pass(cfg, cfg.entry, S.b, {b for b, i in sets if b != S.b})):
                rep.ok(rid, key, f.loc(S.line), "every path to ev_periodic_start() sets the watcher's reschedule callback first")
            else:
                rep.fail(rid, key, f.loc(S.line), "a path reaches ev_periodic_start() without the watcher's reschedule callback having been set anew: a task "
                         "replaced after its last occurrence fired (reschedule_cb == NULL, execution still running) is started with that mark on — "
                         "one bogus run at once, and the new schedule is dropped when the old execution exits")
    if n < 1:
        rep.broken_("rule=%s no ev_periodic_start() in the daemon" % rid)


def _origin(f, name):
    out = set()
    for b, i, x, line in f.cfg.all_elems():
        for l, kind, n in writes(x):
            if lv(l) == name:
                rhs = n.get("init") if kind == "decl" else (n.get("r") if n.get("k") == "bin" else None)
                if rhs is not None:
                    out.add(lv(f.cfg.resolve(rhs)))
    return out


def _origin_expr(f, name):
    out = set()
    for b, i, x, line in f.cfg.all_elems():
        for l, kind, n in writes(x):
            if lv(l) == name:
                rhs = n.get("init") if kind == "decl" else (n.get("r") if n.get("k") == "bin" else None)
                if rhs is not None:
                    out.add(show(strip_casts(f.cfg.resolve(rhs))))
    return out


def r04_2(prog, rep, ctx):
    rid = "R04.2"
    f, ev, rets, arm = ctx
    cfg = f.cfg
    regs, sites = _callback_regs(prog)
    # every non-arming return is dominated by a store reschedule_cb = NULL
    for b, i, e, line in rets:
        if (b, i) == arm:
            continue

        def is_clear(x):
            for l, kind, n in writes(x):
                if lv(l).endswith("reschedule_cb") and n.get("k") == "bin" and const_eval(f, n["r"]) == 0:
                    return True
            return False
        hits, reached_entry = backward_scan(cfg, (b, i), lambda bb, ii, x: "hit" if is_clear(x) else None)
        key = "%s/end-of-stream-return#%s clears reschedule_cb" % (f.name, show(e)[:24])
        if reached_entry:
            rep.fail(rid, key, f.loc(line), "an end-of-stream return keeps the reschedule callback armed (libev would call it forever)")
        else:
            rep.ok(rid, key, f.loc(line), "reschedule_cb = NULL on every path to this return")
    # the never-run branch installs the retiring callback
    retire = [n for fx, fld, n, ln in sites if fx.name == f.name and fld == "cb"]
    if len(set(retire)) != 1:
        rep.fail(rid, "%s/never-run-installs-retire" % f.name, f.loc(), "expected one w->cb = <retire> in the reschedule callback, found %s" % retire)
        return
    rname = retire[0]
    r = prog.fn(rname, DAEMON)
    rep.ok(rid, "%s/never-run-installs-retire" % f.name, f.loc(), "the never-run branch installs %s" % rname)
    # retire: stop + free_task + add_chkpnt on every path
    for need in ("ev_periodic_stop", "free_task", "add_chkpnt"):
        if must_pass_to_exit(r.cfg, (r.cfg.entry, -1), lambda x, _n=need: elem_has_call(x, _n)):
            rep.ok(rid, "%s/%s" % (rname, need), r.loc(), "%s() on every path" % need)
        else:
            rep.fail(rid, "%s/%s" % (rname, need), r.loc(), "%s can return without %s()" % (rname, need))
    # stop precedes free
    st, fr = call_sites(r, "ev_periodic_stop"), call_sites(r, "free_task")
    if st and fr and site_before(r.cfg, st[0], fr[0]):
        rep.ok(rid, "%s/stop-before-free" % rname, r.loc(), "watcher stopped before the task is freed")
    else:
        rep.fail(rid, "%s/stop-before-free" % rname, r.loc(), "task freed while its watcher may still be active")
    # child callback retires a finished task
    ch = prog.fn("chld_cb", DAEMON)
    test = None
    for b in ch.cfg.blocks:
        c = ch.cfg.cond(b)
        if c is None:
            continue
        for truth in (True, False):
            for a in cond_atoms(c, truth):
                if len(a) == 5 and a[0] == "==" and a[1].endswith("reschedule_cb") and const_eval(ch, a[4]) == 0:
                    test = (b, 0 if truth else 1)
    if test is None:
        rep.fail(rid, "chld_cb/retire-when-done", ch.loc(), "chld_cb no longer tests reschedule_cb == NULL")
    else:
        hits, _ = forward_scan(ch.cfg, edge_start(ch.cfg, test[0], test[1]), lambda b, i, x: "hit" if elem_has_call(x, rname) else None)
        if hits and must_pass_to_exit(ch.cfg, edge_start(ch.cfg, test[0], test[1]), lambda x: elem_has_call(x, rname)):
            rep.ok(rid, "chld_cb/retire-when-done", ch.loc(), "a child exit of a task whose stream has ended reaches %s()" % rname)
        else:
            rep.fail(rid, "chld_cb/retire-when-done", ch.loc(), "the finished-task edge of chld_cb does not reach %s()" % rname)
    # cancel stops the watcher before freeing
    ej = prog.fn("_eject_task1", DAEMON)
    st, fr = call_sites(ej, "ev_periodic_stop"), call_sites(ej, "free_task")
    if st and fr and all(site_before(ej.cfg, st[0], x) for x in fr):
        rep.ok(rid, "_eject_task1/stop-before-free", ej.loc(st[0].line), "cancel stops the watcher before free_task")
    else:
        rep.fail(rid, "_eject_task1/stop-before-free", ej.loc(), "cancel frees the task without stopping its watcher first")
    # ... and a cancel is acknowledged (return 0) only after the watcher has been stopped: otherwise libev fires the armed occurrence
    for b_, i_, x_, ln_ in ej.cfg.all_elems():
        if isinstance(x_, dict) and x_.get("k") == "ret" and x_.get("e") is not None and const_eval(ej, ej.cfg.resolve(x_["e"])) == 0:
            hits, reached_entry = backward_scan(ej.cfg, (b_, i_), lambda bb, ii, xx: "hit" if elem_has_call(xx, "ev_periodic_stop") else None)
            if reached_entry:
                rep.fail(rid, "_eject_task1/ack-only-after-stop", ej.loc(ln_), "a cancel is acknowledged on a path that never stops the task's watcher: "
                         "the next occurrence of the cancelled task is still executed")
            else:
                rep.ok(rid, "_eject_task1/ack-only-after-stop", ej.loc(ln_), "every acknowledged cancel has stopped the watcher")
    # registration in _inject_task1: the periodic is initialised with (task_cb, resched) and started
    inj = prog.fn("_inject_task1", DAEMON)
    got_r = {n for fx, fld, n, ln in sites if fx.name == inj.name and fld == "reschedule_cb"}
    got_c = regs["cb"]
    if got_r == {f.name}:
        rep.ok(rid, "_inject_task1/registers-resched", inj.loc(), "new and replaced tasks are armed through %s" % f.name)
    else:
        rep.fail(rid, "_inject_task1/registers-resched", inj.loc(), "reschedule callback registered by _inject_task1: %s" % sorted(got_r))
    if call_sites(inj, "ev_periodic_start"):
        S = call_sites(inj, "ev_periodic_start")[0]
        if inj.cfg.dominates(S.b, [b for b in inj.cfg.lpreds[inj.cfg.exit] if any(
                isinstance(e["x"], dict) and e["x"].get("k") == "ret" and const_eval(inj, inj.cfg.resolve(e["x"]["e"])) == 0 for e in inj.cfg.blocks[b].elems)][0]):
            rep.ok(rid, "_inject_task1/starts-watcher", inj.loc(S.line), "the success return is dominated by ev_periodic_start")
        else:
            rep.fail(rid, "_inject_task1/starts-watcher", inj.loc(S.line), "_inject_task1 can report success without starting the watcher")
    else:
        rep.fail(rid, "_inject_task1/starts-watcher", inj.loc(), "_inject_task1 never starts the watcher")


def r04_3(prog, rep):
    """Descriptor hygiene of the spawn path: everything run_task() opens in the daemon is closed again on every feasible path
    (a leak per execution starves the daemon of descriptors and later occurrences are silently dropped)."""
    rid = "R04.3"
    from ..absw import AbsWalk
    f = prog.fn("run_task", DAEMON)
    cfg = f.cfg
    opened = set()
    leaks = []

    def effect(b, i, x, store):
        upd = {}
        for c in calls(x):
            if c.get("fn") == "close":
                upd["$o:" + lv(cfg.resolve(c["a"][0]))] = 0
        # a descriptor opened inside a helper the inliner spliced in comes back through `__ret_helper = fd$helper`, `fd = __ret_helper`:
        # the helper's own variable is dead after the return, the obligation to close moves to the receiving variable
        for l, kind, n in writes(x):
            if kind == "assign" and n.get("k") == "bin" and n["op"] == "=":
                r = strip_casts(cfg.resolve(n["r"]))
                if r.get("k") == "ref" and ("$" in r["n"] or r["n"].startswith("__ret_")) and ("$o:" + r["n"]) in store:
                    upd["$o:" + lv(l)] = store["$o:" + r["n"]]
                    upd["$o:" + r["n"]] = 0
                    if r["n"] in opened:
                        opened.add(lv(l))
        return upd

    def assume(b, si, cond, store):
        for truth in (True, False):
            for a in cond_atoms(cond, truth):
                if len(a) == 5 and a[0] == "<" and int_value(a[4]) == 0:
                    l = strip(a[3])
                    failed = (si == 0) == truth
                    if isinstance(l, dict) and l.get("k") == "call" and l.get("fn") == "pipe":
                        arr = lv(strip_casts(l["a"][0]))
                        opened.update({arr + "[0]", arr + "[1]"})
                        return {"$o:%s[0]" % arr: 0 if failed else 1, "$o:%s[1]" % arr: 0 if failed else 1}
                    if isinstance(l, dict) and l.get("k") == "bin" and l["op"] == "=":
                        r = strip_casts(l["r"])
                        if r.get("k") == "call" and r.get("fn") in ("openat", "open", "accept", "socket", "dup"):
                            v = lv(l["l"])
                            opened.add(v)
                            return {"$o:" + v: 0 if failed else 1, v: -1 if failed else 1000}
                    if isinstance(l, dict) and l.get("k") == "call" and l.get("fn") == "posix_spawn_file_actions_init" and failed:
                        return "infeasible"  # returns 0 or a positive errno: the `< 0` edge is dead (listed)
        return None
    tracked = {l_["n"] for l_ in f.locals if l_.get("t") == "int"}
    w = AbsWalk(f, tracked, effect=effect, assume=assume).run()
    if not w.exit_stores or not opened:
        rep.broken_("rule=R04.3 walk of run_task found no descriptor sources (%s)" % sorted(opened))
        return
    for d in sorted(opened):
        bad = [s_ for s_ in w.exit_stores if s_.get("$o:" + d) == 1]
        key = "run_task/closes %s" % d
        if bad:
            rep.fail(rid, key, f.loc(), "descriptor %s opened by run_task() is still open in the daemon on a feasible exit path: one descriptor leaks per execution "
                     "until pipe()/openat() fail and occurrences are dropped" % d)
        else:
            rep.ok(rid, key, f.loc(), "%s is closed on every feasible exit (%d abstract paths)" % (d, len(w.exit_stores)))
    rep.note(rid, "run_task/posix_spawn_file_actions_init<0", f.loc(), "listed: the failure edge of posix_spawn_file_actions_init(...) < 0 is dead (it returns 0 or a positive errno)")


def run(prog, rep, tier, snap):
    rep.rule("R04.1", "arming discipline of the reschedule callback and its unwinder (peek after strict unwind, no pop before return)", 8)
    ctx = rep.call(r04_1, prog, rep)
    rep.rule("R04.2", "retirement reachability: end-of-stream branches, retire callback, child callback, cancel, registration", 8)
    if ctx:
        rep.call(r04_2, prog, rep, ctx)
    rep.rule("R04.4", "a (re-)started task watcher has had its reschedule callback set anew on every path", 1)
    rep.call(r04_4, prog, rep)
    rep.rule("R04.3", "descriptor hygiene of the daemon's spawn path", 3)
    rep.call(r04_3, prog, rep)
    from . import c12
    rep.rule("R12.7", "every occurrence that comes due reaches the executor (shared with C12)", 1)
    rep.call(c12.r12_7, prog, rep)
    rep.rule("R12.2", "the run counter that gates real execution changes only with spawn and child exit (shared with C12)", 6)
    rep.call(c12.r12_2, prog, rep)
    from . import c08
    rep.rule("R08.2", "the daemon's own instant -> timestamp conversion agrees with the calendar tables (shared with C08)", 15)
    rep.call(c08.r08_2, prog, rep)
    rep.rule("R08.11", "the wake-up time of an occurrence is its own second, all-day occurrences at the start of their day (shared with C08)", 1)
    rep.call(c08.r08_11, prog, rep)
READY = True

# texts brought up to date with the rules added in the last rounds
LEVEL_TEXT = LEVEL_TEXT + ' Also: the occurrence that is armed is never before `now` (walk of callback plus unwinder with the last test results as ghost state); a restarted watcher has had its reschedule callback set anew on every path; the wake-up time of an instant by a value-fixed walk (all-day instants at the start of their day).'
TECHNIQUE = (TECHNIQUE if isinstance(TECHNIQUE, str) else TECHNIQUE) + "; ghost-state walks; value-fixed walk of the daemon's time conversion"

