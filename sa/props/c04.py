"""C04 — daemon runs every future occurrence exactly once, on time, in order (narrow structural clauses)."""
from ..facts import walk, strip, strip_casts, lv, show, writes, calls, int_value, root_var
from ..flow import MustFacts, cond_atoms
from ..q import (Site, call_sites, indirect_call_sites, site_before, forward_scan, backward_scan, const_eval, edge_start,
                 must_pass_to_exit, elem_has_call)
from ..snapshot import AnalysisBroken

UNITS = None
DAEMON = "echsd.c"
EXPLANATION = (
    "Narrow structural clauses of C04. R04.1 arming discipline of the ev_periodic reschedule callback: the returned wake-up time is "
    "instant_to_tstamp() of an event obtained by *peek* after a loop that pops only while the peeked event is strictly earlier than `now`, "
    "with no pop between that peek and the return; the run counter is bumped on the arming path only. R04.2 retirement reachability: both "
    "end-of-stream branches clear reschedule_cb; the never-run branch installs unsched; the child callback retires a finished task; "
    "cancel stops the watcher before freeing; the callbacks registered for a task are task_cb/resched. R04.3 descriptor hygiene: every descriptor "
    "run_task() opens in the daemon is closed again on every feasible path (path-sensitive walk), since a leak per execution eventually "
    "makes later occurrences unstartable.")
NOT_DECIDED = ("exactly-once, on-time and in-order execution under all interleavings of timer expiry, commands and child exits; collapse of missed "
               "occurrences; retirement timing — statements about histories of a libev loop and a clock")
TRUSTED = ["clang 14 parser/CFG builder", "echse-facts extractor", "python rule engines in /verif/sa", "libev ev_periodic semantics"]
LEVEL_TEXT = ("Static verdict on narrow necessary clauses of C04 only: peek-after-strict-unwind arming of the reschedule callback and "
              "reachability of task retirement. The bulk of C04 (histories of timers, commands and child exits) is NOT decided by this check.")
LEVEL_NOTE = "Trusted: clang 14 front end/CFG, extractor, rule engines, libev's contract for reschedule callbacks. Timing and interleavings are not modelled."
TECHNIQUE = "static analysis: must-pass-through and def-use on clang CFGs of the reschedule/unwind/retire callbacks"

POPS = ("echs_evstrm_pop",)
PEEKS = ("echs_evstrm_next",)


def _callback_regs(prog):
    """Functions stored into reschedule_cb / cb of a periodic watcher: {(field): {fn names}}"""
    regs = {"reschedule_cb": set(), "cb": set()}
    sites = []
    for f in prog.fns_in(DAEMON):
        if not f.cfg:
            continue
        for b, i, x, line in f.cfg.all_elems():
            xr = f.cfg.resolve(x)
            for l, kind, n in writes(xr):
                t = lv(l)
                for fld in regs:
                    if t.endswith("->" + fld) or t.endswith("." + fld):
                        if n.get("k") == "bin":
                            r = strip_casts(n["r"])
                            if r.get("k") == "ref" and r.get("dk") == "fn":
                                regs[fld].add(r["n"])
                                sites.append((f, fld, r["n"], n.get("line", line)))
            # ev_set_cb via memmove(&w->cb, &cb_, sizeof)
            for c in calls(xr):
                if c.get("fn") == "memmove" and "cb" in show(c["a"][0]):
                    for n in walk(c["a"][1]):
                        if n.get("k") == "ref" and n.get("dk") in ("fn",):
                            regs["cb"].add(n["n"])
    return regs, sites


def r04_1(prog, rep):
    rid = "R04.1"
    regs, sites = _callback_regs(prog)
    rs = {n for n in regs["reschedule_cb"]}
    if len(rs) != 1:
        raise AnalysisBroken("R04.1: expected one reschedule callback, found %s" % sorted(rs))
    rname = rs.pop()
    f = prog.fn(rname, DAEMON)
    cfg = f.cfg
    now = f.params[1]["n"]
    # (a) the event comes from the unwinder applied to the task's stream and `now`
    uw = [c for c in f.all_calls() if c[2].get("fn") and prog.has_fn(c[2]["fn"], DAEMON) and
          any(cc[2].get("fn") in POPS for cc in prog.fn(c[2]["fn"], DAEMON).all_calls())]
    if len(uw) != 1:
        rep.fail(rid, "%s/unwind-call" % rname, f.loc(), "expected exactly one call to an unwinding helper, found %d" % len(uw))
        return
    ub, ui, ucall, uline = uw[0]
    unw = prog.fn(ucall["fn"], DAEMON)
    a0 = strip_casts(cfg.resolve(ucall["a"][0]))
    srcs = _origin(f, lv(a0))
    if lv(cfg.resolve(ucall["a"][1])) == now and any(s.endswith("->strm") for s in srcs | {lv(a0)}):
        rep.ok(rid, "%s/unwind-args" % rname, f.loc(uline), "%s(task stream, %s)" % (unw.name, now))
    else:
        rep.fail(rid, "%s/unwind-args" % rname, f.loc(uline), "unwinder is called with (%s, %s), expected (task stream, %s)" % (show(ucall["a"][0]), show(ucall["a"][1]), now))
    # event variable
    ev = None
    for b, i, x, line in cfg.all_elems():
        for l, kind, n in writes(x):
            rhs = n.get("init") if kind == "decl" else (n.get("r") if n.get("k") == "bin" else None)
            if rhs is not None:
                rr = strip_casts(cfg.resolve(rhs))
                if rr.get("k") == "call" and rr.get("fn") == unw.name:
                    ev = lv(l)
    if ev is None:
        rep.fail(rid, "%s/event-var" % rname, f.loc(), "result of %s is not kept" % unw.name)
        return
    # (c) no pop in the callback itself
    pops = [c for c in f.all_calls() if c[2].get("fn") in POPS] + \
           [S for S in indirect_call_sites(f, "next")]
    if pops:
        rep.fail(rid, "%s/no-pop-after-peek" % rname, f.loc(), "the reschedule callback pops the stream itself: the armed occurrence is consumed before it runs")
    else:
        rep.ok(rid, "%s/no-pop-after-peek" % rname, f.loc(), "no pop of the stream between the unwinder's peek and the return")
    # (b) arming path returns instant_to_tstamp(ev.from)
    rets = []
    for b, i, x, line in cfg.all_elems():
        if isinstance(x, dict) and x.get("k") == "ret":
            rets.append((b, i, cfg.resolve(x["e"]), line))
    arming = []
    for b, i, e, line in rets:
        e = strip_casts(e)
        srcs = {show(e)} if e.get("k") != "ref" else _origin_expr(f, e["n"])
        for s in srcs:
            if "instant_to_tstamp(" in s:
                arming.append((b, i, s, line))
    if len(arming) != 1:
        rep.fail(rid, "%s/arming-return" % rname, f.loc(), "expected exactly one return of instant_to_tstamp(...), found %d" % len(arming))
        return
    ab, ai, asrc, aline = arming[0]
    if asrc.replace(" ", "") == "instant_to_tstamp(%s.from)" % ev:
        rep.ok(rid, "%s/arming-return" % rname, f.loc(aline), "wake-up time = instant_to_tstamp(%s.from) of the peeked event" % ev)
    else:
        rep.fail(rid, "%s/arming-return" % rname, f.loc(aline), "wake-up time is %s, not instant_to_tstamp(%s.from)" % (asrc, ev))
    # ev not modified between unwind and return
    mods = [(b, i) for b, i, x, line in cfg.all_elems() for l, kind, n in writes(x)
            if (lv(l) == ev or lv(l).startswith(ev + ".")) and (b, i) != (ub, ui) and not any(
                strip_casts(cfg.resolve(n.get("init") or n.get("r") or {})).get("fn") == unw.name for _ in [0])]
    if mods:
        rep.fail(rid, "%s/event-unmodified" % rname, f.loc(), "the peeked event %s is modified before it is armed" % ev)
    else:
        rep.ok(rid, "%s/event-unmodified" % rname, f.loc(), "the peeked event is armed as returned by the unwinder")
    # run counter bumped on the arming path only
    incs = [(b, i, line) for b, i, x, line in cfg.all_elems() for l, kind, n in writes(x) if lv(l).endswith("nrun")]
    for b, i, line in incs:
        # must reach only the arming return
        other = [r for r in rets if (r[0], r[1]) != (ab, ai) and (r[0] == b and r[1] > i or r[0] in cfg.reach_from(b) and r[0] != b)]
        if other:
            rep.fail(rid, "%s/nrun-on-arming-path" % rname, f.loc(line), "nrun is bumped on a path that does not arm an occurrence")
        else:
            rep.ok(rid, "%s/nrun-on-arming-path" % rname, f.loc(line), "nrun++ lies on the arming path only")
    # the never-run test reads nrun
    # (d) the unwinder
    _unwinder(prog, rep, rid, unw)
    return f, ev, rets, (ab, ai)


def _origin(f, name):
    out = set()
    for b, i, x, line in f.cfg.all_elems():
        for l, kind, n in writes(x):
            if lv(l) == name:
                rhs = n.get("init") if kind == "decl" else (n.get("r") if n.get("k") == "bin" else None)
                if rhs is not None:
                    out.add(lv(f.cfg.resolve(rhs)))
    return out


def _origin_expr(f, name):
    out = set()
    for b, i, x, line in f.cfg.all_elems():
        for l, kind, n in writes(x):
            if lv(l) == name:
                rhs = n.get("init") if kind == "decl" else (n.get("r") if n.get("k") == "bin" else None)
                if rhs is not None:
                    out.add(show(strip_casts(f.cfg.resolve(rhs))))
    return out


def _unwinder(prog, rep, rid, unw):
    cfg = unw.cfg
    strm = unw.params[0]["n"]
    tpar = unw.params[1]["n"]
    peeks = [S for S in call_sites(unw, PEEKS)]
    pops = [S for S in call_sites(unw, POPS)]
    if not peeks or not pops:
        rep.fail(rid, "%s/shape" % unw.name, unw.loc(), "expected a peek and a pop of the stream, found %d/%d" % (len(peeks), len(pops)))
        return
    if any(lv(cfg.resolve(S.node["a"][0])) != strm for S in peeks + pops):
        rep.fail(rid, "%s/same-stream" % unw.name, unw.loc(), "peek and pop do not operate on the parameter stream")
    else:
        rep.ok(rid, "%s/same-stream" % unw.name, unw.loc(), "peek and pop both operate on %s" % strm)
    # the returned variable is assigned from the peek, and no pop lies between the last peek and the return
    evs = set()
    for b, i, x, line in cfg.all_elems():
        for l, kind, n in writes(cfg.resolve(x)):
            if n.get("k") == "bin" and strip_casts(n["r"]).get("k") == "call" and strip_casts(n["r"]).get("fn") in PEEKS:
                evs.add(lv(l))
    rets = [(b, i, lv(cfg.resolve(x["e"]))) for b, i, x, line in cfg.all_elems() if isinstance(x, dict) and x.get("k") == "ret"]
    if len(evs) == 1 and all(r[2] in evs for r in rets):
        ev = sorted(evs)[0]
        rep.ok(rid, "%s/returns-peeked" % unw.name, unw.loc(), "returns %s, assigned only from the peek" % ev)
    else:
        rep.fail(rid, "%s/returns-peeked" % unw.name, unw.loc(), "returned value %s is not the peeked event %s" % ([r[2] for r in rets], sorted(evs)))
        return
    for rb, ri, _ in rets:
        hits, reached_entry = backward_scan(cfg, (rb, ri), lambda b, i, x: "hit" if (elem_has_call(x, POPS) or elem_has_call(x, PEEKS)) else None)
        bad = [h for h in hits if elem_has_call(cfg.elem(*h), POPS) and not elem_has_call(cfg.elem(*h), PEEKS)]
        if bad or reached_entry:
            rep.fail(rid, "%s/no-pop-after-last-peek" % unw.name, unw.loc(),
                     "a path returns after a pop without re-peeking: the returned occurrence has already been consumed")
        else:
            rep.ok(rid, "%s/no-pop-after-last-peek" % unw.name, unw.loc(), "every return is preceded by a peek with no pop in between")
    # decision table {e<now: pop, e=now: keep, e>now: keep, null: stop}: the pop is guarded by a strict `<` and by non-null
    facts_at_pop = None

    def gen(c, truth):
        out = set()
        for a in cond_atoms(c, truth):
            if len(a) == 5:
                op, lt, rt, le, re_ = a
                if "instant_to_tstamp(" in lt.replace(" ", "") and rt == tpar:
                    out.add(("cmp", op, lt.replace(" ", "")))
                elif "instant_to_tstamp(" in rt.replace(" ", "") and lt == tpar:
                    from ..flow import SWAP
                    out.add(("cmp", SWAP[op], rt.replace(" ", "")))
            else:
                kind, text, e = a
                e = strip(e)
                if isinstance(e, dict) and e.get("k") == "call" and e.get("fn") in ("echs_event_0_p", "echs_nul_event_p"):
                    out.add(("null" if kind == "true" else "nonnull", "e"))
        return out
    # a new peek invalidates what was known about the previous event
    # a pop or a new peek invalidates what was known about the previous head of the stream
    def kills(x):
        if isinstance(x, dict) and x.get("k") == "call" and x.get("fn") in tuple(PEEKS) + tuple(POPS):
            return {"e", "instant_to_tstamp(%s.from)" % ev}
        return set()
    mf = MustFacts(cfg, gen=gen, kills=kills, disjunctive=False)
    for qi, Q in enumerate(pops):
        fa = mf.at(Q.b, Q.i) or set()
        cmps = [x for x in fa if x[0] == "cmp"]
        key = "%s/pop-guard" % unw.name if len(pops) == 1 else "%s/pop-guard#%d" % (unw.name, qi + 1)
        if ("nonnull", "e") in fa and len(cmps) == 1 and cmps[0][1] == "<" and cmps[0][2] == "instant_to_tstamp(%s.from)" % ev:
            rep.ok(rid, key, unw.loc(Q.line), "pop only while the peeked event is non-null and instant_to_tstamp(%s.from) < %s (strict): "
                   "table {e<now: pop, e=now: keep, e>now: keep, null: stop}" % (ev, tpar))
        else:
            rep.fail(rid, key, unw.loc(Q.line),
                     "the pop is guarded by %s; required: non-null and instant_to_tstamp(%s.from) < %s with a strict `<` "
                     "(`<=` drops the occurrence that is due exactly now; a missing guard consumes future occurrences)" % (sorted(fa), ev, tpar))


def r04_2(prog, rep, ctx):
    rid = "R04.2"
    f, ev, rets, arm = ctx
    cfg = f.cfg
    regs, sites = _callback_regs(prog)
    # every non-arming return is dominated by a store reschedule_cb = NULL
    for b, i, e, line in rets:
        if (b, i) == arm:
            continue

        def is_clear(x):
            for l, kind, n in writes(x):
                if lv(l).endswith("reschedule_cb") and n.get("k") == "bin" and const_eval(f, n["r"]) == 0:
                    return True
            return False
        hits, reached_entry = backward_scan(cfg, (b, i), lambda bb, ii, x: "hit" if is_clear(x) else None)
        key = "%s/end-of-stream-return#%s clears reschedule_cb" % (f.name, show(e)[:24])
        if reached_entry:
            rep.fail(rid, key, f.loc(line), "an end-of-stream return keeps the reschedule callback armed (libev would call it forever)")
        else:
            rep.ok(rid, key, f.loc(line), "reschedule_cb = NULL on every path to this return")
    # the never-run branch installs the retiring callback
    retire = [n for fx, fld, n, ln in sites if fx.name == f.name and fld == "cb"]
    if len(set(retire)) != 1:
        rep.fail(rid, "%s/never-run-installs-retire" % f.name, f.loc(), "expected one w->cb = <retire> in the reschedule callback, found %s" % retire)
        return
    rname = retire[0]
    r = prog.fn(rname, DAEMON)
    rep.ok(rid, "%s/never-run-installs-retire" % f.name, f.loc(), "the never-run branch installs %s" % rname)
    # retire: stop + free_task + add_chkpnt on every path
    for need in ("ev_periodic_stop", "free_task", "add_chkpnt"):
        if must_pass_to_exit(r.cfg, (r.cfg.entry, -1), lambda x, _n=need: elem_has_call(x, _n)):
            rep.ok(rid, "%s/%s" % (rname, need), r.loc(), "%s() on every path" % need)
        else:
            rep.fail(rid, "%s/%s" % (rname, need), r.loc(), "%s can return without %s()" % (rname, need))
    # stop precedes free
    st, fr = call_sites(r, "ev_periodic_stop"), call_sites(r, "free_task")
    if st and fr and site_before(r.cfg, st[0], fr[0]):
        rep.ok(rid, "%s/stop-before-free" % rname, r.loc(), "watcher stopped before the task is freed")
    else:
        rep.fail(rid, "%s/stop-before-free" % rname, r.loc(), "task freed while its watcher may still be active")
    # child callback retires a finished task
    ch = prog.fn("chld_cb", DAEMON)
    test = None
    for b in ch.cfg.blocks:
        c = ch.cfg.cond(b)
        if c is None:
            continue
        for truth in (True, False):
            for a in cond_atoms(c, truth):
                if len(a) == 5 and a[0] == "==" and a[1].endswith("reschedule_cb") and const_eval(ch, a[4]) == 0:
                    test = (b, 0 if truth else 1)
    if test is None:
        rep.fail(rid, "chld_cb/retire-when-done", ch.loc(), "chld_cb no longer tests reschedule_cb == NULL")
    else:
        hits, _ = forward_scan(ch.cfg, edge_start(ch.cfg, test[0], test[1]), lambda b, i, x: "hit" if elem_has_call(x, rname) else None)
        if hits and must_pass_to_exit(ch.cfg, edge_start(ch.cfg, test[0], test[1]), lambda x: elem_has_call(x, rname)):
            rep.ok(rid, "chld_cb/retire-when-done", ch.loc(), "a child exit of a task whose stream has ended reaches %s()" % rname)
        else:
            rep.fail(rid, "chld_cb/retire-when-done", ch.loc(), "the finished-task edge of chld_cb does not reach %s()" % rname)
    # cancel stops the watcher before freeing
    ej = prog.fn("_eject_task1", DAEMON)
    st, fr = call_sites(ej, "ev_periodic_stop"), call_sites(ej, "free_task")
    if st and fr and all(site_before(ej.cfg, st[0], x) for x in fr):
        rep.ok(rid, "_eject_task1/stop-before-free", ej.loc(st[0].line), "cancel stops the watcher before free_task")
    else:
        rep.fail(rid, "_eject_task1/stop-before-free", ej.loc(), "cancel frees the task without stopping its watcher first")
    # registration in _inject_task1: the periodic is initialised with (task_cb, resched) and started
    inj = prog.fn("_inject_task1", DAEMON)
    got_r = {n for fx, fld, n, ln in sites if fx.name == inj.name and fld == "reschedule_cb"}
    got_c = regs["cb"]
    if got_r == {f.name}:
        rep.ok(rid, "_inject_task1/registers-resched", inj.loc(), "new and replaced tasks are armed through %s" % f.name)
    else:
        rep.fail(rid, "_inject_task1/registers-resched", inj.loc(), "reschedule callback registered by _inject_task1: %s" % sorted(got_r))
    if call_sites(inj, "ev_periodic_start"):
        S = call_sites(inj, "ev_periodic_start")[0]
        if inj.cfg.dominates(S.b, [b for b in inj.cfg.lpreds[inj.cfg.exit] if any(
                isinstance(e["x"], dict) and e["x"].get("k") == "ret" and const_eval(inj, inj.cfg.resolve(e["x"]["e"])) == 0 for e in inj.cfg.blocks[b].elems)][0]):
            rep.ok(rid, "_inject_task1/starts-watcher", inj.loc(S.line), "the success return is dominated by ev_periodic_start")
        else:
            rep.fail(rid, "_inject_task1/starts-watcher", inj.loc(S.line), "_inject_task1 can report success without starting the watcher")
    else:
        rep.fail(rid, "_inject_task1/starts-watcher", inj.loc(), "_inject_task1 never starts the watcher")


def r04_3(prog, rep):
    """Descriptor hygiene of the spawn path: everything run_task() opens in the daemon is closed again on every feasible path
    (a leak per execution starves the daemon of descriptors and later occurrences are silently dropped)."""
    rid = "R04.3"
    from ..absw import AbsWalk
    f = prog.fn("run_task", DAEMON)
    cfg = f.cfg
    opened = set()
    leaks = []

    def effect(b, i, x, store):
        upd = {}
        for c in calls(x):
            if c.get("fn") == "close":
                upd["$o:" + lv(cfg.resolve(c["a"][0]))] = 0
        return upd

    def assume(b, si, cond, store):
        for truth in (True, False):
            for a in cond_atoms(cond, truth):
                if len(a) == 5 and a[0] == "<" and int_value(a[4]) == 0:
                    l = strip(a[3])
                    failed = (si == 0) == truth
                    if isinstance(l, dict) and l.get("k") == "call" and l.get("fn") == "pipe":
                        arr = lv(strip_casts(l["a"][0]))
                        opened.update({arr + "[0]", arr + "[1]"})
                        return {"$o:%s[0]" % arr: 0 if failed else 1, "$o:%s[1]" % arr: 0 if failed else 1}
                    if isinstance(l, dict) and l.get("k") == "bin" and l["op"] == "=":
                        r = strip_casts(l["r"])
                        if r.get("k") == "call" and r.get("fn") in ("openat", "open", "accept", "socket", "dup"):
                            v = lv(l["l"])
                            opened.add(v)
                            return {"$o:" + v: 0 if failed else 1, v: -1 if failed else 1000}
                    if isinstance(l, dict) and l.get("k") == "call" and l.get("fn") == "posix_spawn_file_actions_init" and failed:
                        return "infeasible"  # returns 0 or a positive errno: the `< 0` edge is dead (listed)
        return None
    tracked = {l_["n"] for l_ in f.locals if l_.get("t") == "int"}
    w = AbsWalk(f, tracked, effect=effect, assume=assume).run()
    if not w.exit_stores or not opened:
        rep.broken_("rule=R04.3 walk of run_task found no descriptor sources (%s)" % sorted(opened))
        return
    for d in sorted(opened):
        bad = [s_ for s_ in w.exit_stores if s_.get("$o:" + d) == 1]
        key = "run_task/closes %s" % d
        if bad:
            rep.fail(rid, key, f.loc(), "descriptor %s opened by run_task() is still open in the daemon on a feasible exit path: one descriptor leaks per execution "
                     "until pipe()/openat() fail and occurrences are dropped" % d)
        else:
            rep.ok(rid, key, f.loc(), "%s is closed on every feasible exit (%d abstract paths)" % (d, len(w.exit_stores)))
    rep.note(rid, "run_task/posix_spawn_file_actions_init<0", f.loc(), "listed: the failure edge of posix_spawn_file_actions_init(...) < 0 is dead (it returns 0 or a positive errno)")


def run(prog, rep, tier, snap):
    rep.rule("R04.1", "arming discipline of the reschedule callback and its unwinder (peek after strict unwind, no pop before return)", 8)
    ctx = rep.call(r04_1, prog, rep)
    rep.rule("R04.2", "retirement reachability: end-of-stream branches, retire callback, child callback, cancel, registration", 8)
    if ctx:
        rep.call(r04_2, prog, rep, ctx)
    rep.rule("R04.3", "descriptor hygiene of the daemon's spawn path", 3)
    rep.call(r04_3, prog, rep)
    from . import c12
    rep.rule("R12.7", "every occurrence that comes due reaches the executor (shared with C12)", 1)
    rep.call(c12.r12_7, prog, rep)
    from . import c08
    rep.rule("R08.2", "the daemon's own instant -> timestamp conversion agrees with the calendar tables (shared with C08)", 15)
    rep.call(c08.r08_2, prog, rep)
READY = True
