"""C19 — small-integer set containers behave as sets."""
from ..rules import bitint

UNITS = None
EXPLANATION = (
    "R19.1: every ass_* site of the RRULE parser is dominated by guards whose admitted interval (relational must-facts) lies inside the "
    "container's domain, the domain being derived from the shift expressions / word extents of the container itself. R19.2 (= R05.3): nominal "
    "typing of the container typedef family at every call boundary. R19.3: on every path of each X_next that returns an element the cursor "
    "is provably non-zero, and every iteration site tests the cursor. R19.4: from {cursor 0, no positive members} each signed iterator has a "
    "feasible path into its negatives branch (path-sensitive constant propagation). R19.5: bit 0 of the positive word is the representation tag: "
    "every member bit stored into it is `1 << E` with E > 0 on every path, stored and new value are split by the same predicate, and the tag "
    "word is never overwritten after bitset insertions. R19.7: cursor coverage — for every value of the (finite) cursor domain below the end "
    "bound a bitset-mode call of each signed iterator examines the member words before it can answer end-of-iteration (one abstract walk "
    "per cursor value), so no cursor value the iterator stores itself falls into a gap between its `positives` and `negatives` tests.")
NOT_DECIDED = "set semantics over all insertion sequences (membership/iteration equality for every subset); the behaviour itself"
TRUSTED = ["clang 14 parser/CFG builder", "echse-facts extractor", "python rule engines in /verif/sa"]
LEVEL_TEXT = ("Static verdict on necessary structural clauses of C19: parser guards inside container domains, nominal typing of the container "
              "family, iterators signal an element with a non-zero cursor on all paths (so 0 and single values are seen), negatives reachable "
              "from a fresh cursor. It decides those clauses, not set semantics over all insertion sequences. Also: cursor coverage (no cursor value below the end bound ends a bitset iteration without examining the member words), no state shared between containers, signed mask words not compared relationally in bitset mode.")
LEVEL_NOTE = "Trusted: clang 14 front end/CFG, extractor, rule engines."
TECHNIQUE = "static analysis: interval facts from guards vs. derived container domains, nominal typedef typing, must-facts on iterator cursors, path-sensitive reachability; value-fixed walks over the cursor domain, carried-state analysis"


def run(prog, rep, tier, snap):
    rep.rule("R19.1", "parser guards inside container domains", 10)
    rep.call(bitint.r19_1, prog, rep)
    rep.rule("R05.3", "nominal typing of the bitint typedef family across call boundaries (R19.2)", 30)
    rep.call(bitint.r05_3, prog, rep)
    rep.rule("R19.3", "iterator returns an element only with a non-zero cursor; iteration sites test the cursor", 30)
    rep.call(bitint.r19_3, prog, rep)
    rep.rule("R19.4", "negatives reachable from a fresh cursor", 4)
    rep.call(bitint.r19_4, prog, rep)
    rep.rule("R19.5", "representation tag discipline in the assign functions", 8)
    rep.call(bitint.r19_5, prog, rep)
    rep.rule("R19.6", "membership split, shift widths, live degrade loop covering the whole native list", 10)
    rep.call(bitint.r19_6, prog, rep)
    rep.rule("R19.7", "cursor coverage: no cursor value below the end bound ends a bitset iteration blindly", 4)
    rep.call(bitint.r19_7, prog, rep)
    rep.rule("R19.11", "degrading a single value clears the tag; no one-step shift by cursor + c", 4)
    rep.call(bitint.r19_11, prog, rep)
    rep.rule("R19.10", "the stored number is read off `bi >> 1` only behind the tag test", 1)
    rep.call(bitint.r19_10, prog, rep)
    rep.rule("R19.9", "signed mask words are not compared relationally in bitset mode", 2)
    rep.call(bitint.r19_9, prog, rep)
    rep.rule("R19.12", "the unsigned iterators leave the cursor at member + 1 in both representations (value-fixed walk)", 2)
    rep.call(bitint.r19_12, prog, rep)
    from ..rules import state
    rep.rule("R19.13", "the signed iterators hand out every member once and end with the cursor at 0 (value-fixed walk, call after call)", 2)
    rep.call(bitint.r19_13, prog, rep, "R19.13", tier)
    rep.rule("R19.8", "the containers' functions carry no state from one container to the next", 1)
    rep.call(state.no_carried_state, prog, rep, "R19.8", "bitint")
READY = True

# texts brought up to date with the rules above (they supersede the first versions at the top of the module)
LEVEL_TEXT = LEVEL_TEXT + (" Also: degrading a single stored value clears the representation tag on every path; no one-step shift by cursor + c.")

# texts brought up to date with the rules added in the last rounds
LEVEL_TEXT = LEVEL_TEXT + ' The unsigned iterators leave the cursor at member + 1 in both representations (walk).'

LEVEL_TEXT = LEVEL_TEXT + ' The signed iterators hand out every member of a container exactly once and end with the cursor at 0 (walked call after call over containers with the extremes, neighbours, the naught and both signs).'
