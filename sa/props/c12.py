"""C12 — X-ECHS-MAX-SIMUL bounds concurrent runs of a task, and only of that task."""
import os
import re

from ..facts import walk, strip, strip_casts, lv, show, writes, calls, int_value, root_var, step_of
from ..flow import MustFacts, cond_atoms
from ..q import (Site, call_sites, site_before, forward_scan, backward_scan, const_eval, str_value, edge_start, must_pass_to_exit,
                 elem_has_call)
from ..snapshot import AnalysisBroken

UNITS = None
DAEMON = "echsd.c"
EXPLANATION = (
    "R12.1: the timer callback and run_task() are walked with the limit code fixed to every value of its 6-bit field and the run counter "
    "fixed to a grid around it: every spawn the callback does not count carries the no-run flag, with an explicit limit M a run is counted "
    "only while fewer than M are running, and below the limit the occurrence is counted and run for real. R12.8: with the limit unset "
    "(the all-ones code the serialiser does not write) both places behave as unlimited for every counter value. R12.2: nsim++ is paired with a started child "
    "watcher whose data is the task and whose callback holds the only decrement. R12.3: every element of a function-local static that a "
    "function writes on some path is written on all paths before the object is used (no state leaking between spawns). R12.4: the no-run "
    "flag text is an option of the executor and its test bypasses prep_task/run_task; the MAX-SIMUL encoding round-trips over the whole field. R12.5: the child watcher whose callback frees the slot is registered for "
    "termination only (trace = 0), so a stopped job keeps its slot. R12.6: an error number returned by posix_spawn() in the daemon "
    "reaches failure handling, so a failed spawn is never counted or watched as a running execution.")
NOT_DECIDED = "overlapping process lifetimes under all interleavings of timer expiry and child exit; the behaviour itself"
TRUSTED = ["clang 14 parser/CFG builder", "echse-facts extractor", "python rule engines in /verif/sa"]
LEVEL_TEXT = ("Static verdict on necessary structural clauses of C12: every real run is counted, counted only below the limit and run below it (value-fixed walks over the limit x counter grid), an unset limit is unlimited for every reader, "
              "increment/decrement pairing, no static state leaking between spawns of different tasks, agreement of the no-run flag and "
              "of the MAX-SIMUL encoding between daemon, parser, serialiser and executor. It decides those clauses, not process-lifetime overlap.")
LEVEL_NOTE = "Trusted: clang 14 front end/CFG, extractor, rule engines. libev callback ordering is not modelled."
TECHNIQUE = "static analysis: value-fixed path-sensitive walks of the two limit guards over the whole field domain, definite-assignment must-facts for static locals, dominance, table agreement"


def linear_lt(c, truth=True):
    """Normalise a comparison between `X->nsim` and `max_simul` to
    (lhs_text, rhs_text, offset, negated) meaning  lhs < rhs + offset  (negated: NOT that)."""
    neg = False
    c = strip(c)
    while isinstance(c, dict) and c.get("k") == "un" and c["op"] == "!":
        neg = not neg
        c = strip(c["e"])
    if not (isinstance(c, dict) and c.get("k") == "bin" and c["op"] in ("<", "<=", ">", ">=")):
        return None
    op = c["op"]
    l, r = strip_casts(c["l"]), strip_casts(c["r"])

    def lin(e):
        e = strip_casts(e)
        if e.get("k") == "bin" and e["op"] in ("+", "-"):
            k = int_value(e["r"])
            if k is not None:
                base, off = lin(e["l"])
                return base, off + (k if e["op"] == "+" else -k)
        return lv(e), 0
    lt, lo = lin(l)
    rt, ro = lin(r)
    # bring to  A < B + off
    if op == "<":
        A, B, off = lt, rt, ro - lo
    elif op == "<=":
        A, B, off = lt, rt, ro - lo + 1
    elif op == ">":
        A, B, off = rt, lt, lo - ro
    else:
        A, B, off = rt, lt, lo - ro + 1
    if A.endswith("max_simul") and not B.endswith("max_simul"):
        # M < N + off  <=>  not (N < M + 1 - off): always state the guard with the run counter on the left
        A, B, off, neg = B, A, 1 - off, not neg
    return A, B, off, neg


def _limit_outcomes(prog, M, n):
    """(what the timer callback does, whether run_task() selects the no-run flag) with the limit code fixed to M and the run counter to n
    (value-fixed walks of task_cb and run_task; nothing else is assumed, every other condition forks)."""
    from ..absw import AbsWalk
    out = []
    for f in (prog.fn("task_cb", DAEMON), prog.fn("run_task", DAEMON)):
        cfg = f.cfg
        lim = ns = None
        for b, i, x, line in cfg.all_elems():
            for nn in walk(cfg.resolve(x) if isinstance(x, dict) else {}):
                if nn.get("k") == "mem" and nn.get("f") == "max_simul":
                    lim = lv(nn)
                if nn.get("k") == "mem" and nn.get("f") == "nsim":
                    ns = lv(nn)
        if lim is None or ns is None:
            raise AnalysisBroken("R12.1: %s does not read max_simul/nsim any more" % f.name)
        seen = set()

        def effect(b, i, x, store, _s=seen):
            upd = {lim: M}
            if ns not in store and "$ns" not in store:
                upd[ns] = n          # (re-)pinned after the local task pointer has been initialised
            for l, kind, nn in writes(x):
                if lv(l) == ns and step_of(kind, nn) == 1:
                    _s.add("counted")
                    upd["$ns"] = 1
                if nn.get("k") == "bin" and nn["op"] == "=" and strip_casts(nn["r"]).get("k") == "str" and strip_casts(nn["r"])["v"].startswith("-n"):
                    _s.add("norun")
            if elem_has_call(x, "run_task"):
                _s.add("spawn")
            return upd

        def call_eval(c, store):
            return 4711 if c.get("fn") == "run_task" else None      # a pid: the spawn went well
        scal = {l_["n"] for l_ in f.locals if (l_.get("t") or "").replace("const ", "") in ("int", "unsigned int", "bool", "_Bool", "size_t", "long", "unsigned long")}
        w = AbsWalk(f, {lim, ns} | scal, init={lim: M, ns: n}, effect=effect, call_eval=call_eval, max_states=100000).run()
        out.append(seen)
    tc, rt = out
    return ("counted" if "counted" in tc else ("uncounted-spawn" if "spawn" in tc else "none")), ("norun" in rt)


def r12_1(prog, rep):
    """The two places that compare the run counter with the limit — the timer callback (count and supervise, or spawn unsupervised) and
    run_task() (real run, or the executor's no-run flag) — are evaluated over the whole 6-bit domain of the limit code and a grid of
    counter values around it.  (a) a spawn the callback does not count must be a no-run; (b) with an explicit limit M a run is counted
    only while fewer than M are running; (c) below the limit the occurrence is counted and run for real."""
    rid = "R12.1"
    from ..rules import encodings
    width = encodings.field_width(prog, "max_simul")
    unset = (1 << width) - 1
    bad = {"a": [], "b": [], "c": []}
    npts = 0
    for M in range(0, unset + 1):
        for n in sorted({0, 1, max(M - 1, 0), M, M + 1, unset - 1, unset, unset + 1, 1000}):
            c, norun = _limit_outcomes(prog, M, n)
            npts += 1
            if c == "uncounted-spawn" and not norun:
                bad["a"].append((M, n))
            if M != unset and c == "counted" and not n < M:
                bad["b"].append((M, n))
            if M != unset and n < M and (c != "counted" or norun):
                bad["c"].append((M, n))
    tc = prog.fn("task_cb", DAEMON)
    key = "task_cb/uncounted-implies-no-run"
    if bad["a"]:
        M, n = bad["a"][0]
        rep.fail(rid, key, tc.loc(), "with limit code %d and %d executions running task_cb spawns without counting the run while run_task does not select the "
                 "no-run flag: the job runs for real and is never counted, so a limit N admits unboundedly many concurrent runs (%d such points, "
                 "e.g. %s)" % (M, n, len(bad["a"]), bad["a"][:4]), {"points": bad["a"][:32]})
    else:
        rep.ok(rid, key, tc.loc(), "every spawn the timer callback does not count carries the no-run flag (%d points of the limit x counter grid)" % npts)
    key = "task_cb/counted-only-below-limit"
    if bad["b"]:
        M, n = bad["b"][0]
        rep.fail(rid, key, tc.loc(), "with an explicit limit of %d and %d executions already running another run is counted and started: more than N run at "
                 "the same time (%d such points, e.g. %s)" % (M, n, len(bad["b"]), bad["b"][:4]), {"points": bad["b"][:32]})
    else:
        rep.ok(rid, key, tc.loc(), "with an explicit limit M a run is counted only while fewer than M are running (all M in 0..%d)" % (unset - 1))
    key = "task_cb/runs-below-limit"
    if bad["c"]:
        M, n = bad["c"][0]
        rep.fail(rid, key, tc.loc(), "with a limit of %d and only %d executions running the occurrence is not started as a counted real run "
                 "(%d such points, e.g. %s)" % (M, n, len(bad["c"]), bad["c"][:4]), {"points": bad["c"][:32]})
    else:
        rep.ok(rid, key, tc.loc(), "below its limit an occurrence is counted and run for real")


def _severs_links(f, rec):
    """Does f contain a store `X.data = NULL` that is reached only under `X.data == rec` (X ranging over the child watchers)?"""
    from ..flow import edge_dominates
    cfg = f.cfg
    for b, i, x, line in cfg.all_elems():
        if not isinstance(x, dict):
            continue
        for l, kind, n in writes(x):
            if not (lv(l).endswith(".data") or lv(l).endswith("->data")) or kind != "assign":
                continue
            if int_value(strip_casts(cfg.resolve(n["r"]))) != 0:
                continue
            link = lv(l)
            for g in cfg.blocks:
                c = cfg.cond(g)
                if c is None:
                    continue
                for si, s_ in enumerate(cfg.blocks[g].succs):
                    if s_ is None or si in cfg.blocks[g].dead or not edge_dominates(cfg, g, si, b):
                        continue
                    for a in cond_atoms(c, si == 0):
                        if len(a) == 5 and a[0] == "==" and {a[1], a[2]} == {link, rec}:
                            return True
    return False


def r12_9(prog, rep):
    """A task record goes back to the pool (and to the next task submitted) in free_task().  Child watchers of executions still in
    flight point at it; their exit decrements `nsim` through that pointer.  So either no execution can be in flight when the record is
    freed, or free_task() makes every such watcher forget the record — and the child callback must then cope with a watcher whose
    task is gone."""
    rid = "R12.9"
    # the function that pushes a record onto the free list
    fr = None
    for f in prog.fns_in(DAEMON):
        if not f.cfg:
            continue
        for b, i, x, line in f.cfg.all_elems():
            if isinstance(x, dict):
                for l, kind, n in writes(x):
                    if lv(l) == "free_tasks" and kind == "assign" and any(p_["n"] == lv(strip_casts(f.cfg.resolve(n["r"]))) for p_ in f.params):
                        fr = (f, b, i, line, lv(strip_casts(f.cfg.resolve(n["r"]))))
    if fr is None:
        raise AnalysisBroken("R12.9: the function that hands a task record to the free list was not found")
    f, b, i, line, rec = fr
    key = "%s/no-watcher-keeps-a-freed-record" % f.name
    if _severs_links(f, rec):
        rep.ok(rid, key, f.loc(line), "every child watcher whose data is %s is made to forget it before the record is pooled" % rec)
    else:
        # or: the counter is known to be 0 on every path to the push
        mf = MustFacts(f.cfg)
        facts = mf.at(b, i) or set()
        if ("eq", rec + "->nsim", "0") in facts or ("false", rec + "->nsim") in facts:
            rep.ok(rid, key, f.loc(line), "the record is pooled only with no execution in flight")
        else:
            rep.fail(rid, key, f.loc(line), "%s() hands the record to the free list while child watchers of executions in flight may still point at it "
                     "(cancel or retirement during a run): the next task submitted gets the record, and the old execution's exit decrements *its* run "
                     "counter — 0 - 1 wraps and a task with a limit is reported not run for ever" % f.name)
    # the callback that follows the link
    cb = None
    for g in prog.fns_in(DAEMON):
        if not g.cfg:
            continue
        for b2, i2, x2, l2 in g.cfg.all_elems():
            if isinstance(x2, dict):
                for l, kind, n in writes(x2):
                    if (lv(l).endswith("->nsim") or lv(l).endswith(".nsim")) and step_of(kind, n) == -1:
                        cb = (g, b2, i2, l2, lv(l).rsplit("->", 1)[0])
    if cb is None:
        raise AnalysisBroken("R12.9: the decrement of the run counter was not found")
    g, gb, gi, gl, tv = cb
    key = "%s/link-tested-before-use" % g.name
    mf = MustFacts(g.cfg)
    facts = mf.at(gb, gi) or set()
    nonnull = any(fx in facts for fx in (("true", tv), ("ne", tv, "0"), ("ne", "0", tv)))
    if _severs_links(f, rec) and not nonnull:
        rep.fail(rid, key, g.loc(gl), "%s() severs watcher links, but %s() follows the link without testing it: an execution that outlives its task "
                 "dereferences NULL" % (f.name, g.name))
    else:
        rep.ok(rid, key, g.loc(gl), "the watcher's task pointer is %s before it is followed" % ("tested" if nonnull else "never severed"))


def r12_2(prog, rep):
    rid = "R12.2"
    incs, decs = [], []
    for f in prog.fns_in(DAEMON):
        if not f.cfg:
            continue
        for b, i, x, line in f.cfg.all_elems():
            for l, kind, n in writes(x):
                if lv(l).endswith("->nsim") or lv(l).endswith(".nsim"):
                    if step_of(kind, n) == 1:
                        incs.append((f, b, i, line))
                    elif step_of(kind, n) == -1:
                        decs.append((f, b, i, line))
                    elif kind != "decl":
                        # a reset to 0 is right where every watcher that points at the record is made to forget it in the same breath
                        # (the record is on its way to the free list): a store `<watcher>.data = NULL` under `<watcher>.data == record`
                        rec = lv(l).rsplit("->", 1)[0] if "->" in lv(l) else lv(l).rsplit(".", 1)[0]
                        if kind == "assign" and int_value(strip_casts(f.cfg.resolve(n["r"]))) == 0 and _severs_links(f, rec):
                            rep.ok(rid, "%s/nsim-write" % f.name, f.loc(line), "nsim = 0 together with the severing of every watcher link to %s" % rec)
                        else:
                            rep.fail(rid, "%s/nsim-write" % f.name, f.loc(line), "nsim is modified other than by ++/--: %s" % show(x))
    # bulk writes (memset/memcpy over a whole task record) modify the counter too: allowed only on a record that has just been
    # taken from the free list, never on a live task (its running children still point at it)
    nbulk = 0
    for f in prog.fns_in(DAEMON):
        if not f.cfg:
            continue
        for b, i, c, line in f.all_calls():
            if c.get("fn") not in ("memset", "memcpy", "memmove", "bzero", "explicit_bzero", "__builtin_memset", "__builtin_memcpy") or not c["a"]:
                continue
            a0 = strip_casts(f.cfg.resolve(c["a"][0]))
            t0 = (a0.get("t") or "").replace("const ", "").strip()
            if t0 not in ("_task_t", "struct _task_s *"):
                continue
            nbulk += 1
            var = lv(a0)
            srcs = set()
            for bb, ii, xx, ln in f.cfg.all_elems():
                for l, kind, n in writes(xx):
                    if lv(l) == var:
                        rhs = n.get("init") if kind == "decl" else (n.get("r") if n.get("k") == "bin" and n["op"] == "=" else None)
                        if rhs is not None:
                            srcs.add(show(strip_casts(f.cfg.resolve(rhs))))
            key = "%s/bulk-write(%s)" % (f.name, var)
            if srcs and all(s_ in ("free_tasks",) for s_ in srcs):
                rep.ok(rid, key, f.loc(line), "%s() clears a record fresh from the free list" % c["fn"], nontrivial=False)
            else:
                rep.fail(rid, key, f.loc(line), "%s() overwrites a whole task record obtained from %s: nsim of a live task is reset while its running children still "
                         "point at it (their exits then drive the counter below zero and every later occurrence is reported instead of run)" % (c["fn"], sorted(srcs) or "?"))
    if not nbulk:
        rep.broken_("rule=R12.2 expected the allocator's memset of a fresh task record, found none")
    if len(incs) != 1 or len(decs) != 1:
        rep.fail(rid, "nsim/single-inc-dec", "src/echsd.c", "expected exactly one increment and one decrement of nsim, found %d/%d" % (len(incs), len(decs)))
        return
    f, b, i, line = incs[0]
    cfg = f.cfg
    # after the increment: every path to exit passes ev_child_start, and c->data = t in between
    ok1 = must_pass_to_exit(cfg, (b, i), lambda x: elem_has_call(x, "ev_child_start"))
    if ok1:
        rep.ok(rid, "%s/inc-then-child-watcher" % f.name, f.loc(line), "nsim++ is followed by ev_child_start on every path")
    else:
        rep.fail(rid, "%s/inc-then-child-watcher" % f.name, f.loc(line), "nsim++ can be reached without starting a child watcher (count never released)")
    # the increment itself must be on the success edge of run_task (p > 0)
    rts = call_sites(f, "run_task")
    dom = [s for s in rts if site_before(cfg, s, Site(b, i, None, line))]
    if dom:
        rep.ok(rid, "%s/inc-after-spawn" % f.name, f.loc(line), "nsim++ is dominated by the run_task() spawn")
    else:
        rep.fail(rid, "%s/inc-after-spawn" % f.name, f.loc(line), "nsim++ is not dominated by a spawn")
    # callback and data
    inits = call_sites(f, "ev_child_init") or []
    cbname = None
    # ev_child_init is a macro: look for the store `->cb = chld_cb` via memmove or assignment
    for bb, ii, x, ln in cfg.all_elems():
        for n in walk(cfg.resolve(x)):
            if n.get("k") == "ref" and n.get("dk") == "fn" and n["n"].endswith("_cb") and n["n"] != f.name:
                cbname = n["n"]
    datas = []
    for bb, ii, x, ln in cfg.all_elems():
        for l, kind, n in writes(x):
            if lv(l).endswith("->data") and n.get("k") == "bin":
                datas.append(lv(n["r"]))
    g, gb, gi, gline = decs[0]
    if cbname == g.name:
        rep.ok(rid, "%s/child-callback" % f.name, f.loc(line), "the child watcher's callback is %s, which holds the only nsim--" % g.name)
    else:
        rep.fail(rid, "%s/child-callback" % f.name, f.loc(line), "child watcher callback is %s but the decrement lives in %s" % (cbname, g.name))
    tvar = lv(strip_casts([l for l, kind, n in writes(cfg.elem(b, i))][0])).split("->")[0]
    if datas == [tvar]:
        rep.ok(rid, "%s/child-data" % f.name, f.loc(line), "c->data = %s: the decrement hits the task whose counter was incremented" % tvar)
    else:
        rep.fail(rid, "%s/child-data" % f.name, f.loc(line), "c->data is set from %s, not from the task %s that was counted" % (datas, tvar))
    # decrement is unconditional in the callback
    # ... unconditional for a watcher that still has a task: the paths that skip it are those behind `task == NULL`
    from ..flow import edge_dominates as _ed
    tvn = lv(strip_casts([l2 for l2, k2, n2 in writes(g.cfg.elem(gb, gi))][0])).split("->")[0]
    gone = set()
    null_edges = set()
    for q in g.cfg.blocks:
        c_ = g.cfg.cond(q)
        if c_ is None:
            continue
        for si_, s__ in enumerate(g.cfg.blocks[q].succs):
            if s__ is None or si_ in g.cfg.blocks[q].dead:
                continue
            if any(a_ in (("false", tvn), ) or (len(a_) == 5 and a_[0] == "==" and {a_[1], a_[2]} == {tvn, "0"}) or a_[:2] == ("false", tvn)
                   for a_ in cond_atoms(c_, si_ == 0)):
                gone |= {bb for bb in g.cfg.blocks if _ed(g.cfg, q, si_, bb)}
                null_edges.add((q, si_))
    # a path that reaches the exit without the decrement must take an edge on which the task is known to be gone (the edge may lead
    # straight to the common tail, so it is the edges that are taken out, not the blocks behind them)
    def _skips():
        seen_, todo_ = {g.cfg.entry}, [g.cfg.entry]
        while todo_:
            q_ = todo_.pop()
            if q_ == g.cfg.exit:
                return True
            if q_ == gb:
                continue
            for si_, s__ in enumerate(g.cfg.blocks[q_].succs):
                if s__ is None or si_ in g.cfg.blocks[q_].dead or (q_, si_) in null_edges or s__ in seen_:
                    continue
                seen_.add(s__)
                todo_.append(s__)
        return False
    if g.cfg.dominates(gb, g.cfg.exit) or all(gb in g.cfg.dom().get(p, ()) for p in g.cfg.lpreds[g.cfg.exit]) or \
            (gone and not g.cfg.paths_avoiding(g.cfg.entry, g.cfg.exit, gone | {gb})) or (null_edges and not _skips()):
        rep.ok(rid, "%s/dec-unconditional" % g.name, g.loc(gline), "every child exit decrements nsim")
    else:
        rep.fail(rid, "%s/dec-unconditional" % g.name, g.loc(gline), "a path through %s skips the decrement" % g.name)
    # the decremented task is c->data: every definition of the variable the decrement goes through is the watcher's data
    tv = lv(strip_casts([l2 for l2, k2, n2 in writes(g.cfg.elem(gb, gi))][0])).split("->")[0]
    srcs = []
    for bb, ii, x, ln in g.cfg.all_elems():
        for l, kind, n in writes(x):
            if lv(l) != tv:
                continue
            rhs = n.get("init") if kind == "decl" else (n.get("r") if n.get("k") == "bin" and n["op"] == "=" else {})
            if rhs is not None:
                srcs.append(lv(g.cfg.resolve(rhs)))
    if srcs and all(s_.endswith("->data") for s_ in srcs):
        rep.ok(rid, "%s/dec-target" % g.name, g.loc(gline), "decrement applies to %s" % srcs[0])
    else:
        rep.fail(rid, "%s/dec-target" % g.name, g.loc(gline), "decrement applies to %s, not to the watcher's data" % (srcs or None))


# accepted exceptions for R12.3, confirmed by reading
STATIC_EXCEPTIONS = {
    ("cmd_ical_rpl", "now"): "memo of the last formatted second; stale value only skips a re-format of the same timestamp",
    ("cmd_ical_rpl", "stmp"): "formatted timestamp cached together with `now`",
    ("cmd_ical_rpl", "nrpl"): "reply counter deliberately spans calls until the flush form resets it",
}


def r12_3(prog, rep, files=(DAEMON,), rid="R12.3", need_init=True, only=None, exceptions=None, discharge=None):
    """need_init=False: every mutable function-local static that the function writes is in scope (used by the `no carried state`
    rules of the pure conversions); only: {file: set of function names} restricts a file to some functions."""
    n = 0
    exceptions = STATIC_EXCEPTIONS if exceptions is None else exceptions
    for file in files:
        for f in prog.fns_in(file):
            if not f.cfg or (only and file in only and f.name not in only[file]):
                continue
            statics = [l for l in f.locals if l.get("static") and "const" not in (l.get("t") or "").split("*")[-1]]
            # const-qualified element types are read-only tables
            # (a pointer to const is itself a mutable object: `static const char *zn`)
            statics = [l for l in statics if not ((l.get("t") or "").startswith("const ") and "*" not in (l.get("t") or ""))]
            if not statics:
                continue
            cfg = f.cfg
            for s in statics:
                name = s["n"]
                # scope: statics that carry an initialiser (a table of defaults that calls mutate);
                # uninitialised static buffers used as return storage are out of scope
                tabs = [t for t in prog.tables.get(name, []) if t["scope"] == "function:" + f.name]
                if need_init and (not tabs or (tabs[0].get("init") is None and tabs[0].get("values") is None)):
                    continue
                # elements written in this function
                written = {}
                for b, i, x, line in cfg.all_elems():
                    for l, kind, nn in writes(x):
                        if kind == "decl":
                            continue
                        t = lv(l)
                        if t == name or t.startswith(name + "[") or t.startswith(name + "."):
                            if "[" in t and not re.fullmatch(r".*\[\d+\]", t):
                                if need_init:
                                    continue  # variable index: not an element of a fixed table
                                t = name + "[*]"   # a slot chosen at run time: nothing shows that it is rewritten before the next use
                            written.setdefault(t, []).append((b, i, nn.get("line", line)))
                    for l in []:
                        pass
                if not written:
                    continue
                n += 1
                if (f.name, name) in exceptions:
                    rep.note(rid, "%s/static %s" % (f.name, name), f.loc(s.get("line")), "listed exception: " + exceptions[(f.name, name)])
                    continue

                def extra_gen(x, _name=name):
                    out = set()
                    for l, kind, nn in writes(x):
                        t = lv(l)
                        if kind != "decl" and (t == _name or t.startswith(_name + "[") or t.startswith(_name + ".")):
                            out.add(("set", t))
                    return out
                mf = MustFacts(cfg, extra_gen=extra_gen, kills=lambda x: set())
                # uses: the object (or a written element) read or passed to a call
                bad = []
                uses = 0
                for b, i, x, line in cfg.all_elems():
                    wl = {id(strip_casts(l)) for l, kind, nn in writes(x)}
                    for nnode in walk(x):
                        if nnode.get("k") == "ref" and nnode["n"] == name and nnode.get("dk") == "slocal":
                            # is this reference the root of a pure store target?  then it is not a read
                            is_store_root = False
                            for l, kind, nn in writes(x):
                                rv = root_var(l)
                                if rv is nnode and kind != "incdec" and nn.get("op") == "=":
                                    is_store_root = True
                            if is_store_root:
                                continue
                            uses += 1
                            facts = mf.at(b, i) or set()
                            for t in written:
                                if ("set", t) not in facts:
                                    bad.append((t, line, show(cfg.resolve(x))[:120]))
                key = "%s/static %s" % (f.name, name)
                if bad and discharge is not None:
                    okd, why = discharge(f, name)
                    if okd:
                        rep.ok(rid, key, f.loc(s.get("line")), why)
                        continue
                    t, ln, what = bad[0]
                    rep.fail(rid, key, f.loc(ln), "function-local static `%s` is used (`%s`) on a path on which this call has not written it: %s" % (name, what, why),
                             {"function": f.name, "static": name})
                    continue
                if bad:
                    t, ln, what = bad[0]
                    rep.fail(rid, key, f.loc(ln),
                             "function-local static `%s`: element %s is written on some path (line %s) but is not written on every path before "
                             "the object is used in `%s`; the value of an earlier call leaks into this one (shared across all tasks)" % (
                                 name, t, written[t][0][2], what),
                             {"function": f.name, "static": name, "elements": sorted(written)})
                else:
                    rep.ok(rid, key, f.loc(s.get("line")), "every written element of static `%s` is (re)written on all paths before use (%d uses)" % (name, uses))
    return n


def r12_4(prog, rep, snap):
    rid = "R12.4"
    rt = prog.fn("run_task", DAEMON)
    flags = []
    for b, i, x, line in rt.cfg.all_elems():
        for l, kind, n in writes(x):
            if n.get("k") == "bin" and n["op"] == "=" and strip_casts(n["r"]).get("k") == "str" and lv(l).startswith("args["):
                flags.append((strip_casts(n["r"])["v"], n.get("line", line)))
    yuck = open(os.path.join(snap.src, "echsx.yuck")).read()
    shorts = dict(re.findall(r"^\s+-(\w), --([\w-]+)", yuck, re.M))
    if not flags:
        rep.fail(rid, "run_task/no-run-flag", rt.loc(), "run_task no longer passes a no-run flag to the executor")
    for fl, ln in flags:
        ok = fl.startswith("-") and all(ch in shorts for ch in fl[1:]) and any(shorts.get(ch) == "no-run" for ch in fl[1:])
        if ok:
            rep.ok(rid, "run_task/flag %s" % fl, rt.loc(ln), "%s = %s are options of echsx.yuck incl. --no-run" % (fl, ",".join("--" + shorts[ch] for ch in fl[1:])))
        else:
            rep.fail(rid, "run_task/flag %s" % fl, rt.loc(ln), "flag %r is not composed of echsx short options including --no-run (%s)" % (fl, shorts))
    # static argv shape: args[0] program, NULL terminated, and the slot written lies inside the array
    tab = [t for t in prog.tables.get("args", []) if t["scope"] == "function:run_task"]
    if tab:
        ext = tab[0].get("extent")
        for l in [lv(l) for b, i, x, line in rt.cfg.all_elems() for l, kind, n in writes(x) if lv(l).startswith("args[")]:
            idx = int(re.findall(r"\[(\d+)\]", l)[0])
            if ext and idx < ext - 1:
                rep.ok(rid, "run_task/argv-slot", rt.loc(), "%s lies before the terminating NULL of args[%d]" % (l, ext))
            else:
                rep.fail(rid, "run_task/argv-slot", rt.loc(), "%s overwrites the argv terminator (extent %s)" % (l, ext))
    # executor side
    ex = prog.fn("echsx", "echsx.c")
    cfg = ex.cfg
    test = None
    for b in cfg.blocks:
        c = cfg.cond(b)
        if c is not None and lv(strip(c)).endswith("no_run_flag"):
            test = b
    if test is None:
        rep.fail(rid, "echsx/no-run-test", ex.loc(), "echsx() no longer tests argi->no_run_flag")
        return
    hits, _ = forward_scan(cfg, edge_start(cfg, test, 0), lambda b, i, x: "hit" if elem_has_call(x, ("prep_task", "run_task")) else None)
    if hits:
        rep.fail(rid, "echsx/no-run-bypasses-spawn", ex.loc(), "the --no-run edge can still reach prep_task/run_task")
    else:
        rep.ok(rid, "echsx/no-run-bypasses-spawn", ex.loc(), "the --no-run edge reaches neither prep_task nor run_task")
    for nm in ("prep_task", "run_task"):
        for S in call_sites(ex, nm):
            if cfg.dominates(test, S.b):
                rep.ok(rid, "echsx/no-run-dominates-%s" % nm, ex.loc(S.line), "the no-run test dominates %s" % nm)
            else:
                rep.fail(rid, "echsx/no-run-dominates-%s" % nm, ex.loc(S.line), "%s is reachable without passing the no-run test" % nm)
    # NOT RUN report: the no-run edge sets an error message that the journal prints
    hits, _ = forward_scan(cfg, edge_start(cfg, test, 0), lambda b, i, x: "hit" if any(lv(l).endswith("errmsg") for l, k, n in writes(x)) else None)
    if hits:
        rep.ok(rid, "echsx/no-run-report", ex.loc(), "the --no-run edge records an error message for the journal/mail")
    else:
        rep.fail(rid, "echsx/no-run-report", ex.loc(), "the --no-run edge records no message: the occurrence is not reported as not run")


def r12_7(prog, rep, rid="R12.7"):
    """Every occurrence that comes due is handed to the executor: each path through the timer callback passes run_task() - the real run
    when a slot is free, the `not run` report otherwise.  An occurrence that is dropped silently is neither run nor reported."""
    tc = prog.fn("task_cb", DAEMON)
    if must_pass_to_exit(tc.cfg, (tc.cfg.entry, -1), lambda x: elem_has_call(x, "run_task")):
        rep.ok(rid, "task_cb/every-occurrence-reaches-the-executor", tc.loc(), "every path through task_cb passes run_task()")
    else:
        rep.fail(rid, "task_cb/every-occurrence-reaches-the-executor", tc.loc(),
                 "task_cb can return without calling run_task(): an occurrence that falls due while the limit is reached (or on that path) "
                 "is neither started nor reported as not run")


def r12_8(prog, rep, rid="R12.8"):
    """`unset` means unlimited for every reader.  The field holds the limit in w bits; the parser stores N+1, make_task() takes one off
    again, so an event without the property carries the all-ones code — the value the serialiser treats as `do not write`.  Walked with
    the limit fixed to that code and the run counter fixed at and beyond it (value-fixed walk): the timer callback must still take its
    counted branch, and run_task() must not select the no-run flag."""
    from ..rules import encodings
    width = encodings.field_width(prog, "max_simul")
    unset = (1 << width) - 1
    tc = prog.fn("task_cb", DAEMON)
    rt = prog.fn("run_task", DAEMON)
    for running in (0, unset - 1, unset, unset + 1, 1000):
        c, norun = _limit_outcomes(prog, unset, running)
        for f, ok, what, did in ((tc, c == "counted", "the timer callback", "spawned uncounted" if c != "none" else "dropped"),
                                 (rt, not norun, "run_task()", "reported as not run instead of being started")):
            key = "%s/unset-is-unlimited(nsim=%d)" % (f.name, running)
            if ok:
                rep.ok(rid, key, f.loc(), "with the limit unset (code %d) and %d executions running %s still %s" % (
                    unset, running, what, "counts and supervises the run" if f is tc else "starts the job for real"), nontrivial=(running == unset))
            else:
                rep.fail(rid, key, f.loc(), "a task without X-ECHS-MAX-SIMUL carries the code %d (`unset`, which the serialiser does not write); with %d of its "
                         "executions running %s compares it like a limit: the occurrence is %s — `unset` is a silent limit of %d, not unlimited" % (
                             unset, running, what, did, unset))


def run(prog, rep, tier, snap):
    rep.rule("R12.1", "every real run is counted, counted only below the limit, and run below it (limit x counter grid)", 3)
    rep.call(r12_1, prog, rep)
    rep.rule("R12.2", "nsim increment/decrement pairing through the child watcher", 5)
    rep.call(r12_2, prog, rep)
    rep.rule("R12.9", "no child watcher keeps pointing at a task record that went back to the pool", 2)
    rep.call(r12_9, prog, rep)
    rep.rule("R12.3", "no function-local static state leaks between calls (definite assignment before use)", 2)
    files = (DAEMON,) if tier == "quick" else (DAEMON, "echsx.c", "echsq.c", "evical.c")
    from ..rules import state
    # lazily computed process constants (the DTSTAMP line of the serialiser's header, thorough tier) are discharged by shape, not by name
    rep.call(r12_3, prog, rep, files, discharge=lambda f_, name_: state.lazy_constant(prog, f_, name_))
    rep.rule("R12.4", "no-run flag agrees with the executor's options and bypasses the spawn", 5)
    rep.call(r12_4, prog, rep, snap)
    rep.rule("R12.7", "every occurrence that comes due reaches the executor (run or reported not run)", 1)
    rep.call(r12_7, prog, rep)
    rep.rule("R12.8", "an unset limit is unlimited for the daemon as it is for the serialiser", 10)
    rep.call(r12_8, prog, rep)
    from ..rules import watch
    rep.rule("R12.5", "child watchers whose callback means 'terminated' are registered for termination only", 1)
    rep.call(watch.child_watchers, prog, rep, "R12.5", "echsd.c")
    from ..rules import spawn
    rep.rule("R12.6", "a failed posix_spawn (positive error number) is not taken for a started process", 1)
    rep.call(spawn.spawn_results, prog, rep, "R12.6", "echsd.c", 1)
    from ..rules import encodings
    rep.rule("R05.4", "MAX-SIMUL sentinel encoding round-trips over the whole field domain (shared with C05)", 1)
    encodings.r05_4(prog, rep, which=("max_simul",))
    from . import c05
    rep.rule("R05.7", "calendar-level defaults fill only what the event leaves unset; an event's own limit replaces a calendar-wide one (shared with C05)", 4)
    rep.call(c05.r05_7, prog, rep)
    from . import c13
    rep.rule("R13.10", "the executor's stdout carries the `not run` report of an occurrence over its limit (shared with C13)", 1)
    rep.call(c13.r13_10, prog, rep)
READY = True

# texts brought up to date with the rules above (they supersede the first versions at the top of the module)
LEVEL_TEXT = LEVEL_TEXT + (" Also: no child watcher keeps pointing at a task record that went back to the pool (links severed, or no run in flight; "
                           "the callback tests the link before following it); the executor leaves its own standard descriptors alone.")
