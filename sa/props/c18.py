"""C18 — date-time and duration text forms round-trip (structural clauses)."""
from ..facts import walk, strip, strip_casts, lv, show, writes, calls, int_value
from ..q import const_eval, backward_scan, forward_scan
from ..snapshot import AnalysisBroken
from . import c08

UNITS = None
EXPLANATION = (
    "R18.1: the duration parser accumulates days and milliseconds in 64-bit objects and evaluates the millisecond products in 64 bits "
    "(same rule as R08.1, on idiff_strp/idiff_strf). R18.2: from each alternative of the leading-character switch of idiff_strp (`P`, `+`, `-`) "
    "the date-part scanner is reachable without passing the error exit, and only `-` sets the negation flag. R18.3: every unit letter "
    "idiff_strf can emit is accepted by idiff_strp in the state in which it is emitted, with the same multiplier on both sides "
    "(D = 86400000, H = 3600000, M = 60000, S = 1000 ms; W = 7 D on input). R18.4: the longest output of dt_strf/dt_strf_ical (pad widths "
    "plus separator stores, maximised over paths) fits the default scan window of dt_strp.")
NOT_DECIDED = "digit-level parsing/printing of instants (dt_strp/dt_strf), value-level round trip; the behaviour itself"
TRUSTED = ["clang 14 parser/CFG builder", "echse-facts extractor", "python rule engines in /verif/sa"]
LEVEL_TEXT = ("Static verdict on necessary structural clauses of C18 for durations: 64-bit accumulation, every sign alternative reaches the "
              "value parser, unit letters and multipliers agree between printer and parser. Instant text forms are not decided.")
LEVEL_NOTE = "Trusted: clang 14 front end/CFG, extractor, rule engines."
TECHNIQUE = "static analysis: typed-width inspection, CFG reachability avoiding the error exit, writer/reader table agreement of unit letters"


def _switches(f):
    cfg = f.cfg
    out = []
    for b, blk in sorted(cfg.blocks.items(), reverse=True):
        if blk.term and blk.term["kind"] == "switch":
            cases = {}
            for s in blk.all_succs():
                lab = cfg.blocks[s].label
                if lab and lab["k"] == "case" and lab.get("lo") is not None:
                    cases[lab["lo"]] = s
                elif lab and lab["k"] == "default":
                    cases["default"] = s
            out.append((b, cases))
    return out


def r18_2(prog, rep):
    rid = "R18.2"
    f = prog.fn("idiff_strp", "dt-strpf.c")
    cfg = f.cfg
    sw = _switches(f)
    lead = [s for s in sw if ord("P") in s[1] and (ord("+") in s[1] or ord("-") in s[1])]
    if not lead:
        raise AnalysisBroken("idiff_strp: leading-character switch not found")
    b0, cases = lead[0]
    labels = {blk.label["n"]: b for b, blk in cfg.blocks.items() if blk.label and blk.label["k"] == "label"}
    if "more_date" not in labels or "out" not in labels:
        raise AnalysisBroken("idiff_strp: labels more_date/out not found (%s)" % sorted(labels))
    target, err = labels["more_date"], labels["out"]
    for ch in ("P", "+", "-"):
        key = "idiff_strp/lead '%s'" % ch
        if ord(ch) not in cases:
            rep.fail(rid, key, f.loc(), "no case for a leading '%s'" % ch)
            continue
        if cfg.paths_avoiding(cases[ord(ch)], target, {err}):
            rep.ok(rid, key, f.loc(cfg.blocks[cases[ord(ch)]].label.get("line")), "a leading '%s' can reach the date-part scanner without passing the error exit" % ch)
        else:
            rep.fail(rid, key, f.loc(cfg.blocks[cases[ord(ch)]].label.get("line")),
                     "after a leading '%s' every path runs into the error exit: signed durations are read as zero" % ch)
    # negation flag set exactly on the '-' alternative
    negs = []
    for b, i, x, line in cfg.all_elems():
        for l, kind, n in writes(x):
            if n.get("k") == "bin" and n["op"] == "=" and const_eval(f, n["r"]) == 1 and lv(l).startswith("neg"):
                negs.append(b)
    if negs and all(b == cases.get(ord("-")) for b in negs):
        rep.ok(rid, "idiff_strp/negation", f.loc(), "the negation flag is set on the '-' alternative only")
    else:
        rep.fail(rid, "idiff_strp/negation", f.loc(), "negation flag set in blocks %s, expected only the '-' case" % negs)


def r18_3(prog, rep):
    rid = "R18.3"
    p = prog.fn("idiff_strp", "dt-strpf.c")
    w = prog.fn("idiff_strf", "dt-strpf.c")
    sw = _switches(p)
    date_sw = [s for s in sw if ord("D") in s[1] and ord("W") in s[1]]
    time_sw = [s for s in sw if ord("H") in s[1] and ord("S") in s[1]]
    lead = [s for s in sw if ord("P") in s[1] and ord("-") in s[1]]
    if not (date_sw and time_sw and lead):
        raise AnalysisBroken("idiff_strp: date/time/lead switches not found")
    msd = prog.macro_int("MSECS_PER_DAY", "dt-strpf.c")
    # reader multipliers
    rmul = {}
    for (sb, cases), unit in ((date_sw[0], "date"), (time_sw[0], "time")):
        for ch, blk in cases.items():
            if ch == "default":
                continue
            region = [bb for bb in p.cfg.reach_from(blk) if p.cfg.dominates(blk, bb) and (bb == blk or not p.cfg.blocks[bb].label)]
            for e in [e_ for bb in region for e_ in p.cfg.blocks[bb].elems]:
                for l, kind, n in writes(e["x"]):
                    if n.get("k") == "bin" and n["op"] == "+=":
                        r = strip_casts(p.cfg.resolve(n["r"]))
                        c = 1
                        for m in walk(r):
                            if m.get("k") == "bin" and m["op"] == "*":
                                v = const_eval(p, m["r"])
                                if v is not None:
                                    c *= v
                        rmul[chr(ch)] = c * (msd if unit == "date" else 1)
    # writer letters with their divisors
    wl = {}
    for b, i, x, line in w.cfg.all_elems():
        for l, kind, n in writes(x):
            if n.get("k") == "bin" and n["op"] == "=" and "buf[" in lv(l):
                r = strip_casts(n["r"])
                if r.get("k") == "int" and r.get("ch"):
                    ch = chr(r["v"])
                    div = None

                    def visit(bb, ii, xx):
                        for l2, k2, n2 in writes(xx):
                            if lv(l2) == "tmp" and n2.get("k") == "bin":
                                rr = strip_casts(w.cfg.resolve(n2["r"]))
                                if rr.get("k") == "bin" and rr["op"] == "/":
                                    visit.div = const_eval(w, rr["r"])
                                    return "hit"
                        return None
                    visit.div = None
                    backward_scan(w.cfg, (b, i), visit)
                    wl.setdefault(ch, set()).add(visit.div)
    rep.extra["R18.3_reader_multipliers_ms"] = rmul
    rep.extra["R18.3_writer_letters"] = {k: sorted(str(x) for x in v) for k, v in wl.items()}
    state = {"P": lead[0][1], "-": lead[0][1], "D": date_sw[0][1], "T": date_sw[0][1], "H": time_sw[0][1], "M": time_sw[0][1], "S": time_sw[0][1]}
    for ch in ("-", "P", "D", "T", "H", "M", "S"):
        key = "letter '%s'" % ch
        if ch not in wl:
            rep.fail(rid, key, w.loc(), "idiff_strf never emits '%s'" % ch)
            continue
        if ord(ch) not in state[ch]:
            rep.fail(rid, key, p.loc(), "idiff_strf emits '%s' but idiff_strp has no case for it in that state" % ch)
            continue
        if ch in ("D", "H", "M", "S"):
            divs = {d for d in wl[ch] if d}
            # 'D' is also written for the zero duration "P0D" without a division
            if divs and divs == {rmul.get(ch)}:
                rep.ok(rid, key, w.loc(), "'%s' = %d ms on both sides" % (ch, rmul[ch]))
            else:
                rep.fail(rid, key, w.loc(), "unit '%s': printer divides by %s, parser multiplies by %s" % (ch, sorted(divs), rmul.get(ch)))
        else:
            rep.ok(rid, key, w.loc(), "'%s' is accepted by the parser where the printer emits it" % ch)
    # weeks on input
    if rmul.get("W") == 7 * msd:
        rep.ok(rid, "letter 'W'", p.loc(), "W = 7 days on input")
    else:
        rep.fail(rid, "letter 'W'", p.loc(), "W multiplies by %s ms, expected %d" % (rmul.get("W"), 7 * msd))
    if rmul.get("D") != msd:
        rep.fail(rid, "letter 'D'/reader", p.loc(), "D multiplies by %s ms on input, expected %d" % (rmul.get("D"), msd))


def r18_1(prog, rep):
    """R08.1 restricted to the duration text functions."""
    rid = "R18.1"

    class Sub:
        pass
    # reuse c08.r08_1 on a filtered program view: run it and keep only dt-strpf.c instances
    class RepView:
        def __init__(self, rep):
            self.rep = rep
            self.n = 0

        def ok(self, r, key, loc, msg, nontrivial=True):
            if "dt-strpf.c" in loc:
                self.n += 1
                self.rep.ok(rid, key, loc, msg, nontrivial)

        def fail(self, r, key, loc, msg, detail=None):
            if "dt-strpf.c" in loc:
                self.n += 1
                self.rep.fail(rid, key, loc, msg, detail)

        def note(self, r, key, loc, msg):
            if "dt-strpf.c" in loc:
                self.rep.note(rid, key, loc, msg)

        def broken_(self, msg):
            pass
    v = RepView(rep)
    c08.r08_1(prog, v)
    if v.n < 2:
        rep.broken_("rule=R18.1 expected >=2 instances in dt-strpf.c, found %d" % v.n)


def _max_written(f):
    """Longest output of an instant printer: constant pad widths of ui32tpstr() plus single-character stores through the cursor,
    maximised over all paths (path enumeration with the count as ghost)."""
    from ..absw import AbsWalk
    cfg = f.cfg
    buf = f.params[0]["n"]

    def effect(b, i, x, store):
        add = 0
        if x.get("k") == "call" and x.get("fn") == "ui32tpstr":
            pad = const_eval(None, cfg.resolve(x["a"][3]))
            if pad is None:
                raise AnalysisBroken("%s: ui32tpstr pad is not constant" % f.name)
            add = pad
        elif x.get("k") == "bin" and x["op"] == "=":
            l = strip_casts(cfg.resolve(x["l"]))
            if l.get("k") == "un" and l["op"] == "*":
                inner = strip_casts(l["e"])
                if inner.get("k") == "un" and inner["op"] == "post++":
                    c = const_eval(None, cfg.resolve(x["r"]))
                    if c:   # the terminating NUL is no output
                        add = 1
        if add:
            return {"$n": store.get("$n", 0) + add}
        return None
    w = AbsWalk(f, set(), init={"$n": 0}, effect=effect)
    w.run()
    return max(st.get("$n", 0) for st in w.exit_stores)


def r18_4(prog, rep):
    """The parser's default scan window (used when the caller does not know the length) covers the longest text the printers emit."""
    rid = "R18.4"
    rd = prog.fn("dt_strp", "dt-strpf.c")
    cfg = rd.cfg
    lenp = rd.params[2]["n"]
    win = None
    for b, i, x, line in cfg.all_elems():
        for n in walk(cfg.resolve(x)):
            if n.get("k") == "cond" and lv(strip_casts(n["c"])) == lenp:
                win = (const_eval(None, n["F"]), n.get("line", line))
    if win is None or win[0] is None:
        raise AnalysisBroken("dt_strp: default window `%s ?: K` not found" % lenp)
    for name in ("dt_strf", "dt_strf_ical"):
        wr = prog.fn(name, "dt-strpf.c")
        m = _max_written(wr)
        if m < 8:
            raise AnalysisBroken("%s: longest output computed as %d" % (name, m))
        key = "dt_strp/default-window>=%s" % name
        if win[0] >= m:
            rep.ok(rid, key, rd.loc(win[1]), "default window %d covers the longest %s output (%d characters)" % (win[0], name, m))
        else:
            rep.fail(rid, key, rd.loc(win[1]),
                     "dt_strp scans at most %d characters when the length is not given, %s() prints up to %d: the tail of a printed date-time "
                     "(seconds/milliseconds) is not read back" % (win[0], name, m))


def r18_5(prog, rep):
    """The value is a number of milliseconds; the printer peels off days, hours, minutes and seconds by successive division.  What is
    left after the smallest unit it prints must be looked at again (tested for zero, or printed as a fraction): otherwise every
    duration that is not a whole number of that unit reads back as a different value."""
    rid = "R18.5"
    w = prog.fn("idiff_strf", "dt-strpf.c")
    cfg = w.cfg
    val = None
    divs = []
    for b, i, x, line in cfg.all_elems():
        for nn in walk(x if isinstance(x, dict) else {}):
            if nn.get("k") == "bin" and nn["op"] in ("/", "/=") :
                c = const_eval(w, nn["r"])
                l = strip_casts(nn["l"])
                if c and c >= 1000 and l.get("k") in ("mem", "ref"):
                    divs.append((c, b, i, lv(l), nn.get("line", line)))
    if len(divs) < 3:
        raise AnalysisBroken("idiff_strf: the unit divisions were not found (%s)" % [d[0] for d in divs])
    c, b, i, val, line = min(divs)
    # reads of the value after the division by the smallest unit, other than its own `%=` / `-=` bookkeeping
    def visit(bb, ii, xx):
        if not isinstance(xx, dict):
            return None
        for nn in walk(cfg.resolve(xx)):
            if nn.get("k") in ("mem", "ref") and lv(nn) == val:
                # is this occurrence only the target (and implicit operand) of a compound assignment?
                own = any(lv(l) == val and kind in ("compound", "assign") for l, kind, n2 in writes(xx))
                if not own:
                    return "hit"
        return None
    hits, _ = forward_scan(cfg, (b, i), visit)
    key = "idiff_strf/sub-second-remainder"
    if hits:
        rep.ok(rid, key, w.loc(line), "what is left after the smallest printed unit (%d ms) is examined again" % c)
    else:
        rep.fail(rid, key, w.loc(line), "the smallest unit idiff_strf() prints is %d ms and what is left of %s after it is never looked at again: a duration that is "
                 "not a whole number of seconds loses its remainder (1500 ms prints as PT1S and reads back as 1000; 500 ms prints as the malformed `PT`)" % (c, val))


def r18_6(prog, rep, rid="R18.6"):
    """dur-date = dur-day [dur-time], dur-time = "T" ...: the time designators H/M/S are read only after the `T` that introduces them
    has been consumed.  In idiff_strp() that means: from every case of the date-part dispatch other than `T` (W, D) control comes back
    to that dispatch before it can reach the time-part dispatch — otherwise `P1DT2H`, the form idiff_strf() prints for anything beyond a
    day, stops at the T and the whole value is refused by the callers."""
    from ..q import forward_scan
    f = prog.fn("idiff_strp", "dt-strpf.c")
    cfg = f.cfg
    sw = _switches(f)
    date_sw = [s_ for s_ in sw if ord("D") in s_[1] and ord("T") in s_[1]]
    time_sw = [s_ for s_ in sw if ord("H") in s_[1] and ord("S") in s_[1]]
    if not (date_sw and time_sw):
        raise AnalysisBroken("idiff_strp: date/time dispatch not found")
    db, dcases = date_sw[0]
    tb = time_sw[0][0]
    n = 0
    for ch, blk in sorted(dcases.items(), key=str):
        if ch in ("default", ord("T")):
            continue
        n += 1
        hits, _ = forward_scan(cfg, (blk, -1), lambda b_, i_, x_: "stop" if b_ == db else ("hit" if b_ == tb else None))
        direct = bool(hits) or (tb in cfg.reach_from(blk) and db not in cfg.reach_from(blk))
        # reachability on the block level (blocks without elements are not visited by the element scan)
        seen, work, bad = set(), [blk], False
        while work:
            b_ = work.pop()
            if b_ in seen or b_ == db:
                continue
            seen.add(b_)
            if b_ == tb:
                bad = True
                break
            work.extend(cfg.blocks[b_].live_succs())
        key = "idiff_strp/%s-returns-to-date-dispatch" % chr(ch)
        if bad:
            rep.fail(rid, key, f.loc(cfg.blocks[blk].elems[0].get("line") if cfg.blocks[blk].elems else None),
                     "after a `%s` designator the parser can fall into the time part without the `T` having been read: `P1DT2H` — what the printer "
                     "writes for a day and two hours — stops at the T" % chr(ch))
        else:
            rep.ok(rid, key, f.loc(), "after `%s` the next designator is read by the date dispatch again (a following T is consumed there)" % chr(ch))
    if n < 2:
        rep.broken_("rule=%s expected the W and D cases of the date dispatch, found %d" % (rid, n))


def r18_7(prog, rep, rid="R18.7"):
    """dur-hour = 1*DIGIT "H" ...: a count of zero is a count.  Whether a designator is read must not depend on the value of the count
    in front of it — in idiff_strp() no branch on the accumulator may lead past the dispatch that reads the designator (`PT1H0M30S`
    and `PT1H30S` are the same duration)."""
    f = prog.fn("idiff_strp", "dt-strpf.c")
    cfg = f.cfg
    sw = [s_ for s_ in _switches(f) if (ord("D") in s_[1] and ord("T") in s_[1]) or (ord("H") in s_[1] and ord("S") in s_[1])]
    if len(sw) < 2:
        raise AnalysisBroken("idiff_strp: date/time dispatch not found")
    swb = {b for b, _ in sw}
    # the accumulators: what the case bodies add to the result
    acc = set()
    for b, i, x, line in cfg.all_elems():
        if isinstance(x, dict):
            for l, kind, nn in writes(x):
                if kind == "compound" and nn.get("op") == "+=":
                    for q in walk(cfg.resolve(nn["r"])):
                        if q.get("k") == "ref" and q.get("dk") == "local":
                            acc.add(q["n"])
    resets = {}
    for b, i, x, line in cfg.all_elems():
        if isinstance(x, dict):
            for l, kind, nn in writes(x):
                if lv(l) in acc and kind == "assign" and int_value(strip_casts(cfg.resolve(nn["r"]))) == 0:
                    resets.setdefault(lv(l), []).append(b)
    acc = {a for a in acc if a in resets}
    if not acc:
        raise AnalysisBroken("idiff_strp: the count accumulator (reset to 0, added into the result) was not found")

    def escapes(b0, S):
        seen, work = set(), [b0]
        while work:
            b_ = work.pop()
            if b_ in seen or b_ == S:
                continue
            seen.add(b_)
            if b_ == cfg.exit:
                return True
            work.extend(cfg.blocks[b_].live_succs())
        return False
    n = 0
    for S, cases in sw:
        # blocks from which S is the next dispatch
        region, work = set(), [p_ for p_ in cfg.blocks if S in cfg.blocks[p_].live_succs()]
        while work:
            b_ = work.pop()
            if b_ in region or b_ in swb:
                continue
            region.add(b_)
            work.extend(p_ for p_ in cfg.blocks if b_ in cfg.blocks[p_].live_succs())
        n += 1
        what = "date" if ord("D") in cases else "time"
        key = "idiff_strp/%s-designator-read-whatever-the-count" % what
        bad = None
        for b_ in sorted(region):
            c = cfg.cond(b_)
            if c is None:
                continue
            names = {q["n"] for q in walk(f.expand(c)) if q.get("k") == "ref"}
            if not (names & acc):
                continue
            # the accumulation loop itself (a digit test feeding the accumulator) never names the accumulator in its condition
            if any(escapes(s_, S) for s_ in cfg.blocks[b_].live_succs()):
                bad = (b_, c)
                break
        if bad:
            ln = cfg.blocks[bad[0]].elems[-1].get("line")
            rep.fail(rid, key, f.loc(ln), "the branch on `%s` decides whether the %s designator behind the count is read at all: a count with that value "
                     "(an explicit 0, as in PT1H0M30S) ends the parse and the rest of the duration is dropped — equivalent spellings read as different values" % (show(bad[1])[:40], what))
        else:
            rep.ok(rid, key, f.loc(), "no branch on the count (%s) lies between its reset and the %s dispatch" % (", ".join(sorted(acc)), what))
    if n < 2:
        rep.broken_("rule=%s expected the date and the time dispatch, found %d" % (rid, n))



def _strp_walk(prog, text, cache={}):
    """What idiff_strp() makes of one spelling: (milliseconds, bytes consumed), by a value-fixed walk of its CFG with the bytes of the
    string as constants (helpers the rule set does not know are spliced in by the loader; nothing of echse runs)."""
    from ..absw import AbsWalk, eval_in
    if text in cache:
        return cache[text]
    f = prog.fn("idiff_strp", "dt-strpf.c")
    cfg = f.cfg
    sp, onp, lp = (p_["n"] for p_ in f.params[:3])
    init = {onp: 0, lp: len(text), "%s[%d]" % (sp, len(text)): 0}
    for k, ch in enumerate(text):
        init["%s[%d]" % (sp, k)] = ord(ch)
    resv = [l_["n"] for l_ in f.locals if "idiff" in (l_.get("t") or "")]
    if not resv:
        raise AnalysisBroken("idiff_strp: result variable not found")
    tracked = {l_["n"] for l_ in f.locals} | {lp, onp} | {"%s.d" % r_ for r_ in resv}
    outs = []

    def effect(b, i, x, store):
        if isinstance(x, dict) and x.get("k") == "ret" and x.get("e") is not None:
            e = strip_casts(cfg.resolve(x["e"]))
            v = store.get(lv(e) + ".d") if e.get("k") == "ref" else None
            outs.append(v)
        return None
    w = AbsWalk(f, tracked, init=init, effect=effect, max_states=50000)
    w.run()
    vals = set(outs)
    if len(vals) != 1 or None in vals:
        raise AnalysisBroken("idiff_strp(%r): no single result (%s)" % (text, sorted(vals, key=str)[:3]))
    cache[text] = outs[0]
    return outs[0]


def r18_8(prog, rep, rid="R18.8"):
    """The duration reader looks at its input through comparisons with a dozen constants (digit test, sign and designator letters).  It
    is walked over every spelling  [+|-] P [nW] [nD] [T [nH] [nM] [nS]]  with each count absent, 0 or 12 (726 spellings), plus 12 spellings with one component far beyond its usual range: each must
    read as (7W + D) days + H:M:S in milliseconds with the sign applied — so equivalent spellings (explicit zero components, a leading
    plus sign, weeks against days) read alike, every designator is read behind its T, and the multipliers are those of the units."""
    import itertools
    f = prog.fn("idiff_strp", "dt-strpf.c")
    opts = (None, 0, 12)
    n = 0
    bad = []
    for sign in ("", "+", "-"):
        for W, D, H, M, S in itertools.product(opts, repeat=5):
            if all(v is None for v in (W, D, H, M, S)):
                continue
            t = sign + "P"
            t += "%dW" % W if W is not None else ""
            t += "%dD" % D if D is not None else ""
            if any(v is not None for v in (H, M, S)):
                t += "T" + ("%dH" % H if H is not None else "") + ("%dM" % M if M is not None else "") + ("%dS" % S if S is not None else "")
            want = ((7 * (W or 0) + (D or 0)) * 86400000 + ((H or 0) * 3600 + (M or 0) * 60 + (S or 0)) * 1000) * (-1 if sign == "-" else 1)
            got = _strp_walk(prog, t)
            n += 1
            if got != want:
                bad.append((t, got, want))
    # what echsd writes for a limit is seconds only (`DURATION:PT172800S` for two days): single components well beyond their usual range
    for t, want in (("PT86400S", 86400000), ("PT86401S", 86401000), ("PT172800S", 172800000), ("PT604800S", 604800000),
                    ("PT31536000S", 31536000000), ("PT1440M", 86400000), ("PT100000M", 6000000000), ("PT48H", 172800000),
                    ("PT1000H", 3600000000), ("P400D", 34560000000), ("P60W", 36288000000), ("-PT172800S", -172800000)):
        got = _strp_walk(prog, t)
        n += 1
        if got != want:
            bad.append((t, got, want))
    key = "idiff_strp/spellings-read-as-their-value"
    if bad:
        bad.sort(key=lambda b_: (len(b_[0]), b_[0]))
        rep.fail(rid, key, f.loc(), "%d of %d spellings are not read as the duration they spell, e.g. %s" % (
            len(bad), n, "; ".join("`%s` reads as %d ms instead of %d" % b_ for b_ in bad[:4])), {"examples": [list(b_) for b_ in bad[:20]]})
    else:
        rep.ok(rid, key, f.loc(), "%d spellings read as the duration they spell" % n)



def _strf_walk(prog, d, cache={}):
    """What idiff_strf() prints for d milliseconds, by a value-fixed walk of its CFG (the decimal formatter ui32tostr() is modelled:
    it writes the digits of its number and returns how many)."""
    from ..absw import AbsWalk, eval_in
    if d in cache:
        return cache[d]
    f = prog.fn("idiff_strf", "dt-strpf.c")
    cfg = f.cfg
    bufp, bszp, dp = (p_["n"] for p_ in f.params[:3])

    def pre(store, e):
        e = strip_casts(cfg.resolve(e))
        if e.get("k") == "un" and e.get("op") in ("post++", "post--"):
            return store.get(lv(e["e"]))
        if e.get("k") == "un" and e.get("op") in ("pre++", "pre--"):
            v = store.get(lv(e["e"]))
            return None if v is None else v + (1 if "++" in e["op"] else -1)
        return eval_in(store, e, f, call_eval)

    def call_eval(c, store):
        if c.get("fn") == "echs_nul_idiff_p":
            v = store.get(dp + ".d")
            return None if v is None else int(v == 0)
        if c.get("fn") == "ui32tostr":
            n_ = eval_in(store, c["a"][2], f, call_eval)
            return None if n_ is None else len(str(n_))
        return None
    outs = []

    def effect(b, i, x, store):
        upd = {}
        if not isinstance(x, dict):
            return upd
        out = dict(store.get("$out", ()))
        ch = False
        if x.get("k") == "call" and x.get("fn") == "ui32tostr":
            a0 = strip_casts(cfg.resolve(x["a"][0]))
            off = None
            if a0.get("k") == "bin" and a0["op"] == "+" and lv(strip_casts(a0["l"])) == bufp:
                off = eval_in(store, a0["r"], f, call_eval)
            elif a0.get("k") == "ref" and a0.get("n") == bufp:
                off = 0
            n_ = eval_in(store, x["a"][2], f, call_eval)
            if off is None or n_ is None:
                raise AnalysisBroken("idiff_strf: a call of ui32tostr could not be followed")
            for k, c_ in enumerate(str(n_)):
                out[off + k] = ord(c_)
            ch = True
        for l, kind, nn in writes(x):
            tl = strip_casts(l)
            if tl.get("k") == "idx" and lv(tl["b"]) == bufp and nn.get("k") == "bin" and nn["op"] == "=":
                ix, v = pre(store, tl["i"]), pre(store, nn["r"])
                if ix is None or v is None:
                    raise AnalysisBroken("idiff_strf: a store into the buffer could not be followed (%s)" % show(x)[:50])
                out[ix] = v
                ch = True
        if ch:
            upd["$out"] = tuple(sorted(out.items()))
        if x.get("k") == "ret" and x.get("e") is not None:
            outs.append((eval_in(store, cfg.resolve(x["e"]), f, call_eval), dict(store.get("$out", ()))))
        return upd
    tracked = {l_["n"] for l_ in f.locals} | {bszp, dp + ".d"}
    w = AbsWalk(f, tracked, init={bszp: 64, dp + ".d": d}, effect=effect, call_eval=call_eval, max_states=20000)
    w.run()
    res = set()
    for r, o in outs:
        if r is None or any(o.get(k) is None for k in range(r)):
            res.add(None)
        else:
            res.add("".join(chr(o[k]) for k in range(r)))
    if len(res) != 1 or None in res:
        raise AnalysisBroken("idiff_strf(%d): no single result (%s)" % (d, sorted(res, key=str)[:3]))
    cache[d] = next(iter(res))
    return cache[d]


def r18_9(prog, rep, rid="R18.9"):
    """What the duration printer writes reads back as the same number of milliseconds: walked for every combination of 0 or 12 days,
    hours, minutes and seconds, both signs (the values whose remainder below a second is 0 — the remainder is R18.5's business)."""
    import itertools
    f = prog.fn("idiff_strf", "dt-strpf.c")
    bad = []
    n = 0
    for sign in (1, -1):
        for D, H, M, S in itertools.product((0, 12), repeat=4):
            d = sign * (D * 86400000 + (H * 3600 + M * 60 + S) * 1000)
            if d == 0 and sign < 0:
                continue
            text = _strf_walk(prog, d)
            back = _strp_walk(prog, text) if len(text) >= 3 else None
            n += 1
            if back != d:
                bad.append((d, text, back))
    key = "idiff_strf/printed-durations-read-back"
    if bad:
        rep.fail(rid, key, f.loc(), "%d of %d durations do not survive print and parse, e.g. %s" % (
            len(bad), n, "; ".join("%d ms is printed as `%s`, which reads as %s ms" % b_ for b_ in bad[:3])), {"examples": [list(b_) for b_ in bad[:20]]})
    else:
        rep.ok(rid, key, f.loc(), "%d whole-second durations survive print and parse (units, letters, T and sign agree on both sides)" % n)



def r18_10(prog, rep, rid="R18.10"):
    """The date part of an instant (`dpart`: day, month, year in one 32-bit word) carries the scale tag in the top four bits of the year
    and the zone tag in the top bits of month and day.  A constant mask applied to it may clear tag bits and nothing else — a mask that
    also clears a bit of the year, month or day proper changes the date of every instant that has that bit set (years from 2048)."""
    sm = prog.macro_int("ECHS_SMASK", "scale.h")
    dm = prog.macro_int("ECHS_DMASK", "tzob.h")
    if sm is None or dm is None:
        raise AnalysisBroken("ECHS_SMASK / ECHS_DMASK not found")
    tags = (sm | dm) & 0xffffffff
    n = 0
    for f in prog.all_fns():
        if not f.cfg:
            continue
        for b, i, x, line in f.cfg.all_elems():
            if not isinstance(x, dict):
                continue
            for q in walk(f.cfg.resolve(x)):
                if q.get("k") != "bin" or q["op"] not in ("&", "&="):
                    continue
                for ls, rs in (("l", "r"), ("r", "l")):
                    if not lv(strip_casts(q[ls])).endswith("dpart"):
                        continue
                    C = const_eval(f, q[rs])
                    if C is None:
                        continue
                    C &= 0xffffffff
                    cleared = ~C & 0xffffffff
                    if q["op"] == "&" and cleared & ~tags == (~tags & 0xffffffff):
                        continue        # `dpart & TAGMASK`: reading the tag, not masking the date
                    n += 1
                    key = "%s/date-part-mask@%#x" % (f.name, C)
                    if cleared & ~tags:
                        rep.fail(rid, key, f.loc(q.get("line", line)), "the date part is masked with %#010x, which clears %#x beyond the scale and zone tags (%#010x): "
                                 "bits of the year/month/day themselves — instants with such a bit set print (and read back) as another date" % (
                                     C, cleared & ~tags, tags))
                    else:
                        rep.ok(rid, key, f.loc(q.get("line", line)), "clears tag bits only (%#x)" % cleared)
    if n < 2:
        rep.broken_("rule=%s expected the two detach masks on the date part, found %d" % (rid, n))


_TIER = "quick"


def r18_11(prog, rep, rid="R18.11"):
    """The number printer takes the count of decimal digits from ilog10_ceil(), a bit trick on top of another (a de Bruijn table for the
    binary logarithm, a multiplication for the ratio of the logarithms, one comparison against a power of ten): one digit too few and
    the leading digit of a duration component is cut off, one too many and a stray byte is written in front.  Both functions are walked
    for every power of ten and of two, their neighbours and the ends of the range: the answer is the length of the decimal spelling.
    (R18.9 models the printer of numbers by exactly that length.)"""
    from .c08 import _walk_fn
    f = prog.fn("ilog10_ceil", "dt-strpf.c")
    vals = {0, 1, 2, 15, 16, 17, (1 << 32) - 1, 1 << 31, (1 << 31) - 1}
    for k in range(0, 10):
        vals |= {10 ** k - 1, 10 ** k, 10 ** k + 1}
    for k in range(4, 32):
        vals |= {(1 << k) - 1, 1 << k, (1 << k) + 1}
    if _TIER == "thorough":
        vals |= set(range(0, 2049)) | {10 ** k + d for k in range(1, 10) for d in range(-9, 10)} | {(1 << k) + d for k in range(4, 32) for d in range(-3, 4)}
    vals = sorted(v for v in vals if 0 <= v < (1 << 32))
    bad = []
    for v in vals:
        got = _walk_fn(prog, f, [v])
        if got is None:
            raise AnalysisBroken("ilog10_ceil(%d) could not be followed to one result" % v)
        if got != len(str(v)):
            bad.append((v, got, len(str(v))))
    key = "ilog10_ceil/is-the-number-of-decimal-digits"
    if bad:
        rep.fail(rid, key, f.loc(), "%d of %d numbers get the wrong digit count, e.g. %s: the printer of durations and dates writes such a number with its "
                 "leading digit cut off (or a byte too far to the left)" % (len(bad), len(vals), "; ".join("%d -> %s instead of %d" % b_ for b_ in bad[:4])),
                 {"examples": [list(b_) for b_ in bad[:30]]})
    else:
        rep.ok(rid, key, f.loc(), "%d numbers (every power of ten and of two with its neighbours, 0 and 2^32 - 1) get the length of their decimal spelling" % len(vals))


def run(prog, rep, tier, snap):
    global _TIER
    _TIER = tier
    rep.rule("R18.1", "64-bit accumulation in the duration parser", 2)
    rep.call(r18_1, prog, rep)
    rep.rule("R18.8", "every grammatical spelling of a duration reads as the duration it spells", 1)
    rep.call(r18_8, prog, rep)
    rep.rule("R18.9", "what the duration printer writes reads back as the same number of milliseconds", 1)
    rep.call(r18_9, prog, rep)
    rep.rule("R18.10", "masks on an instant's date part clear tag bits only", 2)
    rep.call(r18_10, prog, rep)
    rep.rule("R18.5", "the duration printer does not drop what is left below its smallest unit", 1)
    rep.call(r18_5, prog, rep)
    rep.rule("R18.11", "the printer's digit count is the length of the decimal spelling (value-fixed walk of the two logarithm tricks)", 1)
    rep.call(r18_11, prog, rep)
    rep.rule("R18.4", "the instant parser's default window covers the printers' longest output", 2)
    rep.call(r18_4, prog, rep)
    rep.rule("R08.2", "calendar tables used by the text forms agree with the calendar (shared with C08)", 15)
    rep.call(c08.r08_2, prog, rep)
    from ..rules import state
    rep.rule("R08.8", "the text <-> instant/duration conversions carry no state from one call to the next (shared with C08)", 1)
    rep.call(state.no_carried_state, prog, rep, "R08.8", "time")
READY = True

# texts brought up to date with the rules above (they supersede the first versions at the top of the module)
LEVEL_TEXT = ("Static verdict on necessary clauses of C18 for durations: 64-bit accumulation; the reader, walked value-fixed over all 726 "
              "grammatical spellings [+|-]P[nW][nD][T[nH][nM][nS]] with counts absent/0/12, reads each as the duration it spells (sign, "
              "multipliers, T, explicit zero counts); what the printer writes for every 0/12 combination of days, hours, minutes and seconds "
              "reads back as the same milliseconds; constant masks on an instant's date part clear tag bits only; the instant parser's default "
              "window covers the printers' longest output. The digit-level parsing and printing of instants is otherwise NOT decided; the "
              "sub-second remainder the printer drops is a known finding.")
TECHNIQUE = ("static analysis: typed-width inspection, value-fixed walks of the extracted reader and printer CFGs over all grammatical spellings "
             "(input bytes as constants, helpers spliced in), bit-layout agreement of constant masks, path-maximised output length")

# texts brought up to date with the rules added in the last rounds
LEVEL_TEXT = LEVEL_TEXT + " The printer's digit count is the length of the decimal spelling for every power of ten and two and their neighbours (walk of both logarithm tricks)."

