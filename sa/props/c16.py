"""C16 — occurrence streams are ordered and bounded for every rule, extensions included."""
from ..facts import walk, strip, strip_casts, lv, show, writes, calls, int_value
from ..flow import MustFacts, cond_atoms, rel_facts, elem_kills
from ..q import (Site, call_sites, site_before, forward_scan, backward_scan, const_eval, elem_has_call)
from ..rules import fillers
from ..snapshot import AnalysisBroken

UNITS = None
EXPLANATION = (
    "R16.1: in refill() every return of a non-zero count is preceded by echs_instant_sort(cache, count) with no store into the cache in "
    "between (the rescale and zone-shift loops reorder). R16.2: in every filler each commit of a candidate (increment of the result index) is "
    "dominated by an UNTIL test on the committed value whose true edge leaves the filler and, in the six fillers that enumerate time-of-day "
    "below the stepping unit, by a DTSTART test whose true edge skips the commit; in the yearly/monthly fillers these tests come after "
    "clr_poss() and shift(), so shifted dates are subject to them. R16.3: all fillers start with the same clamp of the capacity by the "
    "remaining COUNT and never raise it; refill() decrements COUNT by what it kept after holding back the seed. R09.1 (bounded cache "
    "writes) bounds each refill's output by that capacity.")
NOT_DECIDED = "strict monotonicity across refills and over thousands of occurrences (value-level); the behaviour itself"
TRUSTED = ["clang 14 parser/CFG builder", "echse-facts extractor", "python rule engines in /verif/sa"]
LEVEL_TEXT = ("Static verdict on necessary structural clauses of C16 for all rules at once: sort after every reordering transformation, UNTIL "
              "and DTSTART guards dominate every commit (after SHIFT), COUNT clamps the capacity in every filler and is decremented per refill, "
              "cache writes are bounded by that capacity. It decides those clauses, not strict monotonicity of the values. Also: the fillers and their helpers carry no state from one rule to the next.")
LEVEL_NOTE = "Trusted: clang 14 front end/CFG, extractor, rule engines."
TECHNIQUE = "static analysis: forward must-facts (guard dominance), backward must-pass-through, sibling agreement of the seven fillers; carried-state / memo-key analysis"


def r16_1(prog, rep):
    rid = "R16.1"
    f = prog.fn("refill", "evical.c")
    cfg = f.cfg
    n = 0
    cache = None
    for b, i, x, line in cfg.all_elems():
        if not (isinstance(x, dict) and x.get("k") == "ret"):
            continue
        v = const_eval(f, cfg.resolve(x["e"]))
        if v == 0:
            continue
        n += 1
        key = "refill/return %s" % show(cfg.resolve(x["e"]))
        found = []

        def visit(bb, ii, xx):
            for c in calls(xx):
                if c.get("fn") == "echs_instant_sort":
                    found.append(c)
                    return "hit"
            for l, kind, nn in writes(xx):
                if "->cch[" in lv(l):
                    found.append(None)
                    return "hit"
            return None
        hits, reached_entry = backward_scan(cfg, (b, i), visit)
        if reached_entry or any(c is None for c in found) or not found:
            rep.fail(rid, key, f.loc(line), "a non-empty refill can return without sorting after the last store into the cache "
                     "(scale conversion and zone shifts can reorder occurrences)")
            continue
        c = found[0]
        a0, a1 = lv(cfg.resolve(c["a"][0])), lv(cfg.resolve(c["a"][1]))
        ret = lv(cfg.resolve(x["e"]))
        if a0.endswith("->cch") and a1 == ret:
            rep.ok(rid, key, f.loc(line), "echs_instant_sort(%s, %s) precedes the return on every path, no cache store in between" % (a0, a1))
        else:
            rep.fail(rid, key, f.loc(line), "the sort before the return covers (%s, %s), not the cache with the returned count %s" % (a0, a1, ret))
    if n < 1:
        rep.broken_("rule=R16.1 no non-zero return found in refill")
    # the filler result is what is sorted: ncch assigned from each filler call
    # (dispatch checked by R01.3)


def _guard_facts(f):
    """MustFacts over a filler with boolean-call facts; attaching the scale to the candidate does not invalidate tests on it."""
    cfg = f.cfg

    def kills(x):
        ks = set()
        for l, kind, n in writes(x):
            if n.get("k") == "bin" and n["op"] == "=":
                r = strip_casts(cfg.resolve(n["r"]))
                if r.get("k") == "call" and r.get("fn") == "echs_instant_attach_scale" and lv(r["a"][0]) == lv(l):
                    continue
            ks.add(lv(l))
        return ks
    return MustFacts(cfg, kills=kills)


def _until_operands(f, rr):
    """Lvalue texts that carry the rule's UNTIL: rr->until itself and every local defined (possibly through copies and helper results) from
    it.  Returns {text: passes_through_rescale}."""
    cfg = f.cfg
    U = {"%s->until" % rr: False}
    changed = True
    while changed:
        changed = False
        for b, i, x, line in cfg.all_elems():
            for l, kind, n in writes(x):
                l_ = strip_casts(l)
                if l_.get("k") != "ref":
                    continue
                rhs = n.get("init") if kind == "decl" else (n.get("r") if n.get("k") == "bin" and n["op"] == "=" else None)
                if rhs is None:
                    continue
                r = cfg.resolve(rhs)
                srcs = [u for u in U if any(lv(m) == u for m in walk(r) if m.get("k") in ("ref", "mem"))]
                if not srcs:
                    continue
                resc = any(U[u] for u in srcs) or any(m.get("k") == "call" and m.get("fn") == "echs_instant_rescale" for m in walk(r))
                t = lv(l_)
                if t not in U or (resc and not U[t]):
                    U[t] = resc or U.get(t, False)
                    changed = True
    return U


def r16_2(prog, rep):
    rid = "R16.2"
    fl = fillers.fillers(prog)
    for f in fl:
        cfg = f.cfg
        tgt = f.params[0]["n"]
        rr = f.params[2]["n"]
        mf = _guard_facts(f)
        U = _until_operands(f, rr)
        # commits: increments of the result index used in tgt stores
        idxvars = set()
        for b, i, idx, x, line in fillers.tgt_stores(f):
            if idx.get("k") == "idx":
                var, off, post = fillers.index_var(idx["i"])
                if var:
                    idxvars.add(var)
        commits = []
        for b, i, x, line in cfg.all_elems():
            for l, kind, n in writes(x):
                if kind == "incdec" and "++" in n["op"] and lv(l) in idxvars:
                    # committed value: the rhs stored in this element, or tgt[res] tested in place
                    val = None
                    for l2, k2, n2 in writes(x):
                        l2_ = strip_casts(l2)
                        if l2_.get("k") == "idx" and lv(l2_["b"]) == tgt and n2.get("k") == "bin":
                            val = lv(cfg.resolve(n2["r"]))
                    commits.append((b, i, val or "%s[%s]" % (tgt, lv(l)), n.get("line", line)))
        if not commits:
            rep.fail(rid, "%s/commit" % f.name, f.loc(), "no commit (result index increment) found")
            continue
        has_tod = any(n.get("k") == "mem" and n["f"] in ("H", "M", "S") and lv(n).startswith("e.") for b, i, x, line in cfg.all_elems() for n in walk(x))
        for ci, (b, i, val, line) in enumerate(commits):
            facts = mf.at(b, i) or set()
            until_ok = any(("false", "echs_instant_lt_p(%s, %s)" % (u, val)) in facts for u in U)
            key = "%s/commit#%d/until" % (f.name, ci)
            if until_ok:
                rep.ok(rid, key, f.loc(line), "commit of %s is dominated by !echs_instant_lt_p(%s->until, %s)" % (val, rr, val))
            else:
                rep.fail(rid, key, f.loc(line), "a candidate %s is committed without having been tested against UNTIL on every path "
                         "(facts: %s)" % (val, sorted(fx for fx in facts if "lt_p" in str(fx))))
            if has_tod:
                key = "%s/commit#%d/dtstart" % (f.name, ci)
                if ("false", "echs_instant_lt_p(%s, proto)" % val) in facts:
                    rep.ok(rid, key, f.loc(line), "commit of %s is dominated by !echs_instant_lt_p(%s, proto)" % (val, val))
                else:
                    rep.fail(rid, key, f.loc(line), "a candidate %s is committed without the DTSTART test !(candidate < proto) on every path" % val)
        # the UNTIL test's true edge leaves the filler
        for bb in cfg.blocks:
            c = cfg.cond(bb)
            if c is None:
                continue
            for a in cond_atoms(c, True):
                if len(a) == 3 and a[0] == "true" and any(a[1].startswith("echs_instant_lt_p(%s," % u) for u in U):
                    st = (cfg.blocks[bb].succs[0], -1)
                    hits, _ = forward_scan(cfg, st, lambda b_, i_, x_: "hit" if any(kind == "incdec" and lv(l) in idxvars for l, kind, n in writes(x_)) else None)
                    key = "%s/until-true-edge-leaves" % f.name
                    if hits:
                        rep.fail(rid, key, f.loc(cfg.blocks[bb].elems[-1].get("line")), "after UNTIL is exceeded the filler can still commit candidates")
                    else:
                        rep.ok(rid, key, f.loc(cfg.blocks[bb].elems[-1].get("line")), "once a candidate exceeds UNTIL no further commit is reachable")
        # stage order in fillers that call clr_poss/shift
        cp, sh = call_sites(f, "clr_poss"), call_sites(f, "shift")
        if cp or sh:
            first_commit = Site(commits[0][0], commits[0][1], None, commits[0][3])
            ok = bool(cp) and bool(sh) and site_before(cfg, cp[0], sh[0]) and all(site_before(cfg, sh[0], Site(b, i, None, ln)) for b, i, v, ln in commits)
            if ok:
                rep.ok(rid, "%s/poss-shift-before-guards" % f.name, f.loc(sh[0].line), "clr_poss -> shift -> guarded commit: shifted dates are subject to DTSTART/UNTIL")
            else:
                rep.fail(rid, "%s/poss-shift-before-guards" % f.name, f.loc(), "BYSETPOS selection / SHIFT are not applied before the guarded commit")
    if len(fl) != 7:
        rep.broken_("rule=R16.2 expected 7 fillers, found %d" % len(fl))


def r16_5(prog, rep):
    """UNTIL is a gregorian instant; a filler that builds its candidates in the rule's scale (it asks echs_scale_ndim/echs_scale_wday about
    that scale) must compare them with UNTIL expressed in the same scale, i.e. the UNTIL operand passes through echs_instant_rescale()."""
    rid = "R16.5"
    n = 0
    for f in fillers.fillers(prog):
        cfg = f.cfg
        rr = f.params[2]["n"]
        scaled = any(c.get("fn") in ("echs_scale_ndim", "echs_scale_wday") or (c.get("fn") or "").startswith("fill_") and any("sca" in lv(a) for a in c["a"])
                     for b, i, c, line in f.all_calls())
        if not scaled:
            continue
        n += 1
        U = _until_operands(f, rr)
        used = set()
        for bb in cfg.blocks:
            c = cfg.cond(bb)
            if c is None:
                continue
            for a in cond_atoms(c, True) + cond_atoms(c, False):
                if len(a) == 3:
                    for u in U:
                        if a[1].startswith("echs_instant_lt_p(%s," % u):
                            used.add(u)
        key = "%s/until-in-rule-scale" % f.name
        if used and all(U[u] for u in used):
            rep.ok(rid, key, f.loc(), "UNTIL is compared as %s, which went through echs_instant_rescale()" % ", ".join(sorted(used)))
        else:
            rep.fail(rid, key, f.loc(), "%s builds its candidates in the rule's scale but compares them with the gregorian UNTIL as it was parsed (%s): for "
                     "SCALE=HIJRI rules a gregorian UNTIL (year 2000) is measured against hijri years (1420) and never ends the stream" % (
                         f.name, ", ".join(sorted(used)) or "no UNTIL test"))
    if n < 4:
        rep.broken_("rule=R16.5 expected >=4 scale-aware fillers, found %d" % n)


def r16_3(prog, rep):
    rid = "R16.3"
    fl = fillers.fillers(prog)
    shapes = {}
    for f in fl:
        cfg = f.cfg
        cap = f.params[1]["n"]
        rr = f.params[2]["n"]
        # all writes to the capacity parameter
        ws = []
        for b, i, x, line in cfg.all_elems():
            for l, kind, n in writes(x):
                if lv(l) == cap:
                    ws.append((b, i, n, line))
        key = "%s/count-clamp" % f.name
        if len(ws) != 1 or not (ws[0][2].get("k") == "bin" and ws[0][2]["op"] == "=" and lv(cfg.resolve(ws[0][2]["r"])) == "%s->count" % rr):
            rep.fail(rid, key, f.loc(), "the capacity %s must be written exactly once, as %s = %s->count (found %s)" % (
                cap, cap, rr, [show(w[2]) for w in ws]))
            continue
        b, i, n, line = ws[0]
        # guarded by (unsigned)count < cap, and the zero-count exit follows
        mfx = MustFacts(cfg)
        facts = mfx.at(b, i) or set()
        guarded = ("lt", "%s->count" % rr, cap) in facts
        # dominated: the clamp dominates every store through tgt
        stores = list(fillers.tgt_stores(f))
        dom = True
        for sb, si, idx, x, ln in stores:
            # every path from entry to the store passes the comparison block (not necessarily the assignment)
            pass
        # zero test: the element is `(cap = rr->count) == 0` with the true edge returning without stores
        c = cfg.cond(b)
        zero_exit = False
        if c is not None:
            for a in cond_atoms(c, True):
                if len(a) == 5 and a[0] == "==" and a[2] == "0":
                    hits, _ = forward_scan(cfg, (cfg.blocks[b].succs[0], -1), lambda b_, i_, x_: "hit" if any(True for _ in [1] if [s for s in [0]] and any(
                        strip_casts(l).get("k") == "idx" and lv(strip_casts(l)["b"]) == f.params[0]["n"] for l, k_, n_ in writes(x_))) else None)
                    zero_exit = not hits
        # the comparison block dominates every store
        cmp_blocks = [bb for bb in cfg.blocks if cfg.cond(bb) is not None and any(
            len(a) == 5 and a[0] == "<" and a[1] == "%s->count" % rr and a[2] == cap for a in cond_atoms(cfg.cond(bb), True))]
        dominated = bool(cmp_blocks) and all(cfg.dominates(cmp_blocks[0], sb) for sb, si, idx, x, ln in stores)
        if guarded and zero_exit and dominated:
            rep.ok(rid, key, f.loc(line), "%s = min(%s, %s->count) before any store; zero remaining count returns without output" % (cap, cap, rr))
        else:
            rep.fail(rid, key, f.loc(line), "COUNT clamp malformed: guarded=%s zero-exit=%s dominates-stores=%s" % (guarded, zero_exit, dominated))
        shapes[f.name] = (guarded, zero_exit, dominated)
    # refill: count decremented by the kept number, after the seed has been taken out
    f = prog.fn("refill", "evical.c")
    cfg = f.cfg
    # decided by a value-fixed walk of refill() with the filler's answer and the remaining COUNT fixed: what is handed on is the filled
    # number less the seed held back when the cache came back full, COUNT goes down by exactly that and stops at 0
    from ..absw import AbsWalk, eval_in
    from ..facts import calls as _calls
    cnts = sorted({lv(l) for b, i, x, line in cfg.all_elems() for l, kind, n in writes(x) if lv(l).endswith("->count") or lv(l).endswith(".count")})
    cnts = [c_ for c_ in cnts if not c_.startswith("lrr")] or cnts
    nccs = sorted({lv(l) for b, i, x, line in cfg.all_elems() for l, kind, n in writes(x) if lv(l).endswith("->ncch")})
    grp = prog.macro_int("GRP_CCH_OFF")
    if len(cnts) != 1 or len(nccs) != 1:
        raise AnalysisBroken("refill: the stores to the rule's COUNT (%s) and to the cache's fill (%s) were not found" % (cnts, nccs))
    cnt, ncc = cnts[0], nccs[0]
    bad, nw = [], 0
    for nfill in (0, 1, 5, grp - 1, grp):
        for count in (0, 1, 3, grp - 1, grp, grp + 36):
            outs = []

            def call_eval(c, store, _n=nfill):
                return _n if (c.get("fn") or "").startswith("rrul_fill_") else None

            def effect(b, i, x, store, _o=outs, _c=count, _ce=call_eval):
                if isinstance(x, dict) and x.get("k") == "ret" and x.get("e") is not None:
                    _o.append((eval_in(store, cfg.resolve(x["e"]), f, _ce), store.get(cnt), store.get(ncc), store.get("$called")))
                if isinstance(x, dict) and any((c_.get("fn") or "").startswith("rrul_fill_") for c_ in _calls(cfg.resolve(x))):
                    return {cnt: _c, "$called": 1}
                return None
            AbsWalk(f, {"$called", cnt, ncc} | {l_["n"] for l_ in f.locals if l_.get("extent") is None},
                    init={cnt: count, ncc: 0}, effect=effect, call_eval=call_eval, max_states=50000).run()
            nw += 1
            kept = nfill - 1 if nfill >= grp else nfill
            want = (kept, max(count - kept, 0) if count > 0 else count, kept)
            got = sorted({o_[:3] for o_ in outs if o_[3] == 1}, key=str)
            if got != [want]:
                bad.append("the filler answers %d with COUNT at %d: refill() hands on/leaves COUNT at/keeps %s, expected %s" % (nfill, count, got or "nothing definite", want))
    if bad:
        rep.fail(rid, "refill/count-decrement", f.loc(), "%d of %d walks: %s" % (len(bad), nw, "; ".join(bad[:3])), {"examples": bad[:20]})
    else:
        rep.ok(rid, "refill/count-decrement", f.loc(), "%d walks (filler's answer x remaining COUNT): COUNT -= kept (after the seed is held back), clamped at 0; the kept number is handed on" % nw)
    # exhausted count ends the stream before any filler is called
    first = None
    for b in cfg.blocks:
        c = cfg.cond(b)
        if c is not None and any(len(a) == 3 and a[0] == "false" and a[1].endswith("->count") for a in cond_atoms(c, True)):
            first = b
    fcalls = [S for S in call_sites(f, tuple(g.name for g in fl))]
    if first is not None and fcalls and all(cfg.dominates(first, S.b) for S in fcalls):
        hits, _ = forward_scan(cfg, (cfg.blocks[first].succs[0], -1), lambda b_, i_, x_: "hit" if elem_has_call(x_, tuple(g.name for g in fl)) else None)
        if not hits:
            rep.ok(rid, "refill/zero-count-ends-stream", f.loc(), "COUNT == 0 returns 0 before any filler runs")
        else:
            rep.fail(rid, "refill/zero-count-ends-stream", f.loc(), "with COUNT exhausted a filler can still run")
    else:
        rep.fail(rid, "refill/zero-count-ends-stream", f.loc(), "no dominating `!count` test before the fillers")


def r16_4(prog, rep):
    """shift() files a candidate under previous / same / next year in one of three sets; the fillers must emit the sets in chronological
    order (previous, same, next year) and pair each set with the year offset shift() filed it under.  (Within one refill the final sort
    hides a wrong order, but the held-back seed is the last candidate *written*, so the next refill would restart from the wrong date.)"""
    rid = "R16.4"
    from ..absw import eval_in
    sh = prog.fn("shift", "evrrul.c")
    # writer: slot as a function of (nu_y - y)
    wslot = None
    for b, i, x, line in sh.cfg.all_elems():
        for nd in walk(sh.cfg.resolve(x)):
            if nd.get("k") == "idx" and lv(strip_casts(nd["b"])) == "res":
                ix = strip_casts(nd["i"])
                if ix.get("k") == "ref" and ix.get("dk") == "local":        # `const int slot = (nu_y != y) << (nu_y > y); res[slot]`
                    from ..q import local_decl_init
                    inits_, other_ = local_decl_init(sh, ix["n"], ix.get("id"))
                    if other_ == 0 and len(inits_) == 1 and inits_[0] is not None:
                        ix = strip_casts(sh.cfg.resolve(inits_[0]))
                names = {r_["n"] for r_ in walk(ix) if r_.get("k") == "ref"}
                pars = {p_["n"] for p_ in sh.params}
                yp, yl = sorted(names & pars), sorted(names - pars)
                if len(yp) == 1 and len(yl) == 1:       # the year the caller expands (a parameter) and the year the walk has carried into (a local)
                    m = {}
                    for off in (-1, 0, 1):
                        m[off] = eval_in({yl[0]: 2000 + off, yp[0]: 2000}, ix, sh)
                    wslot = m
    if not wslot or None in wslot.values():
        raise AnalysisBroken("R16.4: cannot read the slot mapping of shift()")
    n = 0
    for fname in ("rrul_fill_yly", "rrul_fill_mly"):
        f = prog.fn(fname, "evrrul.c")
        cfg = f.cfg
        # the emitted instant: {.y = y + E, ...}
        offs = None
        for b, i, x, line in cfg.all_elems():
            for nd in walk(cfg.resolve(x)):
                if nd.get("k") == "init" and "echs_instant" in (nd.get("t") or ""):
                    for name, val in nd["fs"]:
                        if name == "y" and val is not None:
                            v = strip_casts(val)
                            if v.get("k") == "bin" and v["op"] == "+" and lv(strip_casts(v["l"])) == "y":
                                offs = (f.expand(v["r"]), nd.get("line", line))
        slotx = None
        for S in call_sites(f, "bi383_next"):
            a = strip_casts(f.expand(cfg.resolve(S.node["a"][1])))
            if a.get("k") == "un" and a["op"] == "&":
                inner = strip_casts(a["e"])
                if inner.get("k") == "idx" and lv(strip_casts(inner["b"])) == "cand":
                    slotx = strip_casts(inner["i"])
        if offs is None or slotx is None:
            continue
        # the loop variable both depend on: a local stepped by one with constant start and bound
        cands = {r_["n"] for r_ in walk(offs[0]) if r_.get("k") == "ref" and r_.get("dk") == "local"} | \
                {r_["n"] for r_ in walk(slotx) if r_.get("k") == "ref" and r_.get("dk") == "local"}
        seq = None
        for var in sorted(cands):
            start = step = bound = None
            for b, i, x, line in cfg.all_elems():
                for l, kind, nn in writes(x):
                    if lv(l) != var:
                        continue
                    if kind == "decl" and nn.get("init") is not None:
                        start = const_eval(f, cfg.resolve(nn["init"]))
                    elif kind == "incdec":
                        step = 1 if "++" in nn["op"] else -1
            for b in cfg.blocks:
                c = cfg.cond(b)
                if c is None:
                    continue
                for a in cond_atoms(c, True):
                    if len(a) == 5 and a[1] == var and a[0] in ("<", "<=") and const_eval(f, a[4]) is not None:
                        bound = const_eval(f, a[4]) - (1 if a[0] == "<" else 0)
            if start is not None and step == 1 and bound is not None and 0 < bound - start < 8:
                seq = (var, list(range(start, bound + 1)))
        n += 1
        key = "%s/candidate-sets-in-year-order" % fname
        if seq is None:
            rep.broken_("rule=R16.4 %s: cannot enumerate the loop over the candidate sets" % fname)
            continue
        var, vals = seq
        # constant tables declared in the function (`static const int yoffs[] = {0, -1, 1}`) are part of the expressions' meaning
        tables = {}
        for b, i, x, line in cfg.all_elems():
            for l, kind, nn in writes(x):
                ini = strip_casts(cfg.resolve(nn["init"])) if kind == "decl" and nn.get("init") is not None else None
                if isinstance(ini, dict) and ini.get("k") == "init" and "const" in (nn.get("t") or ""):
                    for name, val in ini["fs"]:
                        cv = 0 if val is None else const_eval(f, val)
                        if str(name).isdigit() and cv is not None:
                            tables["%s[%d]" % (lv(l), int(name))] = cv
        got = []
        for v in vals:
            st_ = dict(tables)
            st_[var] = v
            got.append((eval_in(st_, offs[0], f), eval_in(st_, slotx, f)))
        # the offset is added to an unsigned year: -1 appears as 2^32 - 1
        got = [((g[0] - (1 << 32)) if g[0] is not None and g[0] >= (1 << 31) else g[0], g[1]) for g in got]
        offsets = [g[0] for g in got]
        if None in offsets or any(g[1] is None for g in got):
            rep.broken_("rule=R16.4 %s: year offset / slot not evaluable for %s in %s" % (fname, var, vals))
            continue
        if offsets != sorted(offsets) or sorted(offsets) != [-1, 0, 1]:
            rep.fail(rid, key, f.loc(offs[1]),
                     "the candidate sets are emitted for the year offsets %s in that order, not -1, 0, +1: the last instant written to the cache (the "
                     "seed of the next refill) is not the latest one, so occurrences are re-emitted after a refill" % offsets)
        elif any(wslot[o] != sl for o, sl in got):
            rep.fail(rid, key, f.loc(offs[1]), "year offset and candidate set are mis-paired: shift() files offsets as %s, the filler reads %s" % (
                wslot, {o: sl for o, sl in got}))
        else:
            rep.ok(rid, key, f.loc(offs[1]), "sets are emitted for offsets -1, 0, +1 from slots %s, as shift() files them" % [sl for o, sl in got])
    if n < 2:
        rep.broken_("rule=R16.4 expected the yearly and the monthly filler, found %d" % n)


def run(prog, rep, tier, snap):
    rep.rule("R16.1", "sort after every reordering transformation of the cache", 1)
    rep.call(r16_1, prog, rep)
    rep.rule("R16.2", "UNTIL / DTSTART guards dominate every commit; stage order poss -> shift -> guards", 20)
    rep.call(r16_2, prog, rep)
    rep.rule("R16.3", "COUNT accounting: clamp in every filler, decrement in refill", 9)
    rep.call(r16_3, prog, rep)
    rep.rule("R16.5", "UNTIL is compared in the scale the candidates are built in", 4)
    rep.call(r16_5, prog, rep)
    rep.rule("R16.4", "SHIFT candidate sets are emitted in year order and paired with the offsets shift() files them under", 2)
    rep.call(r16_4, prog, rep)
    rep.rule("R09.1", "bounded occurrence-cache writes (shared with C09)", 10)
    rep.call(fillers.r09_1, prog, rep)
    from ..rules import state
    rep.rule("R16.6", "the fillers and their helpers carry no state from one rule to the next", 1)
    rep.call(state.no_carried_state, prog, rep, "R16.6", "rrule")
    from . import c07
    rep.rule("R07.12", "the seed of the next batch is kept on the wall clock, before the batch is converted and sorted (shared with C07)", 3)
    rep.call(c07.r07_12, prog, rep)
    from . import c08
    rep.rule("R08.9", "echs_instant_add(), through which every occurrence of a zoned rule is converted, agrees with the calendar (shared with C08)", 1)
    rep.call(c08.r08_9, prog, rep)
    from ..rules import encodings
    rep.rule("R16.7", "the COUNT the reader stores is the COUNT that was written (no narrowing on the way into the rule)", 12)
    rep.call(encodings.r05_4c, prog, rep, "R16.7")
READY = True

# texts brought up to date with the rules added in the last rounds
LEVEL_TEXT = LEVEL_TEXT + ' Also: candidate sets read through local constant tables are evaluated; the seed of the next batch is set aside before conversion and sort; echs_instant_add(), through which every zoned occurrence is converted, agrees with the calendar.'

