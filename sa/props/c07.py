"""C07 — TZID events occur at the stated local wall-clock time (narrow structural clauses only)."""
from ..facts import walk, strip, strip_casts, lv, show, writes, calls, int_value
from ..q import call_sites, site_before, const_eval, Site
from ..flow import cond_atoms
from ..absw import AbsWalk, eval_in
from ..snapshot import AnalysisBroken
from . import c08

UNITS = None
EXPLANATION = (
    "R07.1 zone handles: the index the interning table hands out is packed into the bits of ECHS_DMASK by make_tzob() and unpacked by "
    "make_size(); for every slot bang_tzob() can fill, the handle (as it survives `& ECHS_DMASK` on the instant) is non-zero and "
    "retr_tzob() reads that very slot back (value-fixed walks over the whole slot domain; the packing expressions are evaluated, nothing "
    "of echse runs). R07.2 the most-frequently-used cache is two parallel arrays (handle, opened zone): every write to the key of slot I "
    "comes with a write to the zone of slot I in the same straight-line region, and vice versa. R07.3 direction pairing: "
    "echs_instant_utc() asks zif_utc_time(), echs_instant_loc() asks zif_local_time(), both for the epoch of the instant, and both add "
    "1000 * (answer - question) to it; zif_utc_time() answers t - offset, zif_local_time() t + offset. R07.4 the epoch conversion reads "
    "month and day of an instant whose zone tag has been detached. R07.5 stream set-up: a rule stream keeps its proto instant on the wall clock of DTSTART's zone (no UTC conversion; the zone "
    "is read before the tag is detached) — the fillers expand calendar dates; a date list reads the zone before the UTC conversion and looks "
    "the proto offset up for the UTC instant in that zone. R07.12 refill() converts every cached occurrence with echs_instant_utc(occurrence, "
    "zone of the stream) and hands every filler a copy of the rule whose UNTIL is on the wall clock. R07.6 an all-day RDATE is shifted by "
    "(proto offset - its own offset), its own offset looked up for that instant. R07.7 the open-addressed zone name table is written (echs_tzob) and read (echs_zone) along the same "
    "probe sequence: subscript expressions, stepping and probe counts are compared with the locals named by their definitions. R07.8 the bisection over the transition table returns only from a half-open cell [trans(i), trans(i+1)); "
    "the tests in front of the loop must not admit the open end as closed (a stamp equal to the last transition would lie in no cell: "
    "no exit, no progress). R07.9 the offset lookup itself (__offs -> __find_zrng -> __find_trno and the accessors, with the per-zone "
    "range cache) touches time stamps only through comparisons and copies, so it is decided over an ordinal model: zones with 0..6 transitions, the "
    "time on every position before/on/between the transitions and either side of 0, from every cache state any sequence of lookups can reach; each "
    "lookup must return, and return the offset of the last transition at or before the time. R07.10 no function-local static in the value readers "
    "(snarf_*) or the zone code carries state from one value to the next. R07.11 every carrier of an offset between the zone data and the "
    "occurrence correction (found by following plain copies, returns and members) is signed and at least 18 bits wide. R07.2 second clause: on a "
    "cache hit the arrays are walked as maps from slot to entry token; what is returned must be the matched entry's zone after the shuffle. "
    "R08.2/R08.4 (shared with C08): the epoch tables of tzob.c agree with the calendar, Jan/Feb carry the year.")
NOT_DECIDED = ("the zone data itself and its reader (__read_zif, byte order, 64-bit block), which offset the data assigns before a zone's first "
               "transition, convergence of the local->UTC fixed point at gaps and overlaps, all-day RDATEs taking their time of day from the UTC image of DTSTART, "
               "all values: the behaviour itself ranges over zoneinfo data x instants and is not decided")
TRUSTED = ["clang 14 parser/CFG builder", "echse-facts extractor", "python rule engines in /verif/sa"]
LEVEL_TEXT = ("Static verdict on narrow necessary clauses of C07 only: the zone handle written onto an instant reads back as the same "
              "zone for every handle that can be handed out; the zone cache's parallel arrays are written together; direction and sign "
              "pairing of the UTC<->local conversions and of the per-occurrence offset correction; order of zone read / UTC conversion / "
              "offset lookup at stream set-up; epoch tables; the offset lookup with its range cache over an ordinal model of a zone "
              "(every order of the time against 0..6 transitions, every reachable cache state); widths of the offset carriers; no carried state in the "
              "value readers. The zone data and its reader, the offset before a zone's first transition, the fixed-point iteration at gaps and "
              "overlaps and all concrete values are NOT decided.")
LEVEL_NOTE = "Trusted: clang 14 front end/CFG, extractor, rule engines. Most of C07 (zoneinfo data x instants) is out of this family's reach."
TECHNIQUE = ("static analysis: value-fixed abstract walks of the handle codec over its whole index domain, co-written parallel arrays "
             "(control-equivalent regions) and a token walk of the cache-hit path, sign/direction pairing by constant evaluation of the difference "
             "expressions, dominance order of set-up calls, order-type (ordinal) evaluation of the extracted lookup functions over all reachable cache "
             "states, width/signedness flow of the offset carriers, carried-state (memo key) analysis")


def _pure_call_eval(prog, fn, file, depth=0):
    """call_eval for eval_in: a call of a function of `file` that writes nothing but its own locals is evaluated by a value-fixed walk
    of its body over the arguments (temporaries, branches and nested calls included); all paths must agree on the result."""
    def call_eval(c, store):
        name = c.get("fn")
        if not name or depth > 4 or not prog.has_fn(name, file):
            return None
        g = prog.fn(name, file)
        if not g.cfg or len(c.get("a", [])) != len(g.params):
            return None
        lnames = {l_["n"] for l_ in g.locals} | {p_["n"] for p_ in g.params}
        for b, i, x, line in g.cfg.all_elems():
            if isinstance(x, dict):
                for l, kind, n in writes(x):
                    tl = strip_casts(l)
                    if not (tl.get("k") == "ref" and tl.get("dk") in ("local", "param") and tl.get("n") in lnames):
                        return None         # writes something that outlives the call: not a pure function of its arguments
        args = [eval_in(store, a, fn, call_eval) for a in c["a"]]
        if any(a is None for a in args):
            return None
        inner = _pure_call_eval(prog, g, file, depth + 1)
        rets = []

        def effect(b, i, x, st):
            if isinstance(x, dict) and x.get("k") == "ret" and x.get("e") is not None:
                rets.append(eval_in(st, g.cfg.resolve(x["e"]), g, inner))
            return None
        w = AbsWalk(g, lnames, init={p_["n"]: v for p_, v in zip(g.params, args)}, effect=effect, call_eval=inner, max_states=5000)
        w.run()
        if not rets or any(r is None for r in rets) or len(set(rets)) != 1:
            return None
        return rets[0]
    return call_eval


def r07_1(prog, rep, rid="R07.1"):
    """Every zone handle that can be handed out reads back as the slot it was handed out for."""
    enc = prog.fn("bang_tzob", "tzob.c")
    dec = prog.fn("retr_tzob", "tzob.c")
    mask = prog.macro_int("ECHS_DMASK", "tzob.h")
    if mask is None:
        raise AnalysisBroken("ECHS_DMASK not found")
    # the counter of the interning table: the global that the encoder steps
    ctr = None
    arr = None
    for b, i, x, line in enc.cfg.all_elems():
        if not isinstance(x, dict):
            continue
        for l, kind, n in writes(x):
            tl = strip_casts(l)
            if tl.get("k") == "idx" and strip_casts(tl["b"]).get("dk") == "global":
                arr = strip_casts(tl["b"])["n"]
            elif tl.get("k") == "ref" and tl.get("dk") == "global" and kind in ("incdec", "compound", "assign"):
                ctr = tl["n"]
    if ctr is None or arr is None:
        raise AnalysisBroken("bang_tzob: slot array / fill counter not found (%s, %s)" % (arr, ctr))

    def slot_of(x, store):
        for l, kind, n in writes(x):
            tl = strip_casts(l)
            if tl.get("k") == "idx" and strip_casts(tl["b"]).get("n") == arr:
                s = strip_casts(tl["i"])
                if s.get("k") == "un" and s["op"] in ("post++", "post--"):
                    return store.get(lv(s["e"]))          # effect runs in the pre-state
                if s.get("k") == "un" and s["op"] in ("pre++", "pre--"):
                    v = store.get(lv(s["e"]))
                    return None if v is None else v + (1 if "++" in s["op"] else -1)
                return eval_in(store, s, enc, None)
        return None
    ce_enc = _pure_call_eval(prog, enc, "tzob.c")
    ce_dec = _pure_call_eval(prog, dec, "tzob.c")
    zpar = dec.params[0]["n"]
    lost, zero, wrong, fine = [], [], [], []
    for pre in range(0, 200):
        def effect(b, i, x, store):
            upd = {}
            if isinstance(x, dict):
                s = slot_of(x, store)
                if s is not None:
                    upd["$slot"] = s
                if x.get("k") == "ret" and x.get("e") is not None:
                    upd["$ret"] = eval_in(store, enc.cfg.resolve(x["e"]), enc, ce_enc)
                    if upd["$ret"] is None:
                        upd["$ret"] = -1
            return upd
        w = AbsWalk(enc, {ctr}, init={ctr: pre}, effect=effect, call_eval=ce_enc)
        w.run()
        for st in w.exit_stores:
            if st.get("$slot") is None:
                continue        # refused: nothing stored
            slot, h = st["$slot"], st.get("$ret")
            if h is None or h < 0:
                raise AnalysisBroken("bang_tzob: handle for slot %d could not be evaluated" % slot)
            h &= mask
            if h == 0:
                zero.append(slot)       # what survives on the instant is `no zone`: the same as a refusal (the event is taken for UTC)
                continue

            def deffect(b, i, x, store):
                if isinstance(x, dict) and x.get("k") == "ret" and x.get("e") is not None:
                    e = strip_casts(dec.cfg.resolve(x["e"]))
                    if e.get("k") == "idx" and strip_casts(e["b"]).get("n") == arr:
                        v = eval_in(store, e["i"], dec, ce_dec)
                        return {"$read": -2 if v is None else v}
                    return {"$read": -1}
                return None
            tracked = {zpar} | {l_["n"] for l_ in dec.locals}
            wd = AbsWalk(dec, tracked, init={zpar: h}, effect=deffect, call_eval=ce_dec)
            wd.run()
            reads = {s_.get("$read") for s_ in wd.exit_stores}
            if reads == {slot}:
                fine.append(slot)
            elif reads == {-1}:
                lost.append((slot, h))
            else:
                wrong.append((slot, h, sorted(reads, key=str)))
    nslots = len(fine) + len(lost) + len(wrong)
    if nslots < 8:
        raise AnalysisBroken("bang_tzob: only %d slots can be filled — walk broken" % nslots)
    key = "bang_tzob/handle-reads-back-its-slot"
    if lost or wrong:
        ex = (["slot %d -> handle 0x%x -> refused" % p for p in lost[:3]] + ["slot %d -> handle 0x%x -> slot %s" % (s, h, r) for s, h, r in wrong[:3]])
        rep.fail(rid, key, enc.loc(), "of the %d slots bang_tzob() can fill, %d get a handle that retr_tzob() does not read back as that slot (%s%s): the packing "
                 "in make_tzob() and the unpacking in make_size() disagree — the TZID of such an event names another zone or none (UTC), its "
                 "occurrences happen at the wrong time and it is written back without its TZID" % (
                     nslots, len(lost) + len(wrong), "; ".join(ex), " ..." if len(lost) + len(wrong) > len(ex) else ""),
                 {"slots": nslots, "lost": lost[:70], "wrong": wrong[:70]})
    else:
        rep.ok(rid, key, enc.loc(), "%d slots: each handle, masked with ECHS_DMASK, is unpacked to its own slot" % len(fine))
    rep.ok(rid, "bang_tzob/slots-beyond-the-handle-bits", enc.loc(), "%d slot(s) get the handle 0 = `no zone`, which is what a full table answers as well (such events "
           "are taken for UTC, by design: `more than 64 timezones? we're not THAT international`)" % len(zero), nontrivial=False)


def _mfu_arrays(prog):
    f = prog.fn("__tzob_zif", "tzob.c")
    zpars = [p["n"] for p in f.params if "tzob" in (p.get("t") or "")]
    if not zpars:
        raise AnalysisBroken("__tzob_zif: handle parameter not found")
    K = V = fld = None
    for b, i, x, line in f.cfg.all_elems():
        if not isinstance(x, dict):
            continue
        for n in walk(f.cfg.resolve(x)):
            if n.get("k") == "bin" and n["op"] == "==":
                for a, o in ((n["l"], n["r"]), (n["r"], n["l"])):
                    a, o = strip_casts(a), strip_casts(o)
                    if a.get("k") == "mem" and o.get("k") == "ref" and o.get("n") in zpars:
                        base = strip_casts(a["b"])
                        if base.get("k") == "idx" and strip_casts(base["b"]).get("dk") == "global":
                            K, fld = strip_casts(base["b"])["n"], a["f"]
            if n.get("k") == "idx":
                bb = strip_casts(n["b"])
                if bb.get("dk") == "global" and (bb.get("t") or "").startswith((f.ret or {}).get("t", "zif_t")):
                    V = bb["n"]
    if K is None or V is None:
        raise AnalysisBroken("__tzob_zif: key array / zone array of the cache not found (%s, %s)" % (K, V))
    return f, K, fld, V


def r07_2(prog, rep, rid="R07.2"):
    """The zone cache is two parallel arrays: slot I's handle and slot I's opened zone are written together."""
    f0, K, fld, V = _mfu_arrays(prog)
    n = 0
    for f in prog.fns_in("tzob.c"):
        if not f.cfg or f.file != "tzob.c":
            continue
        cfg = f.cfg
        ws = []     # (array, index text, block, line)
        for b, i, x, line in cfg.all_elems():
            if not isinstance(x, dict):
                continue
            for l, kind, nn in writes(x):
                if kind == "decl":
                    continue
                tl = strip_casts(l)
                if tl.get("k") == "mem" and tl.get("f") == fld:
                    tl = strip_casts(tl["b"])
                elif tl.get("k") == "mem":
                    continue            # another field of the key record (the use counter)
                if tl.get("k") == "idx" and strip_casts(tl["b"]).get("n") in (K, V) and strip_casts(tl["b"]).get("dk") == "global":
                    ws.append((strip_casts(tl["b"])["n"], show(strip_casts(tl["i"])), b, line))
            for c in calls(x):
                if c.get("fn") in ("memset", "memcpy", "memmove") and c.get("a"):
                    a0 = strip_casts(c["a"][0])
                    if a0.get("k") == "ref" and a0.get("n") in (K, V):
                        ws.append((a0["n"], "*", b, line))
        if not ws:
            continue
        pd = cfg.pdom()

        def equiv(b1, b2):
            if b1 == b2:
                return True
            return (cfg.dominates(b1, b2) and b2 in pd.get(b1, ())) or (cfg.dominates(b2, b1) and b1 in pd.get(b2, ()))
        for a, ix, b, line in ws:
            other = V if a == K else K
            n += 1
            key = "%s/%s[%s]-written-with-%s" % (f.name, a, ix, other)
            if any(a2 == other and ix2 == ix and equiv(b, b2) for a2, ix2, b2, l2 in ws):
                rep.ok(rid, key, f.loc(line), "%s[%s] and %s[%s] are written in one straight-line region" % (a, ix, other, ix))
            else:
                rep.fail(rid, key, f.loc(line), "%s[%s] is written without %s[%s] being written along with it: slot %s of the zone cache then pairs one zone's "
                         "handle with another zone's data — every conversion for that handle uses the wrong zone's offsets" % (a, ix, other, ix, ix))
    if n < 6:
        rep.broken_("rule=%s expected >=6 writes to the parallel arrays of the zone cache, found %d" % (rid, n))



def r07_2b(prog, rep, rid="R07.2"):
    """A hit in the zone cache moves the entry one slot up when it has been used more often than its neighbour.  What is returned
    must be the zone of the entry whose handle matched — wherever the shuffle has put it by the time it is read.  Decided by walking
    the hit path with the two arrays as maps from slot to *entry token*: element copies move tokens, temporaries hold tokens, a
    pointer into an array is a slot; the value returned must be the zone token of the matched entry."""
    from ..flow import edge_dominates
    f, K, fld, V = _mfu_arrays(prog)
    cfg = f.cfg
    zpars = [p_["n"] for p_ in f.params if "tzob" in (p_.get("t") or "")]
    hits = []       # (block, succ index, index variable, offset)
    for b in cfg.blocks:
        c = cfg.cond(b)
        if c is None:
            continue
        for si in (0, 1):
            for a in cond_atoms(c, si == 0):
                if len(a) == 5 and a[0] == "==":
                    for x_, o_ in ((a[3], a[4]), (a[4], a[3])):
                        x_, o_ = strip_casts(x_) if isinstance(x_, dict) else {}, strip_casts(o_) if isinstance(o_, dict) else {}
                        if x_.get("k") == "mem" and x_.get("f") == fld and o_.get("k") == "ref" and o_.get("n") in zpars:
                            base = strip_casts(x_["b"])
                            if base.get("k") == "idx" and strip_casts(base["b"]).get("n") == K:
                                ix = strip_casts(base["i"])
                                if ix.get("k") == "ref":
                                    hits.append((b, si, ix["n"], 0))
    # only matches inside the scan (a loop); the re-check behind the loop copies the zone into a local and falls through to the common return
    loops = cfg.natural_loops()
    inloop = {b_ for blks in loops.values() for b_ in blks}
    n = 0
    for hb, si, ivar, off in hits:
        succ = cfg.blocks[hb].succs[si]
        if succ is None or si in cfg.blocks[hb].dead:
            continue
        for i0 in (0, 5):
            def tok(arr, store, slot):
                return dict(store.get("$" + arr, ())).get(slot, ("e", slot))

            def slot_of(store, e):
                e = strip_casts(cfg.resolve(e))
                if e.get("k") == "idx" and strip_casts(e["b"]).get("n") in (K, V):
                    sl = eval_in(store, e["i"], f, None)
                    return strip_casts(e["b"])["n"], sl
                return None, None

            def value_of(store, e):
                """token (for an element of one of the arrays), pointer ('p', array, slot), or None"""
                e = strip_casts(cfg.resolve(e))
                if e.get("k") == "mem" and e.get("f") == fld:
                    return None
                arr, sl = slot_of(store, e)
                if arr is not None:
                    return None if sl is None else tok(arr, store, sl)
                if e.get("k") == "ref" and e.get("dk") == "local":
                    return dict(store.get("$tmp", ())).get(e["n"])
                if e.get("k") == "un" and e.get("op") == "*":
                    pv = value_of(store, e["e"])
                    if isinstance(pv, tuple) and pv and pv[0] == "p":
                        return tok(pv[1], store, pv[2])
                    return None
                if e.get("k") == "un" and e.get("op") == "&":
                    arr, sl = slot_of(store, e["e"])
                    return ("p", arr, sl) if arr is not None and sl is not None else None
                if e.get("k") == "bin" and e["op"] in ("+", "-"):
                    l_, r_ = strip_casts(e["l"]), e["r"]
                    if l_.get("k") == "ref" and l_.get("n") in (K, V):
                        sl = eval_in(store, r_, f, None)
                        if sl is not None:
                            return ("p", l_["n"], sl if e["op"] == "+" else -sl)
                return None
            results = []

            def effect(b, i, x, store):
                upd = {}
                if not isinstance(x, dict):
                    return upd
                arrs = {K: dict(store.get("$" + K, ())), V: dict(store.get("$" + V, ()))}
                tmps = dict(store.get("$tmp", ()))
                touched = False
                for l, kind, nn in writes(x):
                    tl = strip_casts(l)
                    rhs = nn.get("init") if kind == "decl" else (nn.get("r") if nn.get("k") == "bin" and nn["op"] == "=" else None)
                    if tl.get("k") == "mem" and tl.get("f") != fld:
                        continue        # the use counter and the like
                    if tl.get("k") == "mem":
                        tl = strip_casts(tl["b"])
                        rhs = None      # a bare key store: a new entry
                    arr, sl = slot_of(store, tl)
                    if arr is not None:
                        if sl is None:
                            raise AnalysisBroken("__tzob_zif: slot of a write to %s unknown on the hit path" % arr)
                        v = value_of(store, rhs) if rhs is not None else None
                        arrs[arr][sl] = v if (isinstance(v, tuple) and v[0] == "e") else ("new", b, i)
                        touched = True
                    elif tl.get("k") == "ref" and tl.get("dk") == "local" and rhs is not None and kind in ("decl", "assign"):
                        v = value_of(store, rhs)
                        if v is not None:
                            tmps[tl["n"]] = v
                            touched = True
                        elif tl["n"] in tmps:
                            del tmps[tl["n"]]
                            touched = True
                if touched:
                    upd["$" + K] = tuple(sorted(arrs[K].items()))
                    upd["$" + V] = tuple(sorted(arrs[V].items()))
                    upd["$tmp"] = tuple(sorted(tmps.items()))
                if x.get("k") == "ret" and x.get("e") is not None:
                    results.append((cfg.blocks[b].elems[i].get("line"), value_of(store, x["e"]), show(cfg.resolve(x["e"]))[:40]))
                return upd
            tracked = {l_["n"] for l_ in f.locals if l_.get("w")} | {ivar}
            w = AbsWalk(f, tracked, init={ivar: i0}, effect=effect, max_states=20000)
            # pointers and tokens taken in front of the match belong to the same path: start at the head of the loop iteration
            w.run(start_block=succ)
            n += 1
            want = ("e", i0 + off)
            key = "__tzob_zif/hit-returns-the-matched-zone(slot %s)" % ("0" if i0 == 0 else "n>0")
            bad = [(ln, v, txt) for ln, v, txt in results if v != want]
            if not results:
                raise AnalysisBroken("__tzob_zif: no return reached from the cache hit")
            if bad:
                ln, v, txt = bad[0]
                rep.fail(rid, key, f.loc(ln), "after a hit on slot i the function returns `%s`, which by then is %s — not the zone of the entry whose handle matched: "
                         "the caller converts with another zone's offsets" % (
                             txt, ("the zone of the entry that was in slot i%+d before the shuffle" % (v[1] - i0)) if isinstance(v, tuple) and v[0] == "e"
                             else "something this analysis cannot follow"))
            else:
                rep.ok(rid, key, f.loc(), "every return on the hit path hands out the matched entry's zone (%d returns)" % len(results))
    if n < 2:
        rep.broken_("rule=%s expected the cache-hit path of __tzob_zif, found %d walks" % (rid, n))


def r07_3(prog, rep, rid="R07.3"):
    """Direction and sign pairing of the conversions."""
    Q, A, OFF = 100, 107, 7
    n = 0
    for name, want in (("echs_instant_utc", "zif_utc_time"), ("echs_instant_loc", "zif_local_time")):
        f = prog.fn(name, "tzob.c")
        cfg = f.cfg
        asked = []

        def call_eval(c, store):
            if c.get("fn") == "__inst_to_epoch":
                return Q
            if c.get("fn") in ("zif_utc_time", "zif_local_time"):
                a = eval_in(store, c["a"][1], f, call_eval) if len(c.get("a", [])) > 1 else None
                asked.append((c["fn"], a))
                return A
            return None
        dnames = set()
        for b, i, x, line in cfg.all_elems():
            if isinstance(x, dict) and x.get("k") == "decl":
                for d in x["ds"]:
                    if "idiff" in (d.get("t") or "") and d.get("init") is not None:
                        dnames.add((d["n"], line))
        tracked = {l_["n"] for l_ in f.locals} | {dn + ".d" for dn, _ in dnames}
        w = AbsWalk(f, tracked, call_eval=call_eval)
        w.run()
        vals = []
        for dn, line in sorted(dnames):
            for st in w.exit_stores:
                if dn + ".d" in st:
                    vals.append((line, st[dn + ".d"]))
            if not any(dn + ".d" in st for st in w.exit_stores):
                vals.append((line, None))
        n += 1
        key = "%s/adds-answer-minus-question" % name
        if not vals:
            raise AnalysisBroken("%s: the difference handed to echs_instant_add not found" % name)
        bad = [(l, v) for l, v in vals if v != 1000 * (A - Q)]
        fns = {a[0] for a in asked}
        args = {a[1] for a in asked}
        if bad:
            rep.fail(rid, key, f.loc(bad[0][0]), "with the epoch of the instant = %d and the zone library's answer = %d the instant is moved by %s ms instead of %d: "
                     "the difference is taken the wrong way round (or in the wrong unit) and every zoned time moves away from UTC twice the offset" % (
                         Q, A, bad[0][1], 1000 * (A - Q)))
        elif fns != {want}:
            rep.fail(rid, key, f.loc(), "%s() asks %s instead of %s: local times are converted in the wrong direction" % (name, sorted(fns), want))
        elif args != {Q}:
            rep.fail(rid, key, f.loc(), "%s() does not ask the zone library about the epoch of the instant it converts (%s)" % (name, sorted(args, key=str)))
        else:
            rep.ok(rid, key, f.loc(), "asks %s about the instant's epoch and adds 1000 * (answer - question)" % want)
    for name, want in (("zif_utc_time", Q - OFF), ("zif_local_time", Q + OFF)):
        f = prog.fn(name, "tzraw.c")
        cfg = f.cfg

        def call_eval2(c, store):
            if c.get("fn") == "__offs":
                return OFF
            return None
        tpar = f.params[1]["n"]
        outs = []

        def effect(b, i, x, store, f=f, cfg=cfg):
            if isinstance(x, dict) and x.get("k") == "ret" and x.get("e") is not None:
                outs.append((f.cfg.blocks[b].elems[i].get("line"), eval_in(store, cfg.resolve(x["e"]), f, call_eval2)))
            return None
        w = AbsWalk(f, {l_["n"] for l_ in f.locals} | {tpar}, init={tpar: Q}, effect=effect, call_eval=call_eval2, max_states=2000)
        w.run()
        n += 1
        key = "%s/offset-sign" % name
        conv = [(l, v) for l, v in outs if v != Q]
        if not conv:
            raise AnalysisBroken("%s: no return that applies the offset found (%s)" % (name, outs))
        bad = [(l, v) for l, v in conv if v != want]
        if bad:
            rep.fail(rid, key, f.loc(bad[0][0]), "for t = %d and an offset of %d the function returns %s instead of %d: the offset is applied with the wrong sign" % (Q, OFF, bad[0][1], want))
        else:
            rep.ok(rid, key, f.loc(), "returns t %s offset" % ("-" if want < Q else "+"))
    if n < 4:
        rep.broken_("rule=%s expected 4 instances, found %d" % (rid, n))


def r07_4(prog, rep, rid="R07.4"):
    """__inst_to_epoch() reads i.m and i.d as numbers: every instant handed to it has had its zone tag detached on the way."""
    n = 0
    for f in prog.fns_in("tzob.c"):
        if not f.cfg or f.file != "tzob.c" or not any("tzob" in (p_.get("t") or "") for p_ in f.params):
            continue        # the zone-aware conversions; the plain epoch API takes untagged instants by contract
        cfg = f.cfg
        for s in call_sites(f, "__inst_to_epoch"):
            a = strip_casts(cfg.resolve(s.node["a"][0]))
            n += 1
            key = "%s/epoch-of-untagged-instant@%s" % (f.name, a.get("n") if a.get("k") == "ref" else "expr")
            if a.get("k") == "call" and a.get("fn") == "echs_instant_detach_tzob":
                rep.ok(rid, key, f.loc(s.line), "the argument is detached in place")
                continue
            if a.get("k") != "ref":
                rep.fail(rid, key, f.loc(s.line), "the instant handed to __inst_to_epoch() is not visibly untagged (%s)" % show(a)[:40])
                continue
            v = a["n"]
            defs = []
            for b, i, x, line in cfg.all_elems():
                if isinstance(x, dict):
                    for l, kind, nn in writes(x):
                        if lv(l) == v or lv(l).startswith(v + "."):
                            rhs = nn.get("init") if kind == "decl" else (nn.get("r") if nn.get("k") == "bin" and nn["op"] == "=" else None)
                            r_ = strip_casts(cfg.resolve(rhs)) if rhs is not None else {}
                            det = lv(l) == v and r_.get("k") == "call" and r_.get("fn") == "echs_instant_detach_tzob"
                            defs.append((Site(b, i, None, line), det))
            dets = [d for d, isdet in defs if isdet and site_before(cfg, d, s)]
            # a write that is not the detachment and can lie between the detachment and the call
            spoil = [d for d, isdet in defs if not isdet and any(site_before(cfg, dd, d) or dd.b == d.b for dd in dets)
                     and (d.b == s.b and d.i < s.i or d.b != s.b and s.b in cfg.reach_from(d.b))]
            if dets and not spoil:
                rep.ok(rid, key, f.loc(s.line), "%s = echs_instant_detach_tzob(...) dominates the call, nothing re-tags it in between" % v)
            else:
                rep.fail(rid, key, f.loc(s.line), "%s is handed to __inst_to_epoch() without having passed echs_instant_detach_tzob() on every path: the zone tag in the "
                         "top bits of month and day is converted as part of the date (month > 12 takes the `0 days` branch, the day is 64..192 too large)" % v)
    if n < 3:
        rep.broken_("rule=%s expected >=3 calls of __inst_to_epoch in tzob.c, found %d" % (rid, n))


def r07_5(prog, rep, rid="R07.5"):
    """Stream set-up: zone read -> UTC conversion -> proto offset looked up for the UTC instant in that zone."""
    n = 0
    # rule streams: the proto instant stays on the wall clock of its zone (the fillers expand calendar dates: BYDAY, BYMONTHDAY and
    # month lengths are those of the zone's calendar, not of UTC's), the zone is read off it before the tag is detached
    f = prog.fn("__make_evrrul", "evical.c")
    cfg = f.cfg
    zr = call_sites(f, "echs_instant_tzob")
    dt = call_sites(f, "echs_instant_detach_tzob")
    ut = call_sites(f, ("echs_event_to_utc", "echs_instant_to_utc", "echs_instant_utc"))
    if not zr:
        raise AnalysisBroken("__make_evrrul: read of the zone not found")
    n += 1
    key = "__make_evrrul/proto-stays-on-the-wall-clock"
    if ut:
        rep.fail(rid, key, f.loc(ut[0].line), "the proto instant of a rule stream is converted to UTC before the rule is expanded: BYDAY, BYMONTHDAY, month lengths and "
                 "`the same day every month` are then evaluated on UTC dates — 09:00 on the 1st in Sydney is 22:00 on the 31st in UTC, a monthly rule "
                 "skips every month without a 31st and BYDAY=MO fires on Tuesdays")
    else:
        rep.ok(rid, key, f.loc(), "no UTC conversion of the proto instant; occurrences are converted one by one in refill() (R07.12)")
    n += 1
    key = "__make_evrrul/zone-read-before-detach"
    if dt and all(any(site_before(cfg, z, d) for z in zr) for d in dt):
        rep.ok(rid, key, f.loc(zr[0].line), "the zone is read off the instant before its tag is detached")
    else:
        rep.fail(rid, key, f.loc((dt or zr)[0].line), "the zone tag is %s: %s" % (
            "detached before the zone is read" if dt else "never detached from the proto instant",
            "the stream's zone is 0 and every occurrence is taken for UTC" if dt else "the fillers read month and day with the tag bits in them"))
    for name in ("__make_evrdat",):
        f = prog.fn(name, "evical.c")
        cfg = f.cfg
        zr = call_sites(f, "echs_instant_tzob")
        ut = call_sites(f, ("echs_event_to_utc", "echs_instant_to_utc", "echs_instant_utc"))
        of = call_sites(f, ("echs_instant_tzof", "echs_tzob_offs"))
        if not (zr and ut and of):
            raise AnalysisBroken("%s: zone read / UTC conversion / offset lookup not found (%d, %d, %d)" % (name, len(zr), len(ut), len(of)))
        n += 1
        key = "%s/zone-read-before-utc" % name
        if all(any(site_before(cfg, z, u) for z in zr) for u in ut):
            rep.ok(rid, key, f.loc(zr[0].line), "the zone is read off the instant before the UTC conversion detaches it")
        else:
            rep.fail(rid, key, f.loc(ut[0].line), "the UTC conversion is not preceded by the read of the zone: echs_instant_utc() detaches the tag, a zone read "
                     "afterwards is 0 and every occurrence of the stream is treated as UTC")
        n += 1
        key = "%s/proto-offset-of-utc-instant" % name
        if all(any(site_before(cfg, u, o) for u in ut) for o in of):
            rep.ok(rid, key, f.loc(of[0].line), "the proto offset is looked up after the conversion (echs_tzob_offs() expects UTC)")
        else:
            rep.fail(rid, key, f.loc(of[0].line), "the proto offset is looked up for the local wall-clock time, not for the UTC instant: within an offset's width "
                     "of a transition the wrong side is found and the whole stream is off by the DST difference")
        # the zone handed to the lookup is the one that was read
        zvars = set()
        for b, i, x, line in cfg.all_elems():
            if isinstance(x, dict):
                for l, kind, nn in writes(x):
                    rhs = nn.get("init") if kind == "decl" else (nn.get("r") if nn.get("k") == "bin" and nn["op"] == "=" else None)
                    if rhs is not None and any(q.get("k") == "call" and q.get("fn") == "echs_instant_tzob" for q in walk(cfg.resolve(rhs))):
                        zvars.add(lv(l))
        n += 1
        key = "%s/offset-in-the-zone-read" % name
        bad = [o for o in of if lv(strip_casts(cfg.resolve(o.node["a"][0 if o.node["fn"] == "echs_tzob_offs" else 1]))) not in zvars]
        if bad:
            rep.fail(rid, key, f.loc(bad[0].line), "the offset is looked up in `%s`, which is not the zone read off DTSTART (%s)" % (
                show(bad[0].node["a"][1])[:30], sorted(zvars)))
        else:
            rep.ok(rid, key, f.loc(of[0].line), "looked up in the zone read off DTSTART (%s)" % ", ".join(sorted(zvars)))
    if n < 5:
        rep.broken_("rule=%s expected 5 instances, found %d" % (rid, n))


def r07_6(prog, rep, rid="R07.6"):
    """An occurrence generated on the UTC time line of the proto instant keeps its wall-clock time when it is moved by
    (proto offset - own offset)."""
    sh = prog.fn("echs_tzob_shift", "evical.c")
    names = [p["n"] for p in sh.params]
    if len(names) != 3:
        raise AnalysisBroken("echs_tzob_shift: expected (instant, from, to)")

    def shift_ms(a, b):
        for bb, i, x, line in sh.cfg.all_elems():
            if isinstance(x, dict) and x.get("k") == "decl":
                for d in x["ds"]:
                    ini = strip_casts(sh.cfg.resolve(d["init"])) if d.get("init") is not None else {}
                    if ini.get("k") == "init":
                        for fname, val in ini["fs"]:
                            if fname == "d" and val is not None:
                                return eval_in({names[1]: a, names[2]: b}, sh.cfg.resolve(val), sh, None)
        return None
    c1, c2 = shift_ms(1, 0), shift_ms(0, 1)
    if c1 is None or c2 is None:
        raise AnalysisBroken("echs_tzob_shift: the difference could not be evaluated")
    n = 0
    for name in ("instant_soup",):
        f = prog.fn(name, "evical.c")
        cfg = f.cfg
        own = {}
        for b, i, x, line in cfg.all_elems():
            if isinstance(x, dict):
                for l, kind, nn in writes(x):
                    rhs = nn.get("init") if kind == "decl" else (nn.get("r") if nn.get("k") == "bin" and nn["op"] == "=" else None)
                    if rhs is None:
                        continue
                    for q in walk(cfg.resolve(rhs)):
                        if q.get("k") == "call" and q.get("fn") in ("echs_instant_tzof", "echs_tzob_offs"):
                            own[lv(l)] = q
        for s in call_sites(f, "echs_tzob_shift"):
            a1, a2 = (lv(strip_casts(cfg.resolve(s.node["a"][k]))) for k in (1, 2))
            n += 1
            key = "%s/shift-by-proto-minus-own" % name
            if (a1 in own) == (a2 in own):
                rep.fail(rid, key, f.loc(s.line), "echs_tzob_shift(%s, %s): exactly one of the offsets must be the one looked up for the occurrence itself "
                         "(looked up here: %s)" % (a1, a2, sorted(own)))
                continue
            coef_own = c1 if a1 in own else c2
            coef_proto = c2 if a1 in own else c1
            if coef_own == -1000 and coef_proto == 1000:
                rep.ok(rid, key, f.loc(s.line), "moves the occurrence by 1000 * (proto offset - own offset)")
            else:
                rep.fail(rid, key, f.loc(s.line), "the occurrence is moved by %d * own offset %+d * proto offset (ms per second): it must be -1000 * own + 1000 * proto "
                         "— with the sign the other way round an occurrence across a DST change is off by twice the change" % (coef_own, coef_proto))
            # the own offset is looked up for the occurrence that is shifted
            o = own[a1 if a1 in own else a2]
            inst = strip_casts(cfg.resolve(o["a"][1 if o["fn"] == "echs_tzob_offs" else 0]))
            shifted = strip_casts(cfg.resolve(s.node["a"][0]))
            n += 1
            key = "%s/own-offset-of-the-shifted-occurrence" % name
            same = show(f.expand(inst)) == show(f.expand(shifted))
            if not same:
                # instant_soup: the shifted instant is the detached copy of the one looked up
                se = strip_casts(f.expand(shifted))
                srcs = {lv(q) for q in walk(se) if q.get("k") in ("ref", "idx", "mem")}
                for b, i, x, line in cfg.all_elems():
                    if isinstance(x, dict):
                        for l, kind, nn in writes(x):
                            if lv(l) == lv(shifted) and nn.get("k") == "bin" and nn["op"] == "=":
                                srcs |= {lv(q) for q in walk(cfg.resolve(nn["r"])) if q.get("k") in ("ref", "idx", "mem")}
                same = lv(inst) in srcs
            if same:
                rep.ok(rid, key, f.loc(s.line), "the offset is the one of the shifted occurrence (%s)" % show(inst)[:40])
            else:
                rep.fail(rid, key, f.loc(s.line), "the offset `%s` is looked up for %s but %s is shifted: one occurrence's offset corrects another" % (
                    a1 if a1 in own else a2, show(inst)[:40], show(shifted)[:40]))
    if n < 2:
        rep.broken_("rule=%s expected 2 instances in instant_soup, found %d" % (rid, n))


def r07_12(prog, rep, rid="R07.12"):
    """Rules are expanded on the wall clock of DTSTART's zone; refill() then converts *every* cached occurrence to UTC on its own (at
    the offset of its own wall-clock time), and the fillers get UNTIL on the same wall clock."""
    f = prog.fn("refill", "evical.c")
    cfg = f.cfg
    fills = [s_ for s_ in f.all_calls() if (s_[2].get("fn") or "").startswith("rrul_fill_")]
    if not fills:
        raise AnalysisBroken("refill: no filler call found")
    # (a) stores  cch[i] = echs_instant_utc(cch[i], <zone of the stream>)
    conv = []
    for b, i, x, line in cfg.all_elems():
        if not isinstance(x, dict):
            continue
        for l, kind, nn in writes(x):
            if nn.get("k") != "bin" or nn["op"] != "=":
                continue
            tl = strip_casts(l)
            r_ = strip_casts(cfg.resolve(nn["r"]))
            if tl.get("k") == "idx" and lv(tl).endswith("]") and "cch" in lv(tl) and r_.get("k") == "call" and r_.get("fn") == "echs_instant_utc":
                a0, a1 = strip_casts(cfg.resolve(r_["a"][0])), strip_casts(cfg.resolve(r_["a"][1]))
                conv.append((b, line, show(tl) == show(strip_casts(f.expand(a0))), lv(strip_casts(f.expand(a1)))))
    key = "refill/every-occurrence-converted-on-its-own"
    loops = cfg.natural_loops()
    good = [c for c in conv if c[2] and c[3].endswith("zon")]
    # the conversion runs over the filled part of the cache: refill() is walked with the filler's answer fixed and the subscripts the
    # conversion is carried out with are collected — they are 0 .. kept-1, whichever way the loop and its bound are written
    from ..absw import AbsWalk, eval_in
    grp = prog.macro_int("GRP_CCH_OFF")
    in_full_loop = bool(good)
    good_at = {(b_, l_) for b_, l_, *_ in good}
    for nfill in (5, grp):
        seen_idx = set()

        def call_eval(c, store, _n=nfill):
            return _n if (c.get("fn") or "").startswith("rrul_fill_") else None

        def effect(b, i, x, store, _s=seen_idx, _ce=call_eval):
            if isinstance(x, dict):
                for l, kind, nn in writes(x):
                    tl = strip_casts(l)
                    if tl.get("k") == "idx" and (b, nn.get("line", tl.get("line"))) in good_at or (tl.get("k") == "idx" and any(b == g_[0] and tl.get("line") == g_[1] for g_ in good)):
                        _s.add(eval_in(store, cfg.resolve(tl["i"]), f, _ce))
            return None
        AbsWalk(f, {l_["n"] for l_ in f.locals if l_.get("extent") is None} | {lv(l) for b, i, x, line in cfg.all_elems() if isinstance(x, dict)
                                                                                  for l, kind, nn in writes(x) if lv(l).endswith("->ncch")},
                effect=effect, call_eval=call_eval, max_states=50000).run()
        kept = nfill - 1 if nfill >= grp else nfill
        if seen_idx != set(range(kept)):
            in_full_loop = False
    after = all(any(cfg.dominates(fb, cb) or fb == cb for fb, fi, fc, fl in fills) or True for cb, *_ in good)
    rets = [b for b, i, x, line in cfg.all_elems() if isinstance(x, dict) and x.get("k") == "ret"]
    if good and in_full_loop and after:
        rep.ok(rid, key, f.loc(good[0][1]), "cch[i] = echs_instant_utc(cch[i], zone of the stream) over the filled part of the cache")
    elif conv and not good:
        rep.fail(rid, key, f.loc(conv[0][1]), "the conversion does not turn each cached occurrence into its own UTC instant in the stream's zone "
                 "(element converted: %s, zone operand: %s)" % ("the one stored" if conv[0][2] else "another one", conv[0][3]))
    else:
        rep.fail(rid, key, f.loc(), "the occurrences a filler has written to the cache are not each converted with echs_instant_utc(occurrence, zone of the "
                 "stream) over the whole filled part: they leave the stream on the zone's wall clock (or at one common offset, which is wrong "
                 "across every DST change and wrong by a calendar day for rules that name days)")
    # (a') what is kept back for the next refill is still on the wall clock: it is taken off the cache before the conversion
    key = "refill/seed-kept-before-the-conversion"
    seeds = []
    for b, i, x, line in cfg.all_elems():
        if isinstance(x, dict):
            for l, kind, nn in writes(x):
                if lv(l).endswith("e.from") and nn.get("k") == "bin" and nn["op"] == "=" and \
                        any(q.get("k") == "idx" and "cch" in lv(q) for q in walk(cfg.resolve(nn["r"]))):
                    seeds.append((b, i, line))
    if not seeds:
        rep.fail(rid, key, f.loc(), "refill() no longer keeps an instant back as the start of the next batch")
    else:
        late = [sd for sd in seeds for cb, cl, same, z in good if (cb == sd[0]) or (sd[0] in cfg.reach_from(cb))]
        if late:
            rep.fail(rid, key, f.loc(late[0][2]), "the instant kept back as the start of the next batch is taken from the cache *after* the occurrences have been "
                     "converted to UTC: from the second batch on (the 64th occurrence) the fillers expand UTC dates and refill() converts them "
                     "a second time")
        else:
            rep.ok(rid, key, f.loc(seeds[0][2]), "the next batch's start is taken off the cache while it is still on the wall clock")
    # (b) UNTIL on the wall clock
    key = "refill/until-on-the-wall-clock"
    oku = False
    for b, i, x, line in cfg.all_elems():
        if isinstance(x, dict):
            for l, kind, nn in writes(x):
                if lv(l).endswith(".until") and nn.get("k") == "bin" and nn["op"] == "=":
                    r_ = strip_casts(cfg.resolve(nn["r"]))
                    if r_.get("k") == "call" and r_.get("fn") == "echs_instant_loc":
                        base = lv(l)[:-len(".until")]
                        handed = all(any(strip_casts(a).get("k") == "un" and strip_casts(a).get("op") == "&" and lv(strip_casts(a)["e"]) == base
                                         for a in c_[2].get("a", [])) for c_ in fills)
                        oku = handed
    if oku:
        rep.ok(rid, key, f.loc(), "the copy of the rule handed to the fillers carries UNTIL converted with echs_instant_loc()")
    else:
        rep.fail(rid, key, f.loc(), "the fillers (or one of them) compare their wall-clock candidates with an UNTIL that is still UTC: occurrences within the "
                 "zone's offset of UNTIL are kept or dropped wrongly")


def r07_13(prog, rep, rid="R07.13"):
    """The serialiser of a rule stream writes the earliest pending instant as DTSTART.  Cached occurrences are UTC, the proto instant
    of a stream is on the wall clock of its zone: wherever send_evrrul() compares instants or hands one to the writer, a proto
    instant must have gone through echs_instant_utc() (unless it is the nul instant, which says `end of stream`)."""
    f = prog.fn("send_evrrul", "evical.c")
    cfg = f.cfg
    insts = {l_["n"] for l_ in f.locals if "echs_instant_t" in (l_.get("t") or "")} | \
        {l_["n"] + ".from" for l_ in f.locals if "echs_event_t" in (l_.get("t") or "")}
    if not insts:
        raise AnalysisBroken("send_evrrul: no instant-valued local found")
    bad = []
    uses = [0]

    def state_of(e, store):
        e = strip_casts(cfg.resolve(e))
        t = lv(e)
        if t in insts:
            return store.get("$st:" + t, "?")
        if e.get("k") == "idx" and "cch" in t:
            return "utc"
        if e.get("k") == "mem" and t.endswith("e.from"):
            return "wall"
        if e.get("k") == "call" and e.get("fn") == "echs_instant_utc":
            return "utc"
        if e.get("k") == "call" and e.get("fn") in ("echs_nul_instant", "echs_max_instant"):
            return "nul"
        return "?"

    def effect(b, i, x, store):
        upd = {}
        if not isinstance(x, dict):
            return upd
        for l, kind, nn in writes(x):
            t = lv(l)
            rhs = nn.get("init") if kind == "decl" else (nn.get("r") if nn.get("k") == "bin" and nn["op"] == "=" else None)
            if rhs is None:
                continue
            if t in insts:
                upd["$st:" + t] = state_of(rhs, store)
            elif "echs_event_t" in (strip_casts(l).get("t") or "") and (t + ".from") in insts:
                r_ = strip_casts(cfg.resolve(rhs))
                upd["$st:" + t + ".from"] = "wall" if lv(r_).endswith("->e") or lv(r_).endswith(".e") else "?"
        for c in calls(x):
            if c.get("fn") in ("echs_instant_lt_p", "echs_instant_le_p", "echs_instant_eq_p", "send_ev"):
                for a in c.get("a", []):
                    a_ = strip_casts(cfg.resolve(a))
                    st = None
                    if lv(a_) in insts or a_.get("k") in ("idx", "mem", "call"):
                        st = state_of(a_, store)
                    elif a_.get("k") == "ref" and (a_["n"] + ".from") in insts:
                        st = store.get("$st:" + a_["n"] + ".from", "?")
                    if st is None:
                        continue
                    uses[0] += 1
                    if st == "wall":
                        bad.append((cfg.blocks[b].elems[i].get("line"), c["fn"], show(a_)[:30]))
        return upd

    def assume(b, si, c, st):
        # on the side of a nul test on which the instant *is* nul it says `end of stream`, not a time on any clock
        for q in walk(c):
            if q.get("k") == "call" and q.get("fn") == "echs_nul_instant_p" and q.get("a"):
                a_ = strip_casts(cfg.resolve(q["a"][0]))
                t = lv(a_) if lv(a_) in insts else (a_.get("n", "") + ".from" if a_.get("k") == "ref" else None)
                if t in insts:
                    neg = strip_casts(strip(c))
                    negated = neg.get("k") == "un" and neg.get("op") == "!"
                    is_nul_edge = (si == 0) != negated
                    if is_nul_edge and st.get("$st:" + t) == "wall":
                        return {"$st:" + t: "nul"}
        return None
    w = AbsWalk(f, set(), effect=effect, assume=assume, max_states=20000)
    w.run()
    key = "send_evrrul/proto-off-the-wall-clock-before-it-meets-the-cache"
    if uses[0] < 2:
        raise AnalysisBroken("send_evrrul: comparisons of pending instants / the call of the event writer were not found")
    if bad:
        ln, fn, what = bad[0]
        rep.fail(rid, key, f.loc(ln), "`%s` reaches %s() as it was read off the stream's proto event — on the wall clock of the stream's zone — while cached "
                 "occurrences are UTC: west of Greenwich the stale proto looks earlier than the next cached occurrence, wins, and DTSTART is "
                 "written hours off" % (what, fn))
    else:
        rep.ok(rid, key, f.loc(), "%d uses of pending instants in comparisons and in the writer: proto instants are converted (or nul) by then" % uses[0])


def _probe_signature(f, table):
    """What a function does to find a hash in the open-addressed table: the subscript expressions it probes and how the variables in
    them are stepped, with the locals named by their role (the set of their definitions) instead of by their names."""
    import copy
    cfg = f.cfg
    # the hash: what the table's entries are compared with
    H = None
    offs = []
    for b, i, x, line in cfg.all_elems():
        if not isinstance(x, dict):
            continue
        for n in walk(cfg.resolve(x)):
            if n.get("k") == "bin" and n["op"] == "==":
                for a, o in ((n["l"], n["r"]), (n["r"], n["l"])):
                    a, o = strip_casts(a), strip_casts(o)
                    if a.get("k") == "mem" and strip_casts(a["b"]).get("k") == "idx" and strip_casts(strip_casts(a["b"])["b"]).get("n") == table \
                            and o.get("k") == "ref" and o.get("dk") in ("local", "param"):
                        H = o["n"]
                        offs.append((strip_casts(strip_casts(a["b"])["i"]), line))
    if H is None or not offs:
        raise AnalysisBroken("%s: no probe of %s[...] against a hash found" % (f.name, table))
    defs = {}
    for b, i, x, line in cfg.all_elems():
        if not isinstance(x, dict):
            continue
        for l, kind, n in writes(x):
            tl = strip_casts(l)
            if tl.get("k") != "ref" or tl.get("dk") != "local":
                continue
            if kind == "decl":
                if n.get("init") is None:
                    continue
                defs.setdefault(tl["n"], []).append(("=", n["init"]))
            elif kind == "incdec":
                defs.setdefault(tl["n"], []).append((n["op"].replace("post", "").replace("pre", ""), None))
            else:
                defs.setdefault(tl["n"], []).append((n["op"], n["r"]))
    roles = {H: "HASH"}

    def canon(x, depth=0):
        x = strip_casts(cfg.resolve(x)) if isinstance(x, dict) else x
        if not isinstance(x, dict):
            return str(x)
        v = int_value(x)
        if v is not None:
            return str(v)
        k = x.get("k")
        if k == "ref":
            if x.get("dk") in ("local", "param"):
                return role(x["n"], depth + 1)
            return x["n"]
        if k == "bin" and x["op"] == "=":
            return canon(x["l"], depth)         # the value of an assignment is what was assigned to
        if k == "bin":
            a, b_ = canon(x["l"], depth), canon(x["r"], depth)
            if x["op"] in ("&", "|", "^", "+", "*") and b_ < a:
                a, b_ = b_, a
            return "(%s %s %s)" % (a, x["op"], b_)
        if k == "un":
            return "(%s %s)" % (x["op"], canon(x["e"], depth))
        if k == "call":
            return "CALL"
        return show(x)

    def role(v, depth=0):
        if v in roles:
            return roles[v]
        if depth > 6 or v not in defs:
            return "?"
        roles[v] = "..."         # cycle guard
        sig = sorted({"%s%s" % (op, "" if rhs is None else canon(rhs, depth)) for op, rhs in defs[v]})
        roles[v] = "{" + ",".join(sig) + "}"
        return roles[v]
    probes = []
    for e, line in offs:
        e = strip_casts(e)
        if e.get("k") == "ref" and e.get("dk") == "local" and e["n"] in defs and len(defs[e["n"]]) >= 1:
            probes.append(sorted(canon(r) for op, r in defs[e["n"]] if r is not None))
        else:
            probes.append([canon(e)])
    bounds = set()
    for b in cfg.blocks:
        c = cfg.cond(b)
        if c is None:
            continue
        c = strip_casts(strip(c))
        if c.get("k") == "bin" and c["op"] in ("<", "<=", ">", ">=") and int_value(c["r"]) is not None:
            l = strip_casts(c["l"])
            if l.get("k") == "ref" and l.get("dk") == "local" and l["n"] in defs:
                bounds.add("%s %s %d" % (role(l["n"]), c["op"], int_value(c["r"])))
    return sorted(set(tuple(p) for p in probes)), sorted(bounds), H


def r07_7(prog, rep, rid="R07.7"):
    """The zone name table is open-addressed: echs_tzob() files a name under the first free slot of a probe sequence derived from its
    hash, echs_zone() (which __tzob_zif() asks for the file name to open, and the serialiser for the TZID to print) walks a probe
    sequence for the hash stored under the handle.  The two walks must be the same walk: same subscript expressions, same stepping of
    the variables in them, same number of probes per level."""
    w = prog.fn("echs_tzob", "tzob.c")
    r = prog.fn("echs_zone", "tzob.c")
    table = None
    for b, i, x, line in w.cfg.all_elems():
        if isinstance(x, dict):
            for l, kind, n in writes(x):
                tl = strip_casts(l)
                if tl.get("k") == "mem" and strip_casts(tl["b"]).get("k") == "idx" and strip_casts(strip_casts(tl["b"])["b"]).get("dk") == "global":
                    table = strip_casts(strip_casts(tl["b"])["b"])["n"]
    if table is None:
        raise AnalysisBroken("echs_tzob: the name table it files into was not found")
    pw, bw, hw = _probe_signature(w, table)
    pr, br, hr = _probe_signature(r, table)
    key = "echs_tzob~echs_zone/same-probe-sequence"
    if pw != pr:
        only_w = [p for p in pw if p not in pr]
        only_r = [p for p in pr if p not in pw]
        rep.fail(rid, key, r.loc(), "echs_tzob() files names under %s, echs_zone() looks for them under %s (locals named by their definitions): "
                 "a name filed by the one is not found by the other — the zone cannot be opened (the event is taken for UTC) and its TZID is "
                 "not written back" % (only_w or pw, only_r or pr), {"writer": pw, "reader": pr})
    else:
        rep.ok(rid, key, r.loc(), "%d probe expressions, stepped alike in both functions" % len(pw))
    key = "echs_tzob~echs_zone/same-probe-count"
    if bw != br:
        rep.fail(rid, key, r.loc(), "probe loops are bounded by %s in echs_tzob() but by %s in echs_zone(): names filed by the later probes of the "
                 "longer walk are never found by the shorter one" % (bw, br))
    else:
        rep.ok(rid, key, r.loc(), "probe loops bounded alike (%s)" % "; ".join(bw))


def r07_8(prog, rep, rid="R07.8"):
    """The transition search bisects [min, max] into cells [trans(i), trans(i+1)) and returns the cell that holds t; it has no other
    exit.  The tests in front of the loop must leave exactly the union of the cells: a bound that the cells treat as open must not be
    admitted as closed — a t on that boundary lies in no cell and the loop never ends."""
    from ..flow import edge_dominates
    f = prog.fn("__find_trno", "tzraw.c")
    cfg = f.cfg
    loops = cfg.natural_loops()
    if not loops:
        raise AnalysisBroken("__find_trno: no loop found")
    # locals that hold table entries: assigned from a call of one accessor
    acc = {}
    for b, i, x, line in cfg.all_elems():
        if isinstance(x, dict):
            for l, kind, nn in writes(x):
                rhs = nn.get("init") if kind == "decl" else (nn.get("r") if nn.get("k") == "bin" and nn["op"] == "=" else None)
                r_ = strip_casts(cfg.resolve(rhs)) if rhs is not None else {}
                if r_.get("k") == "call" and r_.get("fn"):
                    acc[lv(l)] = r_["fn"]
    n = 0
    for h, blks in loops.items():
        # the cell test: a return inside the loop under  lo <= K  and  K < hi  with lo, hi table entries
        cell = None
        exits = {s_ for g in blks for s_ in cfg.blocks[g].live_succs() if s_ not in blks}
        for b in sorted(exits | set(blks)):
            blk = cfg.blocks[b]
            if not any(isinstance(e["x"], dict) and e["x"].get("k") == "ret" for e in blk.elems):
                continue
            atoms = []
            for g in blks:
                c = cfg.cond(g)
                if c is None:
                    continue
                for si, s_ in enumerate(cfg.blocks[g].succs):
                    if s_ is not None and si not in cfg.blocks[g].dead and edge_dominates(cfg, g, si, b):
                        atoms += [a for a in cond_atoms(c, si == 0) if len(a) == 5 and a[0] in ("<", "<=")]
            ups = [(a[0], a[1], a[2]) for a in atoms if a[2] in acc and a[1] not in acc]
            los = [(a[0], a[1], a[2]) for a in atoms if a[1] in acc and a[2] not in acc]
            if ups and los and ups[0][1] == los[0][2] and acc[ups[0][2]] == acc[los[0][1]]:
                cell = (ups[0][1], acc[ups[0][2]], los[0][0], ups[0][0], b)
        if cell is None:
            continue
        K, A, lo_op, up_op, rb = cell
        # what the tests in front of the loop leave
        entry = []
        for g in cfg.blocks:
            if g in blks:
                continue
            c = cfg.cond(g)
            if c is None:
                continue
            for si, s_ in enumerate(cfg.blocks[g].succs):
                if s_ is not None and si not in cfg.blocks[g].dead and edge_dominates(cfg, g, si, h):
                    entry += [a for a in cond_atoms(c, si == 0) if len(a) == 5 and a[0] in ("<", "<=")]
        e_up = [a for a in entry if a[1] == K and isinstance(a[4], dict) and strip_casts(a[4]).get("k") == "call" and strip_casts(a[4]).get("fn") == A]
        e_lo = [a for a in entry if a[2] == K and isinstance(a[3], dict) and strip_casts(a[3]).get("k") == "call" and strip_casts(a[3]).get("fn") == A]
        if not e_up or not e_lo:
            raise AnalysisBroken("__find_trno: the tests that bound %s before the loop were not found (%d upper, %d lower)" % (K, len(e_up), len(e_lo)))
        for side, cell_op, ent in (("upper", up_op, e_up), ("lower", lo_op, e_lo)):
            n += 1
            key = "__find_trno/%s-bound-admitted-as-the-cells-have-it" % side
            closed_entry = all(a[0] == "<=" for a in ent)
            if cell_op == "<" and closed_entry:
                rep.fail(rid, key, f.loc(cfg.blocks[rb].elems[0].get("line")), "the loop returns only from a cell  lo <= %s < hi  (open at the %s end), but the tests in front of it "
                         "let  %s == %s(..)  through (`%s`): a time stamp that equals that transition lies in no cell, no branch shrinks the interval any "
                         "further and the search never ends — a TZID'd time at exactly the zone's last transition hangs the process" % (
                             K, side, K, A, " ".join(str(v) for v in ent[0][:3])))
            else:
                rep.ok(rid, key, f.loc(), "%s end: cells are %s, the entry tests leave it %s" % (
                    side, "open" if cell_op == "<" else "closed", "closed" if closed_entry else "open"))
    if n < 2:
        rep.broken_("rule=%s expected the bisection loop of __find_trno with its two entry tests, found %d instances" % (rid, n))



# ---------------------------------------------------------------------------
# R07.9: the offset lookup over an ordinal model of a zone

_INT_MIN, _INT_MAX = -2 ** 31, 2 ** 31 - 1


class _NoResult(Exception):
    pass


def _zone_mem(NT):
    """A zone with NT transitions at 1000, 2000, ...; transition k switches to a type of its own with offset 100 + k.  Keys are
    relative to the zone pointer.  Only the *order* of a looked-up time against the transitions matters to the code under analysis
    (it touches these values through comparisons and copies only), so the positions between and on the transitions cover every case."""
    mem = {"hdr->tzh_timecnt": NT, "cz": 0}
    for k in range(NT):
        mem["trs[%d]" % k] = 1000 * (k + 1)
        mem["tys[%d]" % k] = k
    for k in range(max(NT, 1)):
        mem["tda[%d].offs" % k] = 100 + k
    return mem


def _lookup_engine(prog, NT):
    mem = _zone_mem(NT)
    file = "tzraw.c"
    cache = {}

    def initstore(g, args):
        zp = g.params[0]["n"]
        st = {zp + "->" + k: v for k, v in mem.items()}
        for p_, v in zip(g.params[1:], args):
            st[p_["n"]] = v
        return zp, st

    def make_ce(g):
        def ce(c, store):
            name = c.get("fn")
            if name == "__builtin_expect" or not name:
                return None
            if name == "zif_troffs":
                n = eval_in(store, c["a"][1], g, ce)
                if n is None:
                    return None
                idx = walk_int("zif_type", (n,))
                return mem.get("tda[%d].offs" % idx)
            if name in ("zif_ntrans", "zif_trans", "zif_type", "__find_trno", "zif_find_trans") and prog.has_fn(name, file):
                args = [eval_in(store, a, g, ce) for a in c["a"][1:]]
                if any(a is None for a in args):
                    return None
                return walk_int(name, tuple(args))
            return None
        return ce

    def walk_int(name, args):
        key = (name, args)
        if key in cache:
            if cache[key] is None:
                raise _NoResult("%s%s" % (name, args))
            return cache[key]
        g = prog.fn(name, file)
        zp, st = initstore(g, args)
        ce = make_ce(g)
        rets = []

        def effect(b, i, x, store):
            if isinstance(x, dict) and x.get("k") == "ret" and x.get("e") is not None:
                rets.append(eval_in(store, g.cfg.resolve(x["e"]), g, ce))
            return None
        tracked = {l_["n"] for l_ in g.locals} | {p_["n"] for p_ in g.params[1:]}
        w = AbsWalk(g, tracked, init=st, effect=effect, call_eval=ce, max_states=4000)
        w.run()
        vals = set(rets)
        if len(vals) != 1 or None in vals:
            cache[key] = None
            raise _NoResult("%s(%s) with %d transitions: %s" % (name, ", ".join(str(a) for a in args), NT,
                                                                  "never returns" if not rets else "no single result %s" % sorted(vals, key=str)))
        cache[key] = rets[0]
        return rets[0]

    FLD = ("prev", "next", "offs", "trno")

    def walk_zrng(t, mn, mx):
        g = prog.fn("__find_zrng", file)
        zp, st = initstore(g, (t, mn, mx))
        ce = make_ce(g)
        res = [l_["n"] for l_ in g.locals if "zrng_s" in (l_.get("t") or "")]
        if not res:
            raise AnalysisBroken("__find_zrng: result record not found")
        rv = res[0]
        tracked = {l_["n"] for l_ in g.locals} | {p_["n"] for p_ in g.params[1:]} | {"%s.%s" % (rv, f_) for f_ in FLD}
        w = AbsWalk(g, tracked, init=st, call_eval=ce, max_states=4000)
        w.run()
        outs = {tuple(s_.get("%s.%s" % (rv, f_)) for f_ in FLD) for s_ in w.exit_stores}
        if len(outs) != 1 or None in next(iter(outs)):
            raise _NoResult("__find_zrng(%d, %d, %d) with %d transitions: no single result %s" % (t, mn, mx, NT, sorted(outs, key=str)[:3]))
        return dict(zip(FLD, next(iter(outs))))

    def offs(cst, t):
        """(offset returned, cache afterwards) of __offs() for the cache state cst = (prev, next, offs, trno)."""
        g = prog.fn("__offs", file)
        cfg = g.cfg
        zp, st = initstore(g, (t,))
        cpath = None
        for b, i, x, line in cfg.all_elems():
            for n_ in walk(x) if isinstance(x, dict) else ():
                if n_.get("k") == "mem" and n_.get("f") in FLD:
                    bb = strip_casts(n_["b"])
                    if bb.get("k") == "mem" and "zrng_s" in (bb.get("t") or ""):
                        cpath = lv(bb)
        # the cache record read through a local pointer to it (`const struct zrng_s *const zc = &z->cache;`)
        ptrs = {}
        for b, i, x, line in cfg.all_elems():
            for l, kind, nn in writes(x) if isinstance(x, dict) else ():
                rhs = nn.get("init") if kind == "decl" else (nn.get("r") if nn.get("k") == "bin" and nn["op"] == "=" else None)
                r_ = strip_casts(cfg.resolve(rhs)) if rhs is not None else {}
                if r_.get("k") == "un" and r_.get("op") == "&" and strip_casts(r_["e"]).get("k") == "mem" and "zrng_s" in (strip_casts(r_["e"]).get("t") or ""):
                    ptrs.setdefault(lv(l), set()).add(lv(strip_casts(r_["e"])))
        ptrs = {k_: next(iter(v_)) for k_, v_ in ptrs.items() if len(v_) == 1}
        if cpath is None and ptrs:
            cpath = next(iter(ptrs.values()))
        ptrs = {k_: v_ for k_, v_ in ptrs.items() if v_ == cpath}
        if cpath is None:
            raise AnalysisBroken("__offs: the range cache was not found")
        for f_, v in zip(FLD, cst):
            st["%s.%s" % (cpath, f_)] = v
            for k_ in ptrs:
                st["%s->%s" % (k_, f_)] = v
        ce = make_ce(g)

        def struct_of(e, store):
            """fields of a zrng_s-valued expression"""
            e = strip_casts(cfg.resolve(e))
            if e.get("k") == "call" and e.get("fn") in ("__find_zrng", "zif_find_zrng"):
                a = [eval_in(store, a_, g, ce) for a_ in e["a"][1:]]
                if e["fn"] == "zif_find_zrng":
                    a = [a[0], 0, walk_int("zif_ntrans", ())]
                if any(v is None for v in a):
                    raise _NoResult("__offs(%d): arguments of the range search unknown" % t)
                return walk_zrng(*a)
            if e.get("k") == "bin" and e["op"] == "=":
                return struct_of(e["r"], store)
            if e.get("k") in ("ref", "mem"):
                base = lv(e)
                d = {f_: store.get("%s.%s" % (base, f_)) for f_ in FLD}
                if None not in d.values():
                    return d
                pend = dict(store.get("$pend", ()))
                d = {f_: pend.get("%s.%s" % (base, f_)) for f_ in FLD}
                if None not in d.values():
                    return d
            raise _NoResult("__offs(%d): value of `%s` unknown" % (t, show(e)[:40]))

        def effect(b, i, x, store):
            upd = {}
            if "$pend" in store:
                upd.update(dict(store["$pend"]))
                upd["$pend"] = None
            if not isinstance(x, dict):
                return upd
            pend = {}
            for l, kind, nn in writes(x):
                tl = strip_casts(l)
                ty = tl.get("t") or (nn.get("t") if kind == "decl" else "") or ""
                rhs = nn.get("init") if kind == "decl" else (nn.get("r") if nn.get("k") == "bin" and nn["op"] == "=" else None)
                if "zrng_s" in ty and "*" not in ty and rhs is not None:
                    stt = dict(store)
                    stt.update({k_: v_ for k_, v_ in upd.items() if v_ is not None})
                    d = struct_of(rhs, stt)
                    for f_ in FLD:
                        pend["%s.%s" % (lv(tl), f_)] = d[f_]
            if pend:
                upd["$pend"] = tuple(sorted(pend.items()))
            if x.get("k") == "ret" and x.get("e") is not None:
                e = strip_casts(cfg.resolve(x["e"]))
                stt = dict(store)
                stt.update({k_: v_ for k_, v_ in upd.items() if v_ is not None and k_ != "$pend"})
                if e.get("k") == "mem" and e.get("f") in FLD and strip_casts(e["b"]).get("k") in ("bin", "call"):
                    d = struct_of(e["b"], stt)
                    upd["$ret"] = d[e["f"]]
                    bb = strip_casts(cfg.resolve(e["b"]))
                    if bb.get("k") == "bin" and bb["op"] == "=":
                        for f_ in FLD:
                            upd["%s.%s" % (lv(bb["l"]), f_)] = d[f_]
                else:
                    v = eval_in(stt, e, g, ce)
                    if v is None:
                        raise _NoResult("__offs(%d): returned value `%s` unknown" % (t, show(e)[:40]))
                    upd["$ret"] = v
            # what is read through a pointer to the cache is the cache as the completed stores have left it
            for k_ in ptrs:
                for f_ in FLD:
                    key_ = "%s.%s" % (cpath, f_)
                    upd["%s->%s" % (k_, f_)] = upd[key_] if upd.get(key_) is not None else store.get(key_)
            return upd
        tracked = {l_["n"] for l_ in g.locals} | {p_["n"] for p_ in g.params[1:]} | {"%s.%s" % (cpath, f_) for f_ in FLD} | \
            {"%s->%s" % (k_, f_) for k_ in ptrs for f_ in FLD}
        for l_ in g.locals:
            if "zrng_s" in (l_.get("t") or ""):
                tracked |= {"%s.%s" % (l_["n"], f_) for f_ in FLD}
        w = AbsWalk(g, tracked, init=st, effect=effect, call_eval=ce, max_states=4000)
        w.run()
        outs = set()
        for s_ in w.exit_stores:
            s_ = dict(s_)
            s_.update(dict(s_.get("$pend", ())))
            outs.add((s_.get("$ret"), tuple(s_.get("%s.%s" % (cpath, f_)) for f_ in FLD)))
        if len(outs) != 1:
            raise _NoResult("__offs(%d) from cache %s with %d transitions: %s" % (t, cst, NT, "never returns" if not outs else "no single result"))
        ret, c2 = next(iter(outs))
        if ret is None or None in c2:
            raise _NoResult("__offs(%d) from cache %s: result or cache unknown" % (t, cst))
        return ret, c2
    return offs


def r07_9(prog, rep, rid="R07.9"):
    """The offset lookup (__offs -> __find_zrng -> __find_trno, with the per-zone range cache in between) touches time stamps only
    through comparisons and copies.  So it is decided over an *ordinal* model: a zone with NT transitions (NT = 0..6), the looked-up
    time on every position before, on and between the transitions (and on either side of 0, which an untouched cache makes special),
    starting from every cache state that any sequence of such lookups can reach.  Every lookup must return the offset of the last
    transition at or before the time (the first transition's for times before it, as the code documents) — whatever was looked up
    before — and must return at all."""
    f = prog.fn("__offs", "tzraw.c")
    total = 0
    for NT in (0, 1, 2, 3, 4, 5, 6):
        offs = _lookup_engine(prog, NT)
        T = [1000 * (k + 1) for k in range(NT)]
        pos = [-500, 0, 500]
        for k in range(NT):
            pos += [T[k], T[k] + 500]

        def oracle(t):
            ks = [k for k in range(NT) if T[k] <= t]
            return 100 + (ks[-1] if ks else 0)
        fresh = (0, 0, 0, 0)
        seen = {fresh: ()}
        work = [fresh]
        bad = None
        nlook = 0
        while work and bad is None:
            cst = work.pop(0)
            for t in pos:
                nlook += 1
                try:
                    got, c2 = offs(cst, t)
                except _NoResult as e:
                    bad = ("noresult", seen[cst] + (t,), str(e))
                    break
                if got != oracle(t):
                    bad = ("wrong", seen[cst] + (t,), "offset %d (that of transition #%d) instead of %d (transition #%d)" % (
                        got, got - 100, oracle(t), oracle(t) - 100))
                    break
                if c2 not in seen:
                    if len(seen) > 400:
                        raise AnalysisBroken("__offs: more than 400 cache states reachable in the ordinal model")
                    seen[c2] = seen[cst] + (t,)
                    work.append(c2)
        total += nlook
        key = "__offs/lookup-table(%d transitions)" % NT

        def where(t):
            if not NT:
                return "t=%d" % t
            if t < T[0]:
                return "before #0" + (" (t<0)" if t < 0 else "")
            k = max(k for k in range(NT) if T[k] <= t)
            return ("on #%d" % k) if t == T[k] else ("after #%d" % k)
        if bad:
            kind, seq, why = bad
            hist = ", then ".join(where(t) for t in seq[:-1]) or "an untouched cache"
            rep.fail(rid, key, f.loc(), "zone with %d transitions, lookups %s -> now a time %s: %s. %s" % (
                NT, hist, where(seq[-1]), why,
                "The lookup depends on what was looked up before it: events of one file are converted with another season's offset."
                if kind == "wrong" and len(seq) > 1 else ("The process hangs or the result is undefined." if kind == "noresult" else "")),
                {"transitions": NT, "sequence": list(seq), "kind": kind})
        else:
            rep.ok(rid, key, f.loc(), "%d reachable cache states x %d positions: every lookup returns the offset of the last transition at or before the time" % (
                len(seen), len(pos)))
    rep.ok(rid, "__offs/model", f.loc(), "%d lookups evaluated over the ordinal model" % total, nontrivial=False)



def r07_11(prog, rep, rid="R07.11"):
    """A UTC offset is a signed number of seconds, up to a day either way for what zone files may hold (and 14 h in practice): every
    variable, record field and return type it travels through from the zone data to the occurrence correction must be signed and at
    least 18 bits wide.  The carriers are found by following the value (plain copies, returns, struct members), not listed."""
    files = ("tzraw.c", "tzraw.h", "tzob.c", "tzob.h", "evical.c")
    NEED = 18
    src_fns = set()
    fields = {("ztrdtl_s", "offs")}
    locs = {}
    rets = {}

    def fld_of(n):
        n = strip_casts(n)
        if n.get("k") == "mem" and n.get("rec") and n.get("f"):
            return (n["rec"], n["f"])
        return None

    def is_src(f, x, depth=0):
        x = strip_casts(f.cfg.resolve(x)) if isinstance(x, dict) else x
        if not isinstance(x, dict) or depth > 6:
            return False
        k = x.get("k")
        if k == "call":
            return x.get("fn") in src_fns
        if k == "mem":
            if fld_of(x) in fields:
                return True
            return False
        if k == "ref":
            return (f.name, x.get("n")) in locs
        if k == "bin" and x["op"] == "=":
            return is_src(f, x["r"], depth + 1)
        if k == "cond":
            return is_src(f, x.get("T") or x["c"], depth + 1) or is_src(f, x["F"], depth + 1)
        return False
    # static functions nobody calls (the unused zif_spec/zif_trname conveniences) carry nothing anywhere
    fns = [f for fl in files for f in prog.fns_in(fl) if f.cfg and not (f.raw.get("static") and not prog.callers_of(f.name))]
    changed = True
    rounds = 0
    while changed and rounds < 8:
        changed = False
        rounds += 1
        for f in fns:
            for b, i, x, line in f.cfg.all_elems():
                if not isinstance(x, dict):
                    continue
                if x.get("k") == "ret" and x.get("e") is not None and is_src(f, x["e"]):
                    if f.name not in src_fns:
                        src_fns.add(f.name)
                        rets[f.name] = (f, line)
                        changed = True
                for l, kind, nn in writes(x):
                    rhs = nn.get("init") if kind == "decl" else (nn.get("r") if nn.get("k") == "bin" and nn["op"] == "=" else None)
                    if rhs is None or not is_src(f, rhs):
                        continue
                    tl = strip_casts(l)
                    fd = fld_of(tl)
                    if fd and fd not in fields:
                        fields.add(fd)
                        changed = True
                    elif tl.get("k") == "ref" and tl.get("dk") in ("local", "param") and (f.name, tl["n"]) not in locs:
                        locs[(f.name, tl["n"])] = (f, line)
                        changed = True
    n = 0

    def verdict(key, loc, what, width, signed):
        if signed and width is not None and width >= NEED:
            rep.ok(rid, key, loc, "%s: signed, %d bits" % (what, width))
        else:
            rep.fail(rid, key, loc, "%s carries a zone's UTC offset in seconds but is %s%s: offsets beyond +/-%s s (Sydney +11 h = 39600, Auckland, "
                     "Honolulu -10 h ...) wrap, the zone's times come out hours off" % (
                         what, "unsigned" if not signed else "signed", " and only %s bits wide" % width if width is not None else "",
                         (1 << (width - 1)) - 1 if width else "?"))
    for rec, fl in sorted(fields):
        r = None
        for (nm, file_), rr in prog.records.items():
            if nm == rec:
                r = rr
        if r is None:
            continue
        fd = [q for q in r["fields"] if q.get("n") == fl]
        if not fd:
            continue
        fd = fd[0]
        width = fd.get("bits") or (fd.get("size") or 0) * 8 or None
        signed = "unsigned" not in (fd.get("c") or "") and (fd.get("c") or "") not in ("_Bool", "char")
        n += 1
        verdict("%s.%s/offset-carrier" % (rec, fl), "src/%s:%s" % (r.get("file"), fd.get("line")), "field `%s` of struct %s" % (fl, rec), width, signed)
    for name in sorted(src_fns):
        f, line = rets[name]
        n += 1
        verdict("%s()/offset-carrier" % name, f.loc(), "the return type of %s() (%s)" % (name, (f.ret or {}).get("t")), (f.ret or {}).get("w"), bool((f.ret or {}).get("s")))
    for (fname, v), (f, line) in sorted(locs.items()):
        d = [l_ for l_ in f.locals if l_["n"] == v] + [p_ for p_ in f.params if p_["n"] == v]
        if not d:
            continue
        n += 1
        verdict("%s/%s/offset-carrier" % (fname, v), f.loc(line), "`%s %s` in %s()" % (d[0].get("t"), v, fname), d[0].get("w"), bool(d[0].get("s")))
    if n < 8:
        rep.broken_("rule=%s expected >=8 carriers of the zone offset between the zone data and the occurrence correction, found %d" % (rid, n))


def run(prog, rep, tier, snap):
    rep.rule("R07.1", "every zone handle that can be handed out reads back as its own slot", 2)
    rep.call(r07_1, prog, rep)
    rep.rule("R07.2", "handle and zone of one cache slot are written together", 6)
    rep.call(r07_2, prog, rep)
    rep.call(r07_2b, prog, rep)
    rep.rule("R07.3", "direction and sign pairing of the UTC <-> local conversions", 4)
    rep.call(r07_3, prog, rep)
    rep.rule("R07.4", "the epoch conversion is handed untagged instants", 3)
    rep.call(r07_4, prog, rep)
    rep.rule("R07.5", "stream set-up: rule streams keep the proto on the wall clock (zone read before detach); date lists: zone read, UTC conversion, proto offset", 5)
    rep.call(r07_5, prog, rep)
    rep.rule("R07.6", "all-day RDATEs are corrected by (proto offset - own offset)", 2)
    rep.call(r07_6, prog, rep)
    rep.rule("R07.12", "every occurrence of a rule is converted to UTC on its own, the next batch's start is not; the fillers see UNTIL on the wall clock", 3)
    rep.call(r07_12, prog, rep)
    rep.rule("R07.13", "the serialiser converts a stream's proto instant before it compares it with cached occurrences", 1)
    rep.call(r07_13, prog, rep)
    rep.rule("R07.7", "zone names are looked up along the probe sequence they were filed under", 2)
    rep.call(r07_7, prog, rep)
    rep.rule("R07.8", "the transition search is entered only with time stamps that lie in one of its cells", 2)
    rep.call(r07_8, prog, rep)
    rep.rule("R07.9", "the offset lookup is right for every order of time against transitions, from every reachable cache state", 7)
    rep.call(r07_9, prog, rep)
    from ..rules import state
    rep.rule("R07.10", "the value readers (TZID attachment) and the zone code carry no state from one value to the next", 2)
    rep.call(state.no_carried_state, prog, rep, "R07.10", "parse")
    rep.call(state.no_carried_state, prog, rep, "R07.10", "zone")
    rep.rule("R07.11", "every carrier of a zone offset is signed and wide enough", 8)
    rep.call(r07_11, prog, rep)
    rep.rule("R08.2", "epoch tables and constants of the zone code agree with the calendar (shared with C08)", 15)
    rep.call(c08.r08_2, prog, rep)
    rep.rule("R08.4", "March-based table implies a year carry for months < 3 (shared with C08)", 1)
    rep.call(c08.r08_4, prog, rep)
READY = True
