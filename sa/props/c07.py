"""C07 — TZID events occur at the stated local wall-clock time (narrow structural clauses only)."""
from ..facts import walk, strip, strip_casts, lv, show, writes, calls, int_value
from ..q import call_sites, site_before, const_eval, Site
from ..absw import AbsWalk, eval_in
from ..snapshot import AnalysisBroken
from . import c08

UNITS = None
EXPLANATION = (
    "R07.1 zone handles: the index the interning table hands out is packed into the bits of ECHS_DMASK by make_tzob() and unpacked by "
    "make_size(); for every slot bang_tzob() can fill, the handle (as it survives `& ECHS_DMASK` on the instant) is non-zero and "
    "retr_tzob() reads that very slot back (value-fixed walks over the whole slot domain; the packing expressions are evaluated, nothing "
    "of echse runs). R07.2 the most-frequently-used cache is two parallel arrays (handle, opened zone): every write to the key of slot I "
    "comes with a write to the zone of slot I in the same straight-line region, and vice versa. R07.3 direction pairing: "
    "echs_instant_utc() asks zif_utc_time(), echs_instant_loc() asks zif_local_time(), both for the epoch of the instant, and both add "
    "1000 * (answer - question) to it; zif_utc_time() answers t - offset, zif_local_time() t + offset. R07.4 the epoch conversion reads "
    "month and day of an instant whose zone tag has been detached. R07.5 stream set-up (rule streams and date lists alike): the zone is "
    "read off DTSTART before the UTC conversion strips it, the proto offset is then looked up for the UTC instant in that zone. R07.6 "
    "per-occurrence correction: an occurrence is shifted by (proto offset - its own offset), its own offset looked up for that "
    "occurrence. R07.7 the open-addressed zone name table is written (echs_tzob) and read (echs_zone) along the same "
    "probe sequence: subscript expressions, stepping and probe counts are compared with the locals named by their definitions. R08.2/R08.4 (shared with C08): the epoch tables of tzob.c agree with the calendar, Jan/Feb carry the year.")
NOT_DECIDED = ("the offset lookup in the zone data (__find_trno, __find_zrng, the range cache), the local->UTC fixed point, behaviour at "
               "and across transitions, all values: the behaviour itself ranges over zoneinfo data x instants and is not decided")
TRUSTED = ["clang 14 parser/CFG builder", "echse-facts extractor", "python rule engines in /verif/sa"]
LEVEL_TEXT = ("Static verdict on narrow necessary clauses of C07 only: the zone handle written onto an instant reads back as the same "
              "zone for every handle that can be handed out; the zone cache's parallel arrays are written together; direction and sign "
              "pairing of the UTC<->local conversions and of the per-occurrence offset correction; order of zone read / UTC conversion / "
              "offset lookup at stream set-up; epoch tables. The offset lookup in the zone data, the fixed-point iteration and every "
              "value at or across a transition are NOT decided.")
LEVEL_NOTE = "Trusted: clang 14 front end/CFG, extractor, rule engines. Most of C07 (zoneinfo data x instants) is out of this family's reach."
TECHNIQUE = ("static analysis: value-fixed abstract walks of the handle codec over its whole index domain, co-written parallel arrays "
             "(control-equivalent regions), sign/direction pairing by constant evaluation of the difference expressions, dominance order of set-up calls")


def _pure_call_eval(prog, fn, file, depth=0):
    """call_eval for eval_in: a call of a function of `file` that writes nothing but its own locals is evaluated by a value-fixed walk
    of its body over the arguments (temporaries, branches and nested calls included); all paths must agree on the result."""
    def call_eval(c, store):
        name = c.get("fn")
        if not name or depth > 4 or not prog.has_fn(name, file):
            return None
        g = prog.fn(name, file)
        if not g.cfg or len(c.get("a", [])) != len(g.params):
            return None
        lnames = {l_["n"] for l_ in g.locals} | {p_["n"] for p_ in g.params}
        for b, i, x, line in g.cfg.all_elems():
            if isinstance(x, dict):
                for l, kind, n in writes(x):
                    tl = strip_casts(l)
                    if not (tl.get("k") == "ref" and tl.get("dk") in ("local", "param") and tl.get("n") in lnames):
                        return None         # writes something that outlives the call: not a pure function of its arguments
        args = [eval_in(store, a, fn, call_eval) for a in c["a"]]
        if any(a is None for a in args):
            return None
        inner = _pure_call_eval(prog, g, file, depth + 1)
        rets = []

        def effect(b, i, x, st):
            if isinstance(x, dict) and x.get("k") == "ret" and x.get("e") is not None:
                rets.append(eval_in(st, g.cfg.resolve(x["e"]), g, inner))
            return None
        w = AbsWalk(g, lnames, init={p_["n"]: v for p_, v in zip(g.params, args)}, effect=effect, call_eval=inner, max_states=5000)
        w.run()
        if not rets or any(r is None for r in rets) or len(set(rets)) != 1:
            return None
        return rets[0]
    return call_eval


def r07_1(prog, rep, rid="R07.1"):
    """Every zone handle that can be handed out reads back as the slot it was handed out for."""
    enc = prog.fn("bang_tzob", "tzob.c")
    dec = prog.fn("retr_tzob", "tzob.c")
    mask = prog.macro_int("ECHS_DMASK", "tzob.h")
    if mask is None:
        raise AnalysisBroken("ECHS_DMASK not found")
    # the counter of the interning table: the global that the encoder steps
    ctr = None
    arr = None
    for b, i, x, line in enc.cfg.all_elems():
        if not isinstance(x, dict):
            continue
        for l, kind, n in writes(x):
            tl = strip_casts(l)
            if tl.get("k") == "idx" and strip_casts(tl["b"]).get("dk") == "global":
                arr = strip_casts(tl["b"])["n"]
            elif tl.get("k") == "ref" and tl.get("dk") == "global" and kind in ("incdec", "compound", "assign"):
                ctr = tl["n"]
    if ctr is None or arr is None:
        raise AnalysisBroken("bang_tzob: slot array / fill counter not found (%s, %s)" % (arr, ctr))

    def slot_of(x, store):
        for l, kind, n in writes(x):
            tl = strip_casts(l)
            if tl.get("k") == "idx" and strip_casts(tl["b"]).get("n") == arr:
                s = strip_casts(tl["i"])
                if s.get("k") == "un" and s["op"] in ("post++", "post--"):
                    return store.get(lv(s["e"]))          # effect runs in the pre-state
                if s.get("k") == "un" and s["op"] in ("pre++", "pre--"):
                    v = store.get(lv(s["e"]))
                    return None if v is None else v + (1 if "++" in s["op"] else -1)
                return eval_in(store, s, enc, None)
        return None
    ce_enc = _pure_call_eval(prog, enc, "tzob.c")
    ce_dec = _pure_call_eval(prog, dec, "tzob.c")
    zpar = dec.params[0]["n"]
    lost, zero, wrong, fine = [], [], [], []
    for pre in range(0, 200):
        def effect(b, i, x, store):
            upd = {}
            if isinstance(x, dict):
                s = slot_of(x, store)
                if s is not None:
                    upd["$slot"] = s
                if x.get("k") == "ret" and x.get("e") is not None:
                    upd["$ret"] = eval_in(store, enc.cfg.resolve(x["e"]), enc, ce_enc)
                    if upd["$ret"] is None:
                        upd["$ret"] = -1
            return upd
        w = AbsWalk(enc, {ctr}, init={ctr: pre}, effect=effect, call_eval=ce_enc)
        w.run()
        for st in w.exit_stores:
            if st.get("$slot") is None:
                continue        # refused: nothing stored
            slot, h = st["$slot"], st.get("$ret")
            if h is None or h < 0:
                raise AnalysisBroken("bang_tzob: handle for slot %d could not be evaluated" % slot)
            h &= mask
            if h == 0:
                zero.append(slot)       # what survives on the instant is `no zone`: the same as a refusal (the event is taken for UTC)
                continue

            def deffect(b, i, x, store):
                if isinstance(x, dict) and x.get("k") == "ret" and x.get("e") is not None:
                    e = strip_casts(dec.cfg.resolve(x["e"]))
                    if e.get("k") == "idx" and strip_casts(e["b"]).get("n") == arr:
                        v = eval_in(store, e["i"], dec, ce_dec)
                        return {"$read": -2 if v is None else v}
                    return {"$read": -1}
                return None
            tracked = {zpar} | {l_["n"] for l_ in dec.locals}
            wd = AbsWalk(dec, tracked, init={zpar: h}, effect=deffect, call_eval=ce_dec)
            wd.run()
            reads = {s_.get("$read") for s_ in wd.exit_stores}
            if reads == {slot}:
                fine.append(slot)
            elif reads == {-1}:
                lost.append((slot, h))
            else:
                wrong.append((slot, h, sorted(reads, key=str)))
    nslots = len(fine) + len(lost) + len(wrong)
    if nslots < 8:
        raise AnalysisBroken("bang_tzob: only %d slots can be filled — walk broken" % nslots)
    key = "bang_tzob/handle-reads-back-its-slot"
    if lost or wrong:
        ex = (["slot %d -> handle 0x%x -> refused" % p for p in lost[:3]] + ["slot %d -> handle 0x%x -> slot %s" % (s, h, r) for s, h, r in wrong[:3]])
        rep.fail(rid, key, enc.loc(), "of the %d slots bang_tzob() can fill, %d get a handle that retr_tzob() does not read back as that slot (%s%s): the packing "
                 "in make_tzob() and the unpacking in make_size() disagree — the TZID of such an event names another zone or none (UTC), its "
                 "occurrences happen at the wrong time and it is written back without its TZID" % (
                     nslots, len(lost) + len(wrong), "; ".join(ex), " ..." if len(lost) + len(wrong) > len(ex) else ""),
                 {"slots": nslots, "lost": lost[:70], "wrong": wrong[:70]})
    else:
        rep.ok(rid, key, enc.loc(), "%d slots: each handle, masked with ECHS_DMASK, is unpacked to its own slot" % len(fine))
    rep.ok(rid, "bang_tzob/slots-beyond-the-handle-bits", enc.loc(), "%d slot(s) get the handle 0 = `no zone`, which is what a full table answers as well (such events "
           "are taken for UTC, by design: `more than 64 timezones? we're not THAT international`)" % len(zero), nontrivial=False)


def _mfu_arrays(prog):
    f = prog.fn("__tzob_zif", "tzob.c")
    zpars = [p["n"] for p in f.params if "tzob" in (p.get("t") or "")]
    if not zpars:
        raise AnalysisBroken("__tzob_zif: handle parameter not found")
    K = V = fld = None
    for b, i, x, line in f.cfg.all_elems():
        if not isinstance(x, dict):
            continue
        for n in walk(f.cfg.resolve(x)):
            if n.get("k") == "bin" and n["op"] == "==":
                for a, o in ((n["l"], n["r"]), (n["r"], n["l"])):
                    a, o = strip_casts(a), strip_casts(o)
                    if a.get("k") == "mem" and o.get("k") == "ref" and o.get("n") in zpars:
                        base = strip_casts(a["b"])
                        if base.get("k") == "idx" and strip_casts(base["b"]).get("dk") == "global":
                            K, fld = strip_casts(base["b"])["n"], a["f"]
            if n.get("k") == "idx":
                bb = strip_casts(n["b"])
                if bb.get("dk") == "global" and (bb.get("t") or "").startswith((f.ret or {}).get("t", "zif_t")):
                    V = bb["n"]
    if K is None or V is None:
        raise AnalysisBroken("__tzob_zif: key array / zone array of the cache not found (%s, %s)" % (K, V))
    return f, K, fld, V


def r07_2(prog, rep, rid="R07.2"):
    """The zone cache is two parallel arrays: slot I's handle and slot I's opened zone are written together."""
    f0, K, fld, V = _mfu_arrays(prog)
    n = 0
    for f in prog.fns_in("tzob.c"):
        if not f.cfg or f.file != "tzob.c":
            continue
        cfg = f.cfg
        ws = []     # (array, index text, block, line)
        for b, i, x, line in cfg.all_elems():
            if not isinstance(x, dict):
                continue
            for l, kind, nn in writes(x):
                if kind == "decl":
                    continue
                tl = strip_casts(l)
                if tl.get("k") == "mem" and tl.get("f") == fld:
                    tl = strip_casts(tl["b"])
                elif tl.get("k") == "mem":
                    continue            # another field of the key record (the use counter)
                if tl.get("k") == "idx" and strip_casts(tl["b"]).get("n") in (K, V) and strip_casts(tl["b"]).get("dk") == "global":
                    ws.append((strip_casts(tl["b"])["n"], show(strip_casts(tl["i"])), b, line))
            for c in calls(x):
                if c.get("fn") in ("memset", "memcpy", "memmove") and c.get("a"):
                    a0 = strip_casts(c["a"][0])
                    if a0.get("k") == "ref" and a0.get("n") in (K, V):
                        ws.append((a0["n"], "*", b, line))
        if not ws:
            continue
        pd = cfg.pdom()

        def equiv(b1, b2):
            if b1 == b2:
                return True
            return (cfg.dominates(b1, b2) and b2 in pd.get(b1, ())) or (cfg.dominates(b2, b1) and b1 in pd.get(b2, ()))
        for a, ix, b, line in ws:
            other = V if a == K else K
            n += 1
            key = "%s/%s[%s]-written-with-%s" % (f.name, a, ix, other)
            if any(a2 == other and ix2 == ix and equiv(b, b2) for a2, ix2, b2, l2 in ws):
                rep.ok(rid, key, f.loc(line), "%s[%s] and %s[%s] are written in one straight-line region" % (a, ix, other, ix))
            else:
                rep.fail(rid, key, f.loc(line), "%s[%s] is written without %s[%s] being written along with it: slot %s of the zone cache then pairs one zone's "
                         "handle with another zone's data — every conversion for that handle uses the wrong zone's offsets" % (a, ix, other, ix, ix))
    if n < 6:
        rep.broken_("rule=%s expected >=6 writes to the parallel arrays of the zone cache, found %d" % (rid, n))


def r07_3(prog, rep, rid="R07.3"):
    """Direction and sign pairing of the conversions."""
    Q, A, OFF = 100, 107, 7
    n = 0
    for name, want in (("echs_instant_utc", "zif_utc_time"), ("echs_instant_loc", "zif_local_time")):
        f = prog.fn(name, "tzob.c")
        cfg = f.cfg
        asked = []

        def call_eval(c, store):
            if c.get("fn") == "__inst_to_epoch":
                return Q
            if c.get("fn") in ("zif_utc_time", "zif_local_time"):
                a = eval_in(store, c["a"][1], f, call_eval) if len(c.get("a", [])) > 1 else None
                asked.append((c["fn"], a))
                return A
            return None
        dnames = set()
        for b, i, x, line in cfg.all_elems():
            if isinstance(x, dict) and x.get("k") == "decl":
                for d in x["ds"]:
                    if "idiff" in (d.get("t") or "") and d.get("init") is not None:
                        dnames.add((d["n"], line))
        tracked = {l_["n"] for l_ in f.locals} | {dn + ".d" for dn, _ in dnames}
        w = AbsWalk(f, tracked, call_eval=call_eval)
        w.run()
        vals = []
        for dn, line in sorted(dnames):
            for st in w.exit_stores:
                if dn + ".d" in st:
                    vals.append((line, st[dn + ".d"]))
            if not any(dn + ".d" in st for st in w.exit_stores):
                vals.append((line, None))
        n += 1
        key = "%s/adds-answer-minus-question" % name
        if not vals:
            raise AnalysisBroken("%s: the difference handed to echs_instant_add not found" % name)
        bad = [(l, v) for l, v in vals if v != 1000 * (A - Q)]
        fns = {a[0] for a in asked}
        args = {a[1] for a in asked}
        if bad:
            rep.fail(rid, key, f.loc(bad[0][0]), "with the epoch of the instant = %d and the zone library's answer = %d the instant is moved by %s ms instead of %d: "
                     "the difference is taken the wrong way round (or in the wrong unit) and every zoned time moves away from UTC twice the offset" % (
                         Q, A, bad[0][1], 1000 * (A - Q)))
        elif fns != {want}:
            rep.fail(rid, key, f.loc(), "%s() asks %s instead of %s: local times are converted in the wrong direction" % (name, sorted(fns), want))
        elif args != {Q}:
            rep.fail(rid, key, f.loc(), "%s() does not ask the zone library about the epoch of the instant it converts (%s)" % (name, sorted(args, key=str)))
        else:
            rep.ok(rid, key, f.loc(), "asks %s about the instant's epoch and adds 1000 * (answer - question)" % want)
    for name, want in (("zif_utc_time", Q - OFF), ("zif_local_time", Q + OFF)):
        f = prog.fn(name, "tzraw.c")
        cfg = f.cfg

        def call_eval2(c, store):
            if c.get("fn") == "__offs":
                return OFF
            return None
        tpar = f.params[1]["n"]
        outs = []

        def effect(b, i, x, store, f=f, cfg=cfg):
            if isinstance(x, dict) and x.get("k") == "ret" and x.get("e") is not None:
                outs.append((f.cfg.blocks[b].elems[i].get("line"), eval_in(store, cfg.resolve(x["e"]), f, call_eval2)))
            return None
        w = AbsWalk(f, {l_["n"] for l_ in f.locals} | {tpar}, init={tpar: Q}, effect=effect, call_eval=call_eval2, max_states=2000)
        w.run()
        n += 1
        key = "%s/offset-sign" % name
        conv = [(l, v) for l, v in outs if v != Q]
        if not conv:
            raise AnalysisBroken("%s: no return that applies the offset found (%s)" % (name, outs))
        bad = [(l, v) for l, v in conv if v != want]
        if bad:
            rep.fail(rid, key, f.loc(bad[0][0]), "for t = %d and an offset of %d the function returns %s instead of %d: the offset is applied with the wrong sign" % (Q, OFF, bad[0][1], want))
        else:
            rep.ok(rid, key, f.loc(), "returns t %s offset" % ("-" if want < Q else "+"))
    if n < 4:
        rep.broken_("rule=%s expected 4 instances, found %d" % (rid, n))


def r07_4(prog, rep, rid="R07.4"):
    """__inst_to_epoch() reads i.m and i.d as numbers: every instant handed to it has had its zone tag detached on the way."""
    n = 0
    for f in prog.fns_in("tzob.c"):
        if not f.cfg or f.file != "tzob.c" or not any("tzob" in (p_.get("t") or "") for p_ in f.params):
            continue        # the zone-aware conversions; the plain epoch API takes untagged instants by contract
        cfg = f.cfg
        for s in call_sites(f, "__inst_to_epoch"):
            a = strip_casts(cfg.resolve(s.node["a"][0]))
            n += 1
            key = "%s/epoch-of-untagged-instant@%s" % (f.name, a.get("n") if a.get("k") == "ref" else "expr")
            if a.get("k") == "call" and a.get("fn") == "echs_instant_detach_tzob":
                rep.ok(rid, key, f.loc(s.line), "the argument is detached in place")
                continue
            if a.get("k") != "ref":
                rep.fail(rid, key, f.loc(s.line), "the instant handed to __inst_to_epoch() is not visibly untagged (%s)" % show(a)[:40])
                continue
            v = a["n"]
            defs = []
            for b, i, x, line in cfg.all_elems():
                if isinstance(x, dict):
                    for l, kind, nn in writes(x):
                        if lv(l) == v or lv(l).startswith(v + "."):
                            rhs = nn.get("init") if kind == "decl" else (nn.get("r") if nn.get("k") == "bin" and nn["op"] == "=" else None)
                            r_ = strip_casts(cfg.resolve(rhs)) if rhs is not None else {}
                            det = lv(l) == v and r_.get("k") == "call" and r_.get("fn") == "echs_instant_detach_tzob"
                            defs.append((Site(b, i, None, line), det))
            dets = [d for d, isdet in defs if isdet and site_before(cfg, d, s)]
            # a write that is not the detachment and can lie between the detachment and the call
            spoil = [d for d, isdet in defs if not isdet and any(site_before(cfg, dd, d) or dd.b == d.b for dd in dets)
                     and (d.b == s.b and d.i < s.i or d.b != s.b and s.b in cfg.reach_from(d.b))]
            if dets and not spoil:
                rep.ok(rid, key, f.loc(s.line), "%s = echs_instant_detach_tzob(...) dominates the call, nothing re-tags it in between" % v)
            else:
                rep.fail(rid, key, f.loc(s.line), "%s is handed to __inst_to_epoch() without having passed echs_instant_detach_tzob() on every path: the zone tag in the "
                         "top bits of month and day is converted as part of the date (month > 12 takes the `0 days` branch, the day is 64..192 too large)" % v)
    if n < 3:
        rep.broken_("rule=%s expected >=3 calls of __inst_to_epoch in tzob.c, found %d" % (rid, n))


def r07_5(prog, rep, rid="R07.5"):
    """Stream set-up: zone read -> UTC conversion -> proto offset looked up for the UTC instant in that zone."""
    n = 0
    for name in ("__make_evrrul", "__make_evrdat"):
        f = prog.fn(name, "evical.c")
        cfg = f.cfg
        zr = call_sites(f, "echs_instant_tzob")
        ut = call_sites(f, ("echs_event_to_utc", "echs_instant_to_utc", "echs_instant_utc"))
        of = call_sites(f, ("echs_instant_tzof", "echs_tzob_offs"))
        if not (zr and ut and of):
            raise AnalysisBroken("%s: zone read / UTC conversion / offset lookup not found (%d, %d, %d)" % (name, len(zr), len(ut), len(of)))
        n += 1
        key = "%s/zone-read-before-utc" % name
        if all(any(site_before(cfg, z, u) for z in zr) for u in ut):
            rep.ok(rid, key, f.loc(zr[0].line), "the zone is read off the instant before the UTC conversion detaches it")
        else:
            rep.fail(rid, key, f.loc(ut[0].line), "the UTC conversion is not preceded by the read of the zone: echs_instant_utc() detaches the tag, a zone read "
                     "afterwards is 0 and every occurrence of the stream is treated as UTC")
        n += 1
        key = "%s/proto-offset-of-utc-instant" % name
        if all(any(site_before(cfg, u, o) for u in ut) for o in of):
            rep.ok(rid, key, f.loc(of[0].line), "the proto offset is looked up after the conversion (echs_tzob_offs() expects UTC)")
        else:
            rep.fail(rid, key, f.loc(of[0].line), "the proto offset is looked up for the local wall-clock time, not for the UTC instant: within an offset's width "
                     "of a transition the wrong side is found and the whole stream is off by the DST difference")
        # the zone handed to the lookup is the one that was read
        zvars = set()
        for b, i, x, line in cfg.all_elems():
            if isinstance(x, dict):
                for l, kind, nn in writes(x):
                    rhs = nn.get("init") if kind == "decl" else (nn.get("r") if nn.get("k") == "bin" and nn["op"] == "=" else None)
                    if rhs is not None and any(q.get("k") == "call" and q.get("fn") == "echs_instant_tzob" for q in walk(cfg.resolve(rhs))):
                        zvars.add(lv(l))
        n += 1
        key = "%s/offset-in-the-zone-read" % name
        bad = [o for o in of if lv(strip_casts(cfg.resolve(o.node["a"][0 if o.node["fn"] == "echs_tzob_offs" else 1]))) not in zvars]
        if bad:
            rep.fail(rid, key, f.loc(bad[0].line), "the offset is looked up in `%s`, which is not the zone read off DTSTART (%s)" % (
                show(bad[0].node["a"][1])[:30], sorted(zvars)))
        else:
            rep.ok(rid, key, f.loc(of[0].line), "looked up in the zone read off DTSTART (%s)" % ", ".join(sorted(zvars)))
    if n < 6:
        rep.broken_("rule=%s expected 6 instances, found %d" % (rid, n))


def r07_6(prog, rep, rid="R07.6"):
    """An occurrence generated on the UTC time line of the proto instant keeps its wall-clock time when it is moved by
    (proto offset - own offset)."""
    sh = prog.fn("echs_tzob_shift", "evical.c")
    names = [p["n"] for p in sh.params]
    if len(names) != 3:
        raise AnalysisBroken("echs_tzob_shift: expected (instant, from, to)")

    def shift_ms(a, b):
        for bb, i, x, line in sh.cfg.all_elems():
            if isinstance(x, dict) and x.get("k") == "decl":
                for d in x["ds"]:
                    ini = strip_casts(sh.cfg.resolve(d["init"])) if d.get("init") is not None else {}
                    if ini.get("k") == "init":
                        for fname, val in ini["fs"]:
                            if fname == "d" and val is not None:
                                return eval_in({names[1]: a, names[2]: b}, sh.cfg.resolve(val), sh, None)
        return None
    c1, c2 = shift_ms(1, 0), shift_ms(0, 1)
    if c1 is None or c2 is None:
        raise AnalysisBroken("echs_tzob_shift: the difference could not be evaluated")
    n = 0
    for name in ("refill", "instant_soup"):
        f = prog.fn(name, "evical.c")
        cfg = f.cfg
        own = {}
        for b, i, x, line in cfg.all_elems():
            if isinstance(x, dict):
                for l, kind, nn in writes(x):
                    rhs = nn.get("init") if kind == "decl" else (nn.get("r") if nn.get("k") == "bin" and nn["op"] == "=" else None)
                    if rhs is None:
                        continue
                    for q in walk(cfg.resolve(rhs)):
                        if q.get("k") == "call" and q.get("fn") in ("echs_instant_tzof", "echs_tzob_offs"):
                            own[lv(l)] = q
        for s in call_sites(f, "echs_tzob_shift"):
            a1, a2 = (lv(strip_casts(cfg.resolve(s.node["a"][k]))) for k in (1, 2))
            n += 1
            key = "%s/shift-by-proto-minus-own" % name
            if (a1 in own) == (a2 in own):
                rep.fail(rid, key, f.loc(s.line), "echs_tzob_shift(%s, %s): exactly one of the offsets must be the one looked up for the occurrence itself "
                         "(looked up here: %s)" % (a1, a2, sorted(own)))
                continue
            coef_own = c1 if a1 in own else c2
            coef_proto = c2 if a1 in own else c1
            if coef_own == -1000 and coef_proto == 1000:
                rep.ok(rid, key, f.loc(s.line), "moves the occurrence by 1000 * (proto offset - own offset)")
            else:
                rep.fail(rid, key, f.loc(s.line), "the occurrence is moved by %d * own offset %+d * proto offset (ms per second): it must be -1000 * own + 1000 * proto "
                         "— with the sign the other way round an occurrence across a DST change is off by twice the change" % (coef_own, coef_proto))
            # the own offset is looked up for the occurrence that is shifted
            o = own[a1 if a1 in own else a2]
            inst = strip_casts(cfg.resolve(o["a"][1 if o["fn"] == "echs_tzob_offs" else 0]))
            shifted = strip_casts(cfg.resolve(s.node["a"][0]))
            n += 1
            key = "%s/own-offset-of-the-shifted-occurrence" % name
            same = show(f.expand(inst)) == show(f.expand(shifted))
            if not same:
                # instant_soup: the shifted instant is the detached copy of the one looked up
                se = strip_casts(f.expand(shifted))
                srcs = {lv(q) for q in walk(se) if q.get("k") in ("ref", "idx", "mem")}
                for b, i, x, line in cfg.all_elems():
                    if isinstance(x, dict):
                        for l, kind, nn in writes(x):
                            if lv(l) == lv(shifted) and nn.get("k") == "bin" and nn["op"] == "=":
                                srcs |= {lv(q) for q in walk(cfg.resolve(nn["r"])) if q.get("k") in ("ref", "idx", "mem")}
                same = lv(inst) in srcs
            if same:
                rep.ok(rid, key, f.loc(s.line), "the offset is the one of the shifted occurrence (%s)" % show(inst)[:40])
            else:
                rep.fail(rid, key, f.loc(s.line), "the offset `%s` is looked up for %s but %s is shifted: one occurrence's offset corrects another" % (
                    a1 if a1 in own else a2, show(inst)[:40], show(shifted)[:40]))
    if n < 4:
        rep.broken_("rule=%s expected 4 instances in refill and instant_soup, found %d" % (rid, n))


def _probe_signature(f, table):
    """What a function does to find a hash in the open-addressed table: the subscript expressions it probes and how the variables in
    them are stepped, with the locals named by their role (the set of their definitions) instead of by their names."""
    import copy
    cfg = f.cfg
    # the hash: what the table's entries are compared with
    H = None
    offs = []
    for b, i, x, line in cfg.all_elems():
        if not isinstance(x, dict):
            continue
        for n in walk(cfg.resolve(x)):
            if n.get("k") == "bin" and n["op"] == "==":
                for a, o in ((n["l"], n["r"]), (n["r"], n["l"])):
                    a, o = strip_casts(a), strip_casts(o)
                    if a.get("k") == "mem" and strip_casts(a["b"]).get("k") == "idx" and strip_casts(strip_casts(a["b"])["b"]).get("n") == table \
                            and o.get("k") == "ref" and o.get("dk") in ("local", "param"):
                        H = o["n"]
                        offs.append((strip_casts(strip_casts(a["b"])["i"]), line))
    if H is None or not offs:
        raise AnalysisBroken("%s: no probe of %s[...] against a hash found" % (f.name, table))
    defs = {}
    for b, i, x, line in cfg.all_elems():
        if not isinstance(x, dict):
            continue
        for l, kind, n in writes(x):
            tl = strip_casts(l)
            if tl.get("k") != "ref" or tl.get("dk") != "local":
                continue
            if kind == "decl":
                if n.get("init") is None:
                    continue
                defs.setdefault(tl["n"], []).append(("=", n["init"]))
            elif kind == "incdec":
                defs.setdefault(tl["n"], []).append((n["op"].replace("post", "").replace("pre", ""), None))
            else:
                defs.setdefault(tl["n"], []).append((n["op"], n["r"]))
    roles = {H: "HASH"}

    def canon(x, depth=0):
        x = strip_casts(cfg.resolve(x)) if isinstance(x, dict) else x
        if not isinstance(x, dict):
            return str(x)
        v = int_value(x)
        if v is not None:
            return str(v)
        k = x.get("k")
        if k == "ref":
            if x.get("dk") in ("local", "param"):
                return role(x["n"], depth + 1)
            return x["n"]
        if k == "bin" and x["op"] == "=":
            return canon(x["l"], depth)         # the value of an assignment is what was assigned to
        if k == "bin":
            a, b_ = canon(x["l"], depth), canon(x["r"], depth)
            if x["op"] in ("&", "|", "^", "+", "*") and b_ < a:
                a, b_ = b_, a
            return "(%s %s %s)" % (a, x["op"], b_)
        if k == "un":
            return "(%s %s)" % (x["op"], canon(x["e"], depth))
        if k == "call":
            return "CALL"
        return show(x)

    def role(v, depth=0):
        if v in roles:
            return roles[v]
        if depth > 6 or v not in defs:
            return "?"
        roles[v] = "..."         # cycle guard
        sig = sorted({"%s%s" % (op, "" if rhs is None else canon(rhs, depth)) for op, rhs in defs[v]})
        roles[v] = "{" + ",".join(sig) + "}"
        return roles[v]
    probes = []
    for e, line in offs:
        e = strip_casts(e)
        if e.get("k") == "ref" and e.get("dk") == "local" and e["n"] in defs and len(defs[e["n"]]) >= 1:
            probes.append(sorted(canon(r) for op, r in defs[e["n"]] if r is not None))
        else:
            probes.append([canon(e)])
    bounds = set()
    for b in cfg.blocks:
        c = cfg.cond(b)
        if c is None:
            continue
        c = strip_casts(strip(c))
        if c.get("k") == "bin" and c["op"] in ("<", "<=", ">", ">=") and int_value(c["r"]) is not None:
            l = strip_casts(c["l"])
            if l.get("k") == "ref" and l.get("dk") == "local" and l["n"] in defs:
                bounds.add("%s %s %d" % (role(l["n"]), c["op"], int_value(c["r"])))
    return sorted(set(tuple(p) for p in probes)), sorted(bounds), H


def r07_7(prog, rep, rid="R07.7"):
    """The zone name table is open-addressed: echs_tzob() files a name under the first free slot of a probe sequence derived from its
    hash, echs_zone() (which __tzob_zif() asks for the file name to open, and the serialiser for the TZID to print) walks a probe
    sequence for the hash stored under the handle.  The two walks must be the same walk: same subscript expressions, same stepping of
    the variables in them, same number of probes per level."""
    w = prog.fn("echs_tzob", "tzob.c")
    r = prog.fn("echs_zone", "tzob.c")
    table = None
    for b, i, x, line in w.cfg.all_elems():
        if isinstance(x, dict):
            for l, kind, n in writes(x):
                tl = strip_casts(l)
                if tl.get("k") == "mem" and strip_casts(tl["b"]).get("k") == "idx" and strip_casts(strip_casts(tl["b"])["b"]).get("dk") == "global":
                    table = strip_casts(strip_casts(tl["b"])["b"])["n"]
    if table is None:
        raise AnalysisBroken("echs_tzob: the name table it files into was not found")
    pw, bw, hw = _probe_signature(w, table)
    pr, br, hr = _probe_signature(r, table)
    key = "echs_tzob~echs_zone/same-probe-sequence"
    if pw != pr:
        only_w = [p for p in pw if p not in pr]
        only_r = [p for p in pr if p not in pw]
        rep.fail(rid, key, r.loc(), "echs_tzob() files names under %s, echs_zone() looks for them under %s (locals named by their definitions): "
                 "a name filed by the one is not found by the other — the zone cannot be opened (the event is taken for UTC) and its TZID is "
                 "not written back" % (only_w or pw, only_r or pr), {"writer": pw, "reader": pr})
    else:
        rep.ok(rid, key, r.loc(), "%d probe expressions, stepped alike in both functions" % len(pw))
    key = "echs_tzob~echs_zone/same-probe-count"
    if bw != br:
        rep.fail(rid, key, r.loc(), "probe loops are bounded by %s in echs_tzob() but by %s in echs_zone(): names filed by the later probes of the "
                 "longer walk are never found by the shorter one" % (bw, br))
    else:
        rep.ok(rid, key, r.loc(), "probe loops bounded alike (%s)" % "; ".join(bw))


def run(prog, rep, tier, snap):
    rep.rule("R07.1", "every zone handle that can be handed out reads back as its own slot", 2)
    rep.call(r07_1, prog, rep)
    rep.rule("R07.2", "handle and zone of one cache slot are written together", 6)
    rep.call(r07_2, prog, rep)
    rep.rule("R07.3", "direction and sign pairing of the UTC <-> local conversions", 4)
    rep.call(r07_3, prog, rep)
    rep.rule("R07.4", "the epoch conversion is handed untagged instants", 3)
    rep.call(r07_4, prog, rep)
    rep.rule("R07.5", "stream set-up: zone read, then UTC conversion, then proto offset in that zone", 6)
    rep.call(r07_5, prog, rep)
    rep.rule("R07.6", "occurrences are corrected by (proto offset - own offset)", 4)
    rep.call(r07_6, prog, rep)
    rep.rule("R07.7", "zone names are looked up along the probe sequence they were filed under", 2)
    rep.call(r07_7, prog, rep)
    rep.rule("R08.2", "epoch tables and constants of the zone code agree with the calendar (shared with C08)", 15)
    rep.call(c08.r08_2, prog, rep)
    rep.rule("R08.4", "March-based table implies a year carry for months < 3 (shared with C08)", 1)
    rep.call(c08.r08_4, prog, rep)
READY = True
