"""C09 — every rule terminates and stays in bounds (DESIGN section 3, C09)."""
from ..rules import fillers

UNITS = None
EXPLANATION = (
    "Static rules over the resolved program (clang CFGs + expression trees of /repo's current source). "
    "Decides necessary structural clauses of C09: R09.1 every store through the occurrence-cache pointer of the "
    "seven fillers is guarded by index<capacity on all paths (forward must-facts). "
    "R09.2 every caller hands the fillers an array with room for nti results plus the GRP_CCH_OFF group stamps. R09.3 no natural loop of "
    "the expansion, iterator and line-chopping code has a fruitless cycle (a cycle on which nothing an exit test reads is modified) "
    "unless it burns fuel. R09.4 the time-of-day enumeration arrays hold as many values as the parser admits. R09.5 a division by a "
    "month length that can be 0 (out-of-table Hijri month) is guarded. R09.6 (thorough) shift amounts of the fillers' masks stay below "
    "the word width."
)
NOT_DECIDED = "use-after-free across stream lifetimes; a numeric bound on the work per call; the behaviour itself"
TRUSTED = ["clang 14 parser/CFG builder", "echse-facts extractor", "python rule engines in /verif/sa"]


def run(prog, rep, tier, snap):
    rep.rule("R09.1", "bounded occurrence-cache writes in the fillers (must-fact index < capacity at every store)", 10)
    n = rep.call(fillers.r09_1, prog, rep)
    if n != 7:
        rep.broken_("rule=R09.1 expected 7 fillers, found %d" % n)
    rep.rule("R09.2", "callers of the fillers provide room for nti results plus the group stamps", 9)
    rep.call(fillers.r09_2, prog, rep)
    rep.rule("R09.3", "no fruitless cycle without fuel in the expansion, iterator and line-chopping loops", 60)
    rep.call(fillers.r09_3, prog, rep)
    rep.rule("R09.4", "time-of-day enumeration capacity vs. values admitted by the parser", 3)
    rep.call(fillers.r09_4, prog, rep)
    rep.call(fillers.r09_4b, prog, rep)
    rep.rule("R09.9", "the all-weekdays default ignores the `counted weekdays` flag bit", 3)
    rep.call(fillers.r09_9, prog, rep)
    rep.rule("R09.10", "the INTERVAL/BYMONTH congruence check looks at the month the fuel-less walk starts from", 1)
    rep.call(fillers.r09_10, prog, rep)
    from ..rules import bitint as _bitint
    rep.rule("R19.12", "the cursor the congruence check reads the month off is member + 1 in both representations (shared with C19)", 2)
    rep.call(_bitint.r19_12, prog, rep)
    rep.rule("R09.5", "divisions by a month length that can be 0 are guarded", 3)
    rep.call(fillers.r09_5, prog, rep)
    rep.rule("R09.7", "an offset day-of-year is bounded above before the remainder-table lookup", 1)
    rep.call(fillers.r09_7, prog, rep)
    rep.rule("R01.7", "range tests against 0 keep the sign (an out-of-range BYMONTHDAY is skipped, not wrapped; shared with C01)", 2)
    rep.call(fillers.r01_7, prog, rep)
    from ..rules import encodings
    rep.rule("R09.8", "only a positive INTERVAL reaches the fillers' unsigned step", 2)
    rep.call(encodings.r09_8, prog, rep)
    from . import c15
    rep.rule("R15.4", "month-transition table accesses stay inside the table (shared with C15)", 5)
    rep.call(c15.r15_4, prog, rep)
    if tier == "thorough":
        rep.rule("R09.6", "shift amounts of the fillers' masks stay below the word width", 8)
        rep.call(fillers.r09_6, prog, rep)

LEVEL_TEXT = ("Static verdict on necessary structural clauses of C09, for all inputs at once: every store through the occurrence-cache "
              "pointer in the seven fillers is dominated by index<capacity on all CFG paths (must-facts dataflow), callers honour the "
              "capacity contract, no subtractive loop has a fruitless cycle without fuel, enumeration capacities cover the parser's "
              "admitted values, no division by a may-be-zero month length. It decides those clauses, not termination or memory safety as a whole. Also: only a positive INTERVAL reaches the fillers' unsigned step.")
LEVEL_NOTE = ("Trusted: clang 14 front end and CFG builder, the echse-facts extractor, the python rule engines. Assumes the snapshot's "
              "configure-time config.h; use-after-free and numeric work bounds are not decided.")
TECHNIQUE = "static analysis: forward must-facts dataflow and loop analysis over clang CFGs, table/extent agreement; value-fixed walk of the INTERVAL reader"
READY = True

# texts brought up to date with the rules added in the last rounds
LEVEL_TEXT = LEVEL_TEXT + ' Also: the cursor the INTERVAL/BYMONTH congruence check reads the month off is member + 1 in both representations of the iterator; stepped-back counters are signed; INTERVAL=0 does not reach the fillers.'

