"""C09 — every rule terminates and stays in bounds (DESIGN section 3, C09)."""
from ..rules import fillers

UNITS = None
EXPLANATION = (
    "Static rules over the resolved program (clang CFGs + expression trees of /repo's current source). "
    "Decides necessary structural clauses of C09: R09.1 every store through the occurrence-cache pointer of the "
    "seven fillers is guarded by index<capacity on all paths (forward must-facts)."
)
NOT_DECIDED = "use-after-free across stream lifetimes; a numeric bound on the work per call; the behaviour itself"
TRUSTED = ["clang 14 parser/CFG builder", "echse-facts extractor", "python rule engines in /verif/sa"]


def run(prog, rep, tier, snap):
    rep.rule("R09.1", "bounded occurrence-cache writes in the fillers (must-fact index < capacity at every store)", 10)
    n = fillers.r09_1(prog, rep)
    if n != 7:
        rep.broken_("rule=R09.1 expected 7 fillers, found %d" % n)
