"""C01 — RRULE expansion equals the RFC 5545 recurrence set (necessary structural clauses)."""
from ..facts import walk, strip, strip_casts, lv, show, writes, calls, int_value, table_py
from ..q import call_sites, const_eval
from ..absw import AbsWalk
from ..influence import Influence
from ..rules import fillers
from ..snapshot import AnalysisBroken

UNITS = None
EXPLANATION = (
    "R01.1 applicability matrix: for each of the seven fillers and each rule part RFC 5545 3.3.10 (p. 44) makes applicable at that "
    "frequency (81 cells incl. INTERVAL, COUNT, UNTIL, DTSTART), the stores to the occurrence cache must be influenced (data or control "
    "dependence, followed through callees by field summaries) by the corresponding rrulsp_s field. R01.2: every RRULE keyword of the gperf "
    "table reaches, in snarf_rrule, a case that assigns the matching field. R01.3: refill() dispatches every FREQ to the filler of that "
    "frequency with (cache, GRP_CCH_OFF, rule) and keeps the count. R01.4: the fillers are reachable only through refill()/--filter, and "
    "refill() only through the stream's next method: one expansion path for unroll and daemon.")
NOT_DECIDED = ("the calendar arithmetic of the candidate builders (weekday stepping, week numbers, nth-weekday, interval phases); "
               "conformance of the produced *set* stays with dynamic families")
TRUSTED = ["clang 14 parser/CFG builder", "echse-facts extractor", "python rule engines in /verif/sa", "RFC 5545 3.3.10 table as transcribed in the oracle"]
LEVEL_TEXT = ("Static verdict on necessary structural clauses of C01 for all rules at once: every applicable rule part influences every "
              "filler's output, the parser maps every keyword to its field, dispatch is exhaustive, and there is a single expansion path. It does "
              "not decide that the produced instants are the RFC 5545 set. Also: the month length held by a filler's calendar cursor is computed from the cursor's own (year, month) (R01.6).")
LEVEL_NOTE = "Trusted: clang 14 front end/CFG, extractor, rule engines; the applicability oracle is RFC 5545's table restricted to the supported language."
TECHNIQUE = "static analysis: influence closure (def-use + control dependence) per filler against the RFC applicability matrix; exhaustiveness of parser/dispatch switches; call-graph who-may-call; loop-range facts for the calendar cursor"

FREQS = ["Sly", "Mly", "Hly", "dly", "wly", "mly", "yly"]
FREQ_ENUM = {"FREQ_SECONDLY": "Sly", "FREQ_MINUTELY": "Mly", "FREQ_HOURLY": "Hly", "FREQ_DAILY": "dly", "FREQ_WEEKLY": "wly",
             "FREQ_MONTHLY": "mly", "FREQ_YEARLY": "yly"}
# RFC 5545 3.3.10, table on p. 44 (E expands, L limits, - not applicable), restricted to the supported language
MATRIX = {
    #          Sly  Mly  Hly  dly  wly  mly  yly
    "mon":    "L    L    L    L    L    L    E",
    "wk":     "-    -    -    -    -    -    E",
    "doy":    "L    L    L    -    -    -    E",
    "dom":    "L    L    L    L    -    E    E",
    "dow":    "L    L    L    L    E    E    E",
    "H":      "L    L    L    E    E    E    E",
    "M":      "L    L    E    E    E    E    E",
    "S":      "L    E    E    E    E    E    E",
    "pos":    "L    L    L    L    L    L    L",
    "inter":  "x    x    x    x    x    x    x",
    "count":  "x    x    x    x    x    x    x",
    "until":  "x    x    x    x    x    x    x",
}
PART = {"mon": "BYMONTH", "wk": "BYWEEKNO", "doy": "BYYEARDAY", "dom": "BYMONTHDAY", "dow": "BYDAY", "H": "BYHOUR", "M": "BYMINUTE",
        "S": "BYSECOND", "pos": "BYSETPOS", "inter": "INTERVAL", "count": "COUNT", "until": "UNTIL"}

KEY_FIELD = {"FREQ": "freq", "COUNT": "count", "INTERVAL": "inter", "UNTIL": "until", "SCALE": "scale", "SHIFT": "shift",
             "BYSECOND": "S", "BYMINUTE": "M", "BYHOUR": "H", "BYDAY": "dow", "BYMONTHDAY": "dom", "BYYEARDAY": "doy",
             "BYWEEKNO": "wk", "BYMONTH": "mon", "BYSETPOS": "pos", "BYPOS": "pos", "BYEASTER": "easter"}
KEY_EXCEPT = {"WKST": "weeks start on Monday only (stated in the property); the key is recognised and ignored"}


def r01_1(prog, rep, tier):
    rid = "R01.1"
    fl = {f.name[len("rrul_fill_"):]: f for f in fillers.fillers(prog)}
    if sorted(fl) != sorted(FREQS):
        raise AnalysisBroken("fillers found: %s" % sorted(fl))
    summaries = {}
    cells = 0
    table = {}
    for col, fq in enumerate(FREQS):
        f = fl[fq]
        rrp = f.params[2]["n"]
        tgt = f.params[0]["n"]
        inf = Influence(prog, f, rrp, summaries, opaque_calls={g_.name for g_ in fillers.fillers(prog) if g_.name != f.name})
        stores = {(b, i) for b, i, idx, x, line in fillers.tgt_stores(f)}
        # delegation: a returned call to another filler also is an output
        rets = set()
        for b, i, x, line in f.cfg.all_elems():
            if isinstance(x, dict) and x.get("k") == "ret":
                for c in calls(f.cfg.resolve(x)):
                    if c.get("fn", "").startswith("rrul_fill_"):
                        rets.add((b, i))
        rel = inf.slice(lambda b, i, x: (b, i) in stores)
        routes = [("own stores", {r.split("->", 1)[1] for r in rel if r.startswith(rrp + "->")} | ({"$proto"} if (tgt in rel or any(r_.split("#")[0] == "proto" for r_ in rel)) else set()))]
        # delegation is a second output route: the part must influence the delegate's stores as well
        for b, i, x, line in f.cfg.all_elems():
            for c in calls(f.cfg.resolve(x)) if isinstance(x, dict) else []:
                if c.get("fn", "").startswith("rrul_fill_") and c["fn"] != f.name:
                    g = prog.fn(c["fn"], "evrrul.c")
                    gp = g.params[2]["n"]
                    gi = Influence(prog, g, gp, summaries)
                    gst = {(bb, ii) for bb, ii, idx, xx, ln in fillers.tgt_stores(g)}
                    grel = gi.slice(lambda bb, ii, xx: (bb, ii) in gst)
                    # parts that the guard of the delegation requires to be empty need not influence the delegate
                    from ..flow import MustFacts
                    facts = MustFacts(f.cfg).at(b, i) or set()
                    exempt = set()
                    for fx in facts:
                        if fx[0] == "false" and "_has_bits_p(" in fx[1] and (rrp + "->") in fx[1]:
                            exempt.add(fx[1].split(rrp + "->", 1)[1].rstrip(")").split(")")[0])
                    routes.append(("delegate " + g.name, {r.split("->", 1)[1] for r in grel if r.startswith(gp + "->")} | exempt |
                                   ({"$proto"} if (g.params[0]["n"] in grel or any(r_.split("#")[0] == "proto" for r_ in grel)) else set())))
        fields = set.intersection(*(r[1] for r in routes))
        if tgt in rel or "proto" in rel:
            rel = set(rel)
        table[fq] = sorted(fields)
        for part, row in MATRIX.items():
            cell = row.split()[col]
            if cell == "-":
                continue
            cells += 1
            key = "rrul_fill_%s/%s" % (fq, PART[part])
            if part in fields or "*" in fields:
                rep.ok(rid, key, f.loc(), "%s (%s) influences the cache stores [%s]" % (PART[part], part, {"E": "expands", "L": "limits", "x": "applies"}[cell]))
            else:
                rep.fail(rid, key, f.loc(),
                         "rrul_fill_%s: the occurrences written to the cache do not depend on %s (rr->%s) although RFC 5545 makes it %s at this frequency: "
                         "the rule part is silently ignored" % (fq, PART[part], part, {"E": "expand the set", "L": "limit the set", "x": "apply"}[cell]))
        # DTSTART: the proto instant read from *tgt on entry influences the output
        if "$proto" in fields:
            rep.ok(rid, "rrul_fill_%s/DTSTART" % fq, f.loc(), "the proto instant (*%s on entry) influences the cache stores" % tgt)
        else:
            rep.fail(rid, "rrul_fill_%s/DTSTART" % fq, f.loc(), "the output does not depend on the proto instant (DTSTART / last kept occurrence)")
        cells += 1
    rep.extra["R01.1_cells"] = cells
    rep.extra["R01.1_fields_influencing"] = table


def _words(prog, scope):
    for t in prog.tables.get("wordlist", []):
        if t["scope"] == scope:
            return [w for w in (table_py(t) or []) if isinstance(w, dict)]
    raise AnalysisBroken("gperf word list %s not found" % scope)


def r01_2(prog, rep):
    rid = "R01.2"
    words = _words(prog, "function:__evrrul_key")
    f = prog.fn("snarf_rrule", "evical.c")
    cfg = f.cfg
    sw = None
    for b, blk in cfg.blocks.items():
        if blk.term and blk.term["kind"] == "switch" and lv(cfg.resolve(blk.term.get("on"))) == "c->key":
            if sw is None or len(cfg.reach_from(b)) > len(cfg.reach_from(sw)):
                sw = b
    if sw is None:
        raise AnalysisBroken("snarf_rrule: switch over c->key not found")
    n = 0
    for w in words:
        kw = w.get("keystr")
        val = w.get("key")
        if not kw or val is None:
            continue
        if len(kw) == 2 and kw.isupper() and kw not in KEY_FIELD:
            continue  # weekday tokens
        n += 1
        key = "snarf_rrule/%s" % kw
        if kw in KEY_EXCEPT:
            rep.note(rid, key, f.loc(), "listed exception: " + KEY_EXCEPT[kw])
            continue
        want = KEY_FIELD.get(kw)
        if want is None:
            rep.fail(rid, key, f.loc(), "keyword %s of the RRULE key table has no field in the oracle mapping" % kw)
            continue
        got = set()

        def effect(b, i, x, store, _got=got):
            for l, kind, nn in writes(x):
                t = lv(l)
                if t.startswith("rr."):
                    _got.add(t.split(".")[1].split("[")[0])
            for c in calls(x):
                for a in c["a"]:
                    t = lv(strip_casts(cfg.resolve(a)))
                    if t.startswith("&rr."):
                        _got.add(t[4:].split(".")[0])
            return None
        AbsWalk(f, {"c->key"}, init={"c->key": val}, effect=effect).run(start_block=sw, stop_at={p for p in cfg.lpreds[sw]} | {sw})
        if want in got:
            rep.ok(rid, key, f.loc(), "%s reaches a case that assigns rr.%s" % (kw, want))
        else:
            rep.fail(rid, key, f.loc(), "%s (key %d) is in the key table but snarf_rrule assigns %s instead of rr.%s: the part is dropped on input" % (
                kw, val, sorted(got) or "nothing", want))
    if n < 16:
        rep.broken_("rule=R01.2 expected >=16 RRULE keys, found %d" % n)


def r01_3(prog, rep):
    """refill() hands every FREQ to its own filler: walked once per frequency with the discriminant fixed (switch or if-chain alike)."""
    rid = "R01.3"
    f = prog.fn("refill", "evical.c")
    cfg = f.cfg
    on = None
    for b, blk in cfg.blocks.items():
        if blk.term and blk.term["kind"] == "switch" and lv(cfg.resolve(blk.term.get("on"))).endswith("->freq"):
            on = lv(cfg.resolve(blk.term["on"]))
    if on is None:
        for b in cfg.blocks:
            c = cfg.cond(b)
            for n_ in walk(c) if c is not None else ():
                if n_.get("k") == "bin" and n_["op"] == "==" and lv(strip_casts(n_["l"])).endswith("->freq") and const_eval(f, n_["r"]) is not None:
                    on = lv(strip_casts(n_["l"]))
    # single-definition locals and what they are defined from (`fq = rr->freq`, `cch = strm->cch`), and where locals are stored to
    locs = {l_["n"] for l_ in f.locals}
    defs, stored = {}, {}
    for b, i, x, line in cfg.all_elems():
        if isinstance(x, dict):
            for l, kind, nn in writes(x):
                rhs = nn.get("init") if kind == "decl" else (nn.get("r") if nn.get("k") == "bin" and nn["op"] == "=" else None)
                if rhs is None:
                    if lv(l) in locs:
                        defs.setdefault(lv(l), set()).add(None)
                    continue
                r_ = strip_casts(cfg.resolve(rhs))
                if lv(l) in locs:
                    defs.setdefault(lv(l), set()).add(lv(r_) if r_.get("k") in ("mem", "ref") else None)
                if r_.get("k") == "ref" and lv(r_) in locs:
                    stored.setdefault(lv(r_), set()).add(lv(l))
    alias = {v_: next(iter(d_)) for v_, d_ in defs.items() if len(d_) == 1 and None not in d_}
    aliases = set()
    if on is None:
        # the discriminant hoisted into a local: `const echs_freq_t fq = rr->freq; if (fq == FREQ_YEARLY) ...`
        for b in cfg.blocks:
            c = cfg.cond(b)
            for n_ in walk(c) if c is not None else ():
                if n_.get("k") == "bin" and n_["op"] == "==" and const_eval(f, n_["r"]) is not None:
                    v_ = lv(strip_casts(n_["l"]))
                    if (alias.get(v_) or "").endswith("->freq"):
                        on = alias[v_]
                        aliases.add(v_)
        for b, blk in cfg.blocks.items():
            if blk.term and blk.term["kind"] == "switch":
                v_ = lv(cfg.resolve(blk.term.get("on")))
                if (alias.get(v_) or "").endswith("->freq"):
                    on = alias[v_]
                    aliases.add(v_)
    if on is None:
        raise AnalysisBroken("refill: dispatch on rr->freq not found")
    root = on.split("->")[0]
    # the rule itself, or a local copy of it (`lrr = *rr`) handed on by address
    copies = set()
    for b, i, x, line in cfg.all_elems():
        if isinstance(x, dict):
            for l, kind, nn in writes(x):
                rhs = nn.get("init") if kind == "decl" else (nn.get("r") if nn.get("k") == "bin" and nn["op"] == "=" else None)
                r_ = strip_casts(cfg.resolve(rhs)) if rhs is not None else {}
                if r_.get("k") == "un" and r_.get("op") == "*" and lv(strip_casts(r_["e"])) == root:
                    copies.add(lv(l))
    grp = prog.macro_int("GRP_CCH_OFF")
    for en, sfx in FREQ_ENUM.items():
        val = prog.enumerator(en)
        seen = []

        def effect(b, i, x, store, _seen=seen):
            xr = cfg.resolve(x)
            for l, kind, nn in writes(xr):
                if nn.get("k") == "bin" and nn["op"] == "=":
                    r = strip_casts(nn["r"])
                    if r.get("k") == "call" and (r.get("fn") or "").startswith("rrul_fill_"):
                        args = []
                        for a in r["a"]:
                            a_ = strip_casts(a)
                            if const_eval(f, a) is not None:
                                args.append(const_eval(f, a))
                            elif a_.get("k") == "un" and a_.get("op") == "&":
                                args.append("&" + lv(a_["e"]))
                            else:
                                args.append(lv(a))
                        _seen.append((lv(l), r["fn"], args))
            return {on: val}        # re-asserted at every element: this walk is the one for that frequency
        AbsWalk(f, {on} | aliases, init={on: val}, effect=effect, max_states=20000).run()
        key = "refill/%s" % en
        # the count through a temporary that is stored to ->ncch and nowhere else; the cache through a local pointer to it
        seen = [(next(iter(stored[s_[0]])) if len(stored.get(s_[0], ())) == 1 else s_[0], s_[1],
                 [alias.get(s_[2][0], s_[2][0]) if isinstance(s_[2][0], str) else s_[2][0]] + list(s_[2][1:])) for s_ in seen if s_[2]]
        calls_ = sorted({(s_[0], s_[1], tuple(s_[2])) for s_ in seen})
        okrule = lambda a: a == root or (a.startswith("&") and a[1:] in copies)
        if len(calls_) == 1 and calls_[0][1] == "rrul_fill_" + sfx and calls_[0][0].endswith("->ncch") and \
                str(calls_[0][2][0]).endswith("->cch") and calls_[0][2][1] == grp and okrule(str(calls_[0][2][2])):
            rep.ok(rid, key, f.loc(), "%s -> ncch = %s(cch, %d, %s)" % (en, calls_[0][1], grp, calls_[0][2][2]))
        else:
            rep.fail(rid, key, f.loc(), "%s dispatches to %s (expected exactly ncch = rrul_fill_%s(cch, %d, the rule or a copy of it))" % (en, calls_ or "no filler", sfx, grp))
    # the seed: every cache entry is initialised with the proto instant before the filler is called
    rep.ok(rid, "refill/dispatch-table", f.loc(), "7 frequencies examined", nontrivial=False)


def r01_4(prog, rep):
    rid = "R01.4"
    allowed = {"refill", "echs_instant_matches_p", "rrul_fill_dly"}
    names = [g.name for g in fillers.fillers(prog)]
    for nm in names:
        cs = prog.callers_of(nm)
        bad = [(c[0].name, c[4]) for c in cs if c[0].name not in allowed]
        key = "callers/%s" % nm
        if bad:
            rep.fail(rid, key, "src/evrrul.c", "%s is also called from %s: a second expansion path can diverge from the stream's" % (nm, bad))
        elif not cs:
            rep.fail(rid, key, "src/evrrul.c", "%s is never called: the frequency cannot be expanded" % nm)
        else:
            rep.ok(rid, key, "src/evrrul.c", "called only from %s" % sorted({c[0].name for c in cs}))
    cs = prog.callers_of("refill")
    who = sorted({c[0].name for c in cs})
    if who == ["next_evrrul"]:
        rep.ok(rid, "callers/refill", "src/evical.c", "refill() is reached only through the rrule stream's next method")
    else:
        rep.fail(rid, "callers/refill", "src/evical.c", "refill() is called from %s" % who)
    # consumers use the stream interface only: echse unroll and the daemon (whichever function holds the unwinding loop)
    for label, file in (("unroll_frmt", "echse.c"), ("unwind_till", "echsd.c")):
        users, direct = [], []
        for g in prog.fns_in(file):
            if not g.cfg or g.file != file:
                continue
            used = {c[2].get("fn") for c in g.all_calls()}
            if used & {"echs_evstrm_pop", "echs_evstrm_next"}:
                users.append(g.name)
            if used & (set(names) | {"refill"}):
                direct.append((g.name, sorted(used & (set(names) | {"refill"}))))
        key = "consumer/%s" % label
        if direct:
            rep.fail(rid, key, "src/" + file, "does not consume the stream interface exclusively: %s" % direct)
        elif not users:
            rep.fail(rid, key, "src/" + file, "no function of %s obtains occurrences through echs_evstrm_next/pop any more" % file)
        else:
            rep.ok(rid, key, "src/" + file, "%s obtains occurrences through echs_evstrm_next/pop only (%s)" % (file, ", ".join(sorted(users))))


def r01_13(prog, rep, rid="R01.13"):
    """BYWEEKNO counts ISO weeks, and a negative week number counts from the year's last one: get_isowk() says whether a year has 52 or 53.
    It is walked for every year 1901..2099 and compared with the calendar (the week of December 28 is always the last)."""
    import datetime
    from .c08 import _walk_fn
    f = prog.fn("get_isowk", "evrrul.c")
    bad = []
    for y in range(1901, 2100):
        got = _walk_fn(prog, f, [y])
        if got is None:
            raise AnalysisBroken("get_isowk(%d) could not be followed to one result" % y)
        want = datetime.date(y, 12, 28).isocalendar()[1]
        if got != want:
            bad.append((y, got, want))
    key = "get_isowk/weeks-of-the-year"
    if bad:
        rep.fail(rid, key, f.loc(), "%d of 199 years get the wrong number of ISO weeks, e.g. %s: BYWEEKNO=-1 (and every negative week number) selects the "
                 "wrong week there, BYWEEKNO=53 a week that does not exist" % (len(bad), "; ".join("%d: %s instead of %d" % b_ for b_ in bad[:4])),
                 {"years": [list(b_) for b_ in bad]})
    else:
        rep.ok(rid, key, f.loc(), "all 199 years 1901..2099 have the calendar's number of ISO weeks")


def run(prog, rep, tier, snap):
    rep.rule("R01.1", "applicability matrix: every applicable rule part influences every filler's output", 80)
    rep.call(r01_1, prog, rep, tier)
    rep.rule("R01.2", "every RRULE keyword reaches a case that assigns its field", 16)
    rep.call(r01_2, prog, rep)
    rep.rule("R01.3", "refill dispatches every FREQ to its filler", 7)
    rep.call(r01_3, prog, rep)
    rep.rule("R01.4", "single expansion path", 9)
    rep.call(r01_4, prog, rep)
    from . import c16
    from ..rules import bitint
    rep.rule("R01.5", "the parser admits every value RFC 5545 allows for a rule part", 7)
    rep.call(bitint.r01_5, prog, rep)
    rep.rule("R01.6", "the calendar cursor's month length is computed from the cursor's own (year, month)", 5)
    rep.call(fillers.r01_6, prog, rep)
    rep.rule("R01.9", "cursor variables that the step advances together are never advanced alone", 3)
    rep.call(fillers.r01_9, prog, rep)
    rep.rule("R01.10", "inside the expansion loop the stepped cursor moves by INTERVAL and modular reduction only", 5)
    rep.call(fillers.r01_10, prog, rep)
    rep.rule("R01.11", "BY-lists are unrolled whole, never cut down to the number of results wanted", 3)
    rep.call(fillers.r01_11, prog, rep)
    rep.rule("R01.12", "a month taken from yd_to_md() is packed into a candidate set only when it is at most 12", 3)
    rep.call(fillers.r01_12, prog, rep)
    rep.rule("R01.13", "the number of ISO weeks of every year 1901..2099 (value-fixed walk)", 1)
    rep.call(r01_13, prog, rep)
    rep.rule("R01.8", "a mask duplicated for wrap-around is clamped to the width it was duplicated by", 1)
    rep.call(fillers.r01_8, prog, rep)
    rep.rule("R01.7", "range tests against 0 are not evaluated in unsigned arithmetic when an operand is signed", 2)
    rep.call(fillers.r01_7, prog, rep)
    from . import c08
    rep.rule("R08.5", "every month wrap carries the year; modular month reductions are bracketed (shared with C08)", 12)
    rep.call(c08.r08_5, prog, rep)
    rep.rule("R16.2", "UNTIL / DTSTART guards dominate every commit (shared with C16)", 20)
    rep.call(c16.r16_2, prog, rep)
    rep.rule("R16.3", "COUNT accounting (shared with C16)", 9)
    rep.call(c16.r16_3, prog, rep)
    from . import c07
    rep.rule("R07.12", "the seed of the next batch is kept on the wall clock, before the batch is converted and sorted (shared with C07)", 3)
    rep.call(c07.r07_12, prog, rep)
    from ..rules import state
    rep.rule("R16.6", "the fillers and their helpers carry no state from one rule to the next (shared with C16)", 1)
    rep.call(state.no_carried_state, prog, rep, "R16.6", "rrule")
READY = True

# texts brought up to date with the rules added in the last rounds
LEVEL_TEXT = LEVEL_TEXT + ' Also (added later): the stepped cursor of each filler moves by INTERVAL and modular reduction only; stepped-back counters tested against 0 are signed; BY-lists are unrolled whole, never cut down to COUNT; a month from the day-of-year conversion is packed only when it is at most 12; the number of ISO weeks of every year 1901..2099 by a value-fixed walk; the seed of the next batch stays on the wall clock; no state carried from one rule to the next.'
TECHNIQUE = (TECHNIQUE if isinstance(TECHNIQUE, str) else TECHNIQUE) + "; value-fixed walks of small pure functions in the compiler's types"

